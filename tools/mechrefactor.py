#!/usr/bin/env python3
"""CLI wrapper: python tools/mechrefactor.py <transform> <out.diff> [--only <module-substring>]  (see sv/mech.py)"""
import os, sys
sys.path.insert(0, os.path.dirname(os.path.dirname(os.path.abspath(__file__))))
from sv.mech import main
main()
