#!/usr/bin/env python3
"""Validation of the canonicalising front-end by execution (tool validation, not a property check): the canonical form of a
tree must BEHAVE like the tree.  In a scratch git worktree of /repo: apply a variant (a patch, `mech:<transform>`, or `-` for
the unchanged tree), canonicalise it exactly as the loader does, write the canonical modules back as source, run the pinned
suite and compare with the stable passes of /root/.vp/BASELINE.json.

usage: tools/canon_selfcheck.py <worktree> <variant> [...]       variant = path/to/patch.diff | mech:<name> | -
"""
import ast, json, os, subprocess, sys, xml.etree.ElementTree as ET

sys.path.insert(0, os.path.dirname(os.path.dirname(os.path.abspath(__file__))))
from sv.loader import Repo
from sv import mech

wt = os.path.abspath(sys.argv[1])
assert wt.startswith("/tmp/"), "scratch worktrees live under /tmp"
PY = "/venv/bin/python"


def run(cmd, **kw):
    return subprocess.run(cmd, cwd=wt, capture_output=True, text=True, **kw)


def clean():
    run(["git", "checkout", "--", "."])
    run(["git", "clean", "-fdq"])


base = set(json.load(open("/root/.vp/BASELINE.json"))["stable_pass"])
for variant in sys.argv[2:]:
    clean()
    if variant.startswith("mech:"):
        mech.rewrite_tree(variant[5:], wt, wt)
    elif variant != "-":
        ap = run(["git", "apply", os.path.abspath(variant)])
        if ap.returncode:
            print(variant, "PATCH DOES NOT APPLY")
            continue
    repo = Repo(wt)  # canonical
    log = repo.canon_log
    for m in repo.modules.values():
        ast.fix_missing_locations(m.tree)
        src = ast.unparse(m.tree) + "\n"
        compile(src, m.relpath, "exec")
        with open(os.path.join(wt, m.relpath), "w", encoding="utf-8") as fh:
            fh.write(src)
    jx = os.path.join("/tmp", f"canon-selfcheck-{os.path.basename(wt)}.xml")
    run([PY, "-m", "pytest", "-ra", "-q", "-p", "no:cacheprovider", "--timeout=900", "--continue-on-collection-errors", f"--junitxml={jx}"], timeout=3600)
    ok = set()
    for tc in ET.parse(jx).iter("testcase"):
        if not any(c.tag in ("failure", "error", "skipped") for c in tc):
            ok.add(tc.get("classname") + "::" + tc.get("name"))
    os.remove(jx)
    missing = sorted(base - ok)
    print(f"{variant}: canonical form passes {len(base & ok)}/165 stable tests; missing {missing[:3]}; rewrites: inlined={len(log.get('inlined_helpers', []))} locals={log.get('propagated_locals')} loops={log.get('loops_to_comprehensions')} renamed={log.get('renamed_binders')}", flush=True)
clean()
