#!/usr/bin/env python3
"""Detection matrix: run every claimed check on every seeded / breaking variant (scratch copies, in parallel) and record
which checks report it in the variant's meta (detected_by) ; prints misses of the variant's own property."""
import glob, json, os, sys
sys.path.insert(0, os.path.dirname(os.path.dirname(os.path.abspath(__file__))))
from concurrent.futures import ThreadPoolExecutor
from sv.driver import CLAIMED
from sv.selftest import _run_variant

only = sys.argv[1:]
PROPS = [p for p in os.environ.get('MATRIX_PROPS', '').split(',') if p] or CLAIMED
metas = sorted(glob.glob('/verif/seeded/*/meta.json') + glob.glob('/verif/selftest/breaking/*.json'))
jobs = []
for mp in metas:
    meta = json.load(open(mp))
    sid = meta.get('id') or os.path.basename(mp)[:-5]
    if only and not any(o in sid for o in only):
        continue
    patch = os.path.join(os.path.dirname(mp), 'patch.diff') if mp.endswith('meta.json') else mp[:-5] + '.diff'
    for p in PROPS:
        jobs.append((mp, sid, patch, p))
def run(j):
    mp, sid, patch, p = j
    r = _run_variant(p, '/repo', {'name': sid, 'patch': patch, 'kind': 'breaking', 'why': ''})
    return mp, sid, p, r
with ThreadPoolExecutor(max_workers=14) as ex:
    results = list(ex.map(run, jobs))
by = {}
for mp, sid, p, r in results:
    by.setdefault(mp, {})[p] = {'exit': r.get('exit'), 'reported': r.get('reported', [])[:3]}
for mp, det in by.items():
    meta = json.load(open(mp))
    prev_d = {p: v for p, v in meta.get('detected_by', {}).items() if p not in det}
    prev_e = [p for p in meta.get('analysis_error_in', []) if p not in det]
    meta['detected_by'] = dict(sorted({**prev_d, **{p: v['reported'] for p, v in det.items() if v['exit'] == 1}}.items()))
    meta['analysis_error_in'] = sorted(prev_e + [p for p, v in det.items() if v['exit'] == 2])
    own = meta.get('property')
    meta['expected_detection'] = sorted(set(meta.get('expected_detection', [])) | ({own} if own in meta['detected_by'] else set()))
    json.dump(meta, open(mp, 'w'), indent=1)
    sid = meta.get('id') or os.path.basename(mp)
    print(f"{sid:16s} own={'HIT ' if own in meta['detected_by'] else 'MISS'} detected_by={sorted(meta['detected_by'])} errors={meta['analysis_error_in']}")
