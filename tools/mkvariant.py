#!/usr/bin/env python3
"""Create a variant patch: copy the analysed files of /repo to a temp dir, apply textual substitutions, emit a unified diff.

usage: mkvariant.py <out.diff> <relpath> <old> <new> [<relpath> <old> <new> ...]   (each <old> must occur exactly once unless prefixed with 'ALL:')
"""
import difflib, os, sys
out = sys.argv[1]; args = sys.argv[2:]
files = {}
for i in range(0, len(args), 3):
    rel, old, new = args[i:i+3]
    src = files.get(rel) or open(os.path.join('/repo', rel)).read()
    files.setdefault(rel + '#orig', open(os.path.join('/repo', rel)).read())
    if old.startswith('ALL:'):
        old = old[4:]
        assert old in src, (rel, old)
        src = src.replace(old, new)
    else:
        assert src.count(old) == 1, (rel, old, src.count(old))
        src = src.replace(old, new)
    files[rel] = src
diff = ''
for rel, new in files.items():
    if rel.endswith('#orig'): continue
    orig = files[rel + '#orig']
    diff += ''.join(difflib.unified_diff(orig.splitlines(True), new.splitlines(True), 'a/' + rel, 'b/' + rel))
open(out, 'w').write(diff)
print(out, len(diff.splitlines()), 'lines')
