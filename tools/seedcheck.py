#!/usr/bin/env python3
"""Apply a seeded patch to /repo, run the given property checks against it, and always undo the patch.

usage: tools/seedcheck.py <patch.diff> <Cxx> [<Cyy> ...]   (prints one line per check: exit code + VIOLATION keys)
"""
import subprocess, sys, os, json

def main():
    patch, props = sys.argv[1], sys.argv[2:]
    st = subprocess.run(["git", "-C", "/repo", "status", "--porcelain"], capture_output=True, text=True).stdout.strip()
    if st:
        print("refusing: /repo working tree is not clean:\n" + st); return 2
    r = subprocess.run(["git", "-C", "/repo", "apply", os.path.abspath(patch)], capture_output=True, text=True)
    if r.returncode:
        print("patch does not apply:", r.stderr); return 2
    try:
        for p in props:
            out = subprocess.run(["/venv/bin/python", "-m", "sv", "check", p], cwd="/verif", capture_output=True, text=True)
            keys = [l.strip() for l in out.stdout.splitlines() if l.startswith("[") or l.startswith("ANALYSIS-ERROR")]
            print(f"{p}: exit={out.returncode} " + (" | ".join(keys[:6]) if keys else ""))
            if out.returncode == 2 and not keys:
                print(out.stdout[-800:], out.stderr[-800:])
    finally:
        subprocess.run(["git", "-C", "/repo", "checkout", "--", "."], check=True)
    return 0

sys.exit(main())
