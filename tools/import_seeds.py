#!/usr/bin/env python3
"""Copy confirmed seeds from the agents' output area into /verif/seeded/<id>/ (patch.diff, demo.py, meta.json)."""
import glob, json, os, shutil, sys
SRC = '/tmp/seed_out'
for cj in sorted(glob.glob(f'{SRC}/C*/m*/confirmed.json') + glob.glob(f'{SRC}/r2/C*/m*/confirmed.json') + glob.glob(f'{SRC}/r3/C*/m*/confirmed.json') + glob.glob(f'{SRC}/r4/C*/m*/confirmed.json') + glob.glob(f'{SRC}/r5/C*/m*/confirmed.json') + glob.glob(f'{SRC}/r6/C*/m*/confirmed.json') + glob.glob(f'{SRC}/r7/C*/m*/confirmed.json') + glob.glob(f'{SRC}/r8/C*/m*/confirmed.json')):
    d = os.path.dirname(cj)
    c = json.load(open(cj))
    if not c.get('confirmed'):
        print('skip (not confirmed):', d); continue
    parts = d.split('/')
    rnd = {'r2': 2, 'r3': 3, 'r4': 4, 'r5': 5, 'r6': 6, 'r7': 7, 'r8': 8}.get(parts[-3], 1)
    prop, m = parts[-2], parts[-1]
    sid = f'{prop}-r{rnd}-{m}'
    dst = f'/verif/seeded/{sid}'
    os.makedirs(dst, exist_ok=True)
    shutil.copy(f'{d}/patch.diff', f'{dst}/patch.diff'); shutil.copy(f'{d}/demo.py', f'{dst}/demo.py')
    meta = json.load(open(f'{d}/meta.json'))
    old = json.load(open(f'{dst}/meta.json')) if os.path.exists(f'{dst}/meta.json') else {}
    meta.update({
        'id': sid, 'property': prop, 'round': rnd,
        'author': 'independent sub-agent given only the property text and a scratch worktree',
        'confirmed_by_me': {'where': 'scratch git worktree of /repo under /tmp/wt (removed afterwards)', 'demo_on_clean_checkout_rc': c['demo_clean_rc'], 'demo_with_patch_rc': c['demo_mutated_rc'], 'byte_compiles': c['compiles'], 'pinned_suite_stable_passes': c['suite_pass'], 'pinned_suite_missing': c['suite_missing'], 'command': 'tools/confirm_seed.py <seed dir> <worktree>'},
        'expected_detection': old.get('expected_detection', [prop]),
        'detected_by': old.get('detected_by', {}),
    })
    json.dump(meta, open(f'{dst}/meta.json', 'w'), indent=1)
    print('imported', sid)
