#!/usr/bin/env python3
"""Run every claimed check on behaviour-preserving patches (scratch copies, in parallel): anything other than exit 0
is a false alarm (exit 1) or an analysis break (exit 2) to be fixed in the rules.

usage: tools/equivcheck.py <patch.diff> [...]      prints one line per (patch, check) that is not silent
"""
import os, sys
sys.path.insert(0, os.path.dirname(os.path.dirname(os.path.abspath(__file__))))
from concurrent.futures import ThreadPoolExecutor
from sv.driver import CLAIMED
from sv.selftest import _run_variant

patches = sys.argv[1:]
PROPS = [p for p in os.environ.get('EQUIV_PROPS', '').split(',') if p] or CLAIMED
jobs = [(pa, p) for pa in patches for p in PROPS]
def run(j):
    pa, p = j
    return pa, p, _run_variant(p, '/repo', {'name': pa, 'patch': os.path.abspath(pa), 'kind': 'equivalent', 'why': ''})
with ThreadPoolExecutor(max_workers=14) as ex:
    res = list(ex.map(run, jobs))
bad = 0
for pa, p, r in res:
    if r.get('exit') != 0:
        bad += 1
        print(f"{pa} {p}: exit={r.get('exit')} {r.get('reported', [])[:4]} {r.get('error', '')}")
print(f"{len(patches)} patches x {len(CLAIMED)} checks: {bad} not silent")
