#!/usr/bin/env python3
"""Confirm a seeded mutation in a scratch git worktree of /repo (never in /repo itself):
demo passes on the clean checkout, fails with the patch, and the pinned suite still has all 165 stable passes.

usage: confirm_seed.py <seed_dir> <worktree>     -> writes <seed_dir>/confirmed.json
"""
import json, os, subprocess, sys, xml.etree.ElementTree as ET

seed, wt = os.path.abspath(sys.argv[1]), os.path.abspath(sys.argv[2])
PY = "/venv/bin/python"
def run(cmd, **kw):
    return subprocess.run(cmd, cwd=wt, capture_output=True, text=True, **kw)
def clean():
    run(["git", "checkout", "--", "."]); run(["git", "clean", "-fdq"])
clean()
res = {"seed": seed}
d0 = run([PY, os.path.join(seed, "demo.py")], timeout=900)
res["demo_clean_rc"] = d0.returncode
ap = run(["git", "apply", os.path.join(seed, "patch.diff")])
res["patch_applies"] = ap.returncode == 0
try:
    d1 = run([PY, os.path.join(seed, "demo.py")], timeout=900)
    res["demo_mutated_rc"] = d1.returncode
    res["demo_mutated_tail"] = (d1.stdout + d1.stderr)[-400:]
    cc = run([PY, "-m", "compileall", "-q", "."])
    res["compiles"] = cc.returncode == 0
    jx = os.path.join(seed, "confirm.junit.xml")
    run([PY, "-m", "pytest", "-ra", "-q", "-p", "no:cacheprovider", "--timeout=900", "--continue-on-collection-errors", f"--junitxml={jx}"], timeout=1800)
    base = set(json.load(open("/root/.vp/BASELINE.json"))["stable_pass"])
    ok = set()
    for tc in ET.parse(jx).iter("testcase"):
        if not any(c.tag in ("failure", "error", "skipped") for c in tc):
            ok.add(tc.get("classname") + "::" + tc.get("name"))
    res["suite_missing"] = sorted(base - ok)
    res["suite_pass"] = len(base & ok)
    os.remove(jx)
finally:
    clean()
res["confirmed"] = bool(res.get("patch_applies") and res["demo_clean_rc"] == 0 and res.get("demo_mutated_rc") == 1 and res.get("compiles") and res.get("suite_pass") == 165 and not res.get("suite_missing"))
json.dump(res, open(os.path.join(seed, "confirmed.json"), "w"), indent=1)
print(os.path.basename(os.path.dirname(seed)) + "/" + os.path.basename(seed), "CONFIRMED" if res["confirmed"] else "NOT CONFIRMED", {k: v for k, v in res.items() if k not in ("seed", "demo_mutated_tail")})
