#!/usr/bin/env python3
"""Write sv/known_names.json: the functions (and their locals) of the tree the rule tables were written against.
Run only on the pinned /repo tree (clean working tree); sv.canon sees through every function / local NOT listed here."""
import json, os, subprocess, sys
sys.path.insert(0, os.path.dirname(os.path.dirname(os.path.abspath(__file__))))
from sv.loader import Repo
from sv import canon
if subprocess.run(["git", "-C", "/repo", "status", "--porcelain"], capture_output=True, text=True).stdout.strip():
    sys.exit("refusing: /repo working tree is not clean")
repo = Repo("/repo", canonical=False)
snap = canon.snapshot({n: m.tree for n, m in repo.modules.items()})
snap["tree_digest"] = repo.digest()
snap["commit"] = subprocess.run(["git", "-C", "/repo", "rev-parse", "HEAD"], capture_output=True, text=True).stdout.strip()
json.dump(snap, open(canon.KNOWN_PATH, "w"), indent=0, sort_keys=True)
print(len(snap["functions"]), "functions,", sum(len(v["locals"]) for v in snap["functions"].values()), "locals")
