#!/usr/bin/env python3
"""Validate MANIFEST.json and all evidence files against the harness schemas (run with python3-vt, which has jsonschema)."""
import glob, json, sys
import jsonschema
m = json.load(open('/verif/MANIFEST.json')); jsonschema.validate(m, json.load(open('/root/.vp/MANIFEST.schema.json'))); print('manifest ok:', len(m['checks']), 'checks')
es = json.load(open('/root/.vp/EVIDENCE.schema.json'))
for p in sorted(glob.glob('/verif/evidence/C*.json')):
    jsonschema.validate(json.load(open(p)), es); print('evidence ok:', p)
claimed = {c['property_id'] for c in m['checks']}; na = {n['property_id'] for n in m.get('not_applicable', [])}
allp = {json.loads(l)['id'] for l in open('/verif/properties.jsonl')}
assert claimed | na == allp and not (claimed & na), (claimed, na)
print('every property is either claimed or not_applicable')
