#!/usr/bin/env python3
"""Regenerates /verif/MANIFEST.json from the table below (single source of truth for what is claimed)."""
import json
import os
import sys

VERIF = os.path.dirname(os.path.dirname(os.path.abspath(__file__)))
sys.path.insert(0, VERIF)

PY = "/venv/bin/python"

# property -> (design_ref, technique, level text, level_note)
CLAIMS = {
    "C01": (
        "DESIGN.md §3 C01",
        "whole-program points-to/effect analysis (who-may-write over all in-place write sites), dominance + def-use over the group-step CFG, region-exhaustive evaluation of the refresh-schedule predicate, wiring of per-step hyperparameters, term-valued abstract interpretation of the recurrences compared as exact rational functions",
        "Static necessary conditions of the update rule, decided for every path/call site of the current tree: (1) no in-place write can reach a state tensor outside that state's own recurrence (this is how the SGD-grafting corruption of the gradient EMA was found); (2) the stages of one group step are ordered by their data dependences and one direction list flows through them, scaled by -lr and applied last; (3) the refresh predicate equals the documented schedule on the post-increment group step and the amortized computation runs only under it; (4) the group step counter is incremented exactly once by 1 and registered per group in optimizer state; (5) per-step hyperparameters are read from the loop's param group and reach the matching formal; (6) the arithmetic of the recurrences: the whole group step with its helpers inlined (384 flag cases), the diagonal accumulator, the Kronecker-factor accumulation and the inverse-root refresh are interpreted on a representative block element with symbolic inputs and compared with the documented formulas as exact rational functions (term-valued abstract interpretation; matrix routines, tensordot and norms are uninterpreted). NOT decided: the numerics inside matrix_inverse_root / eigh (C10-C12), the mode-wise contraction of _precondition_grad, floating-point evaluation order.",
        "Trusts the torch operation table in sv/tables.py (in-place / view / maybe-copy / fresh); points-to is a may-analysis (k=1 call strings quick, k=2 thorough) and can only err towards reporting.",
    ),
    "C02": (
        "DESIGN.md §3 C02",
        "first-match evaluation of the grafting dispatch with symbolic payload interpretation, region-exhaustive evaluation of the phase-switch predicate, def-use / dominance analysis of the norm-transfer code, term-valued abstract interpretation of the diagonal preconditioner and the group step",
        "Static: each grafting config class maps to the documented (list class, beta2, epsilon, bias-correction) payload and unknown classes raise; use_grafting_method equals (incremented step < start and grafting configured); both methods precondition the same input, the Shampoo result is rescaled in place by norm(graft)/(norm(shampoo)+tiny) with the roles in that order, only after warm-up, and the grafting accumulator is updated whenever grafting is configured. The arithmetic of the grafted method (accumulator, bias correction, G/(sqrt(V/bc2)+eps)) and of the norm transfer inside the group step is compared with the documented formulas as exact rational functions. NOT decided: bitwise equality of trajectories with torch.optim.* (floating-point evaluation order).",
        "Trusts Python/torch semantics of the foreach norm/div/mul primitives.",
    ),
    "C03": (
        "DESIGN.md §3 C03",
        "dominance / guard-agreement analysis of the SOAP list (refresh-then-accumulate, rotate/divide/rotate-back pairing), who-may-write (points-to) for basis and accumulator, dtype-tag flow over allocations, rotation and QR paths, exactness of the diagonal flag, term-valued abstract interpretation of the SOAP and QR recurrences",
        "Static: the basis refresh precedes the (unconditional) corrected-eigenvalue update; precondition() rotates, divides and rotates back with the same basis, selector and guard and the transposed contraction, under the same basis-exists predicate as the accumulator update; ignored dims are only permuted; the basis is refreshed only under the schedule flag and written only by its refresh; factors are allocated in the preconditioner dtype and everything contracted with gradients in the parameter dtype, and every same-dtype operation on the QR path has equal dtype tags (the rule that found the QR dtype defect); the diagonal flag is exact; the SOAP accumulator, the rotate-divide-rotate-back formula, the factor accumulation and one orthogonal (QR) iteration with its relative-change stopping rule and Rayleigh-quotient ordering equal the documented formulas as exact terms (rotations / qr / einsum uninterpreted). NOT decided: orthonormality and diagonalisation of what eigh / qr return (numerical).",
        "Trusts the same-dtype operation table (matmul, tensordot, einsum ...) and the torch operation table.",
    ),
    "C04": (
        "DESIGN.md §3 C04",
        "index-space typing (units-of-measure inference over all per-block lists, selectors and indices) + mask-completeness / guard-agreement checks + CFG path queries",
        "Static, for every gradient-presence history at once: all per-block lists are typed by index space (global / local / global-masked / local-masked) from five seeds, and every compress_list, zip, multi-list foreach, list-class constructor and index use must combine one space; every masked list of every owner is re-derived from its unmasked twin with the right selector under a guard that agrees with the list's existence, and the re-mask is skipped only when the remembered selector is current; in-place writes on the step path hit masked or fresh lists only; an empty masked gradient list skips the group before the step counter; the gradient selector gets an entry for every block on every path. NOT decided: bit-for-bit equality of untouched tensors (follows from these facts plus torch semantics).",
        "Trusts the five typing seeds listed in sv/spaces.py and the torch operation table; name prefixes are used only as a contradiction check against inferred spaces.",
    ),
    "C05": (
        "DESIGN.md §3 C05",
        "points-to with strict polarity (blocks must alias parameter storage through view-only operations), call-site agreement of the parameter and gradient blocking recipes, who-may-write for parameters, structural check of multi_dim_split / compress_list",
        "Static: every parameter block of every distributor aliases exactly the parameter storage (a maybe-copy op such as reshape/contiguous/clone on the chain is reported), gradient blocks alias the gradients, gradients are viewed with the stored merged dims and split with the same size expression, parameters are written in place only by update_params, multi_dim_split is a single fold over every dimension with torch.split as the only producer and no early exit, compress_list is an order-preserving selection, merge_small_dims fuses the next dim into the last merged dim iff the product stays <= threshold. NOT decided: exact-once coverage, row-major order, the size bound, and the invariance 'optimising blocks = optimising separate parameters'.",
        "Trusts the torch view / maybe-copy operation table.",
    ),
    "C06": (
        "DESIGN.md §3 C06",
        "rank-variance taint of the control context of every collective / group-creating call along all call-graph paths (points-to call graph + index-space typing), typestate of the update_params buffer protocol, index-space typing of the DDP lists, sibling agreement of the three distribution copies",
        "Static, over every schedule and gradient-presence pattern: (1) each collective or process-group-creating call must be reached in a rank-invariant control context with rank-invariant group arguments on every call path from __init__/step — the two defects named in the property text (rank starvation through the `continue` in step(), per-owner lazy DeviceMesh creation) are reported by this rule and listed as known findings; (2) update_params fills the local send buffers, gathers, and applies all gathered masked blocks to the global masked parameter list, with no other parameter write after the gather (replica identity); (3) the DDP lists live in the right index spaces and are re-masked on global selector change; (4) the DDP copy agrees with its HSDP/HybridShard siblings. NOT decided: numerical equality with the serial optimizer, the rounding bound.",
        "Assumes (premises of the property) that parameter shapes, gradient presence per parameter, hyperparameters, world size and mesh layout are identical on all ranks; trusts the collective-sink table and torch 2.5.1's _get_all_submeshes(_init_backend=False).",
    ),
    "C07": (
        "DESIGN.md §3 C07",
        "call-site agreement between the parameter and gradient recovery paths, sibling differ (FSDP~HSDP, HSDP~DDP/HybridShard), points-to view-only derivation of recovered blocks, rank-variance taint + buffer-protocol typestate + index-space typing for the HSDP distribution",
        "Static agreement conditions: gradients are recovered with the same parameter's metadata (shape/start/end) and blocked with the merged dims and counts stored by the parameter path; the FSDP and HSDP copies of recovery and blocking are canonically equal, recovered blocks are views with the documented guards and a three-way well-founded recursion; for HSDP the collective-uniformity, gather-protocol, index-space and re-mask rules of C06 are instantiated (the rank-starvation defect is reported and listed as a known finding); block keys carry the shard rank. NOT decided: maximality of recovered blocks (C15's arithmetic), exactly-once element coverage across ranks, numerical equality with the serial optimizer, compile_fsdp_parameter_metadata's index conversion.",
        "Same trusted base as C06 (rank-invariance premises, collective-sink table) and C15 (torch view-operation table).",
    ),
    "C08": (
        "DESIGN.md §3 C08",
        "predicate agreement across the four non-empty-shard filter sites, dominance of the `grad is None` test, sibling differ (FullyShard~HybridShard, HybridShard~HSDP/DDP), rank-variance taint + buffer-protocol typestate + index-space typing for the HybridShard distribution",
        "Static agreement conditions: parameters, gradients and block infos are filtered by one and the same predicate of the parameter's local shard (so sequences stay aligned when a gradient is absent) and block infos zip strictly with the per-parameter block counts; an absent DTensor gradient yields None; the FullyShard and HybridShard copies agree; for HybridShard the collective-uniformity, gather-protocol, index-space and re-mask rules of C06 are instantiated (rank starvation reported as a known finding). NOT decided: numerical equality with the serial optimizer.",
        "Same trusted base as C06.",
    ),
    "C09": (
        "DESIGN.md §3 C09",
        "cross-step def-use over the step path (everything assigned or written in place must be state reachable from self.state or a listed derived cache), points-to reachability of allocations from self.state, error-discipline analysis of the load path, writer/reader key-set agreement",
        "Static: every attribute / slot assigned on the step path is a listed derived cache (each with a reason), every in-place write hits saved state, parameters, gradients, communication buffers or fresh tensors, every allocate_zeros_tensor result is reachable from self.state, the step counter is registered per group inside the group loop, missing keys raise on the load path, loops over the current state are never left early, leaf-less entries are not required, the group key is the sorted parameter names and all group fields are saved and restored. The silent skip of missing nested keys in OptimizerModule.load_state_dict is reported and listed as a known finding. NOT decided: bit-for-bit trajectory equality after resume.",
        "The consecutive-failure counter of C13 is deliberately not checkpointed (fault sequences are outside C09's quantifier): recorded as an assumption.",
    ),
    "C10": (
        "DESIGN.md §3 C10",
        "dispatch-table evaluation of matrix_inverse_root with argument/field forwarding checks, interpretation of the convergence-flag expressions, dominance analysis of the higher-order solver's guards, def-use discipline of the regularised input, term-valued abstract interpretation of the Newton / eigen / fast-path formulas",
        "Static control-structure conditions only (the weakest claimed property): each config class reaches exactly one solver arm forwarding A, root (numerator only under a denominator == 1 check), epsilon and the config fields; fast paths come first; CONVERGED is produced only by an expression that holds iff the last |M-I| residual <= tolerance; the higher-order residual guard is recomputed unconditionally from the returned X and, with the NaN/Inf guard, dominates the return; the tf32 flag is restored in finally; after the ridge matrix is formed the raw input is not read again; the diagonal flag is exact; the coupled Newton initialisation and iteration, the eigen solver's formula and the diagonal / 1-element fast paths equal their documented formulas as exact terms (matrix products uninterpreted). NOT decided: every accuracy bound (conditioning, tolerance, float32 exponent), the higher-order solver's coefficients (protected only by its residual guard).",
        "Accuracy is numerical and out of reach of this technique family.",
    ),
    "C11": (
        "DESIGN.md §3 C11",
        "dominance analysis of shape / root guards over every solver call, scalar-shadow interpretation of the eigenvalue update on a grid covering every linear piece, try/except shape analysis of the double-precision retry",
        "Static: non-2-D and non-square inputs with more than one element are rejected on every path to any solver (including the diagonal fast path); the positive-root guard dominates the power; on both enhance_stability branches every eigenvalue becomes lambda - min(lambda_min, 0) + epsilon before the power (the mechanism that keeps powered values >= epsilon > 0), with lambda_min taken from the same eigenvalues; a decomposition failure is retried in double precision only under the flag and a non-float64 dtype, otherwise re-raised; X is assembled as (Q * lambda^(-1/root)) @ Q^T from the shifted eigenvalues of A (or A + eps I) (exact term comparison). NOT decided: finiteness, symmetry, the eigenvalue bound, commutation, equivariance of the floating-point result.",
        "The scalar shadow abstracts the elementwise tensor update of the eigenvalue vector by the same update on one eigenvalue.",
    ),
    "C12": (
        "DESIGN.md §9.8 (C12 was not-applicable in the design round)",
        "structural checks around torch.linalg.eigh / qr: call-argument and return-shape analysis of matrix_eigenvalue_decomposition, dispatch-table evaluation of matrix_eigenvectors, exactness of the diagonal flag, term-valued abstract interpretation of one orthogonal (QR) iteration",
        "Static, structural part only: the eigendecomposition method returns eigh's (eigenvalues, eigenvectors) of the matrix it was given on the caller's device, retrying in double precision only under the flag; a 1-element input yields one and a diagonal-flagged input the identity, with an exact diagonal flag and shape rejection first; each eigenvector config reaches its method with the previous basis, tolerance and iteration cap forwarded and unknown configs raise; the QR method falls back to the eigendecomposition for a zero estimate, performs Q <- qr(A @ Q).Q with the relative-change stopping rule and returns columns in ascending Rayleigh-quotient order (exact term comparison). NOT decided: orthonormality, ascending order and diagonalisation themselves (contracts of torch.linalg.eigh / qr, trusted), the fixed-point property up to signs, all accuracy statements.",
        "Trusts torch.linalg.eigh (orthonormal Q, ascending eigenvalues) and torch.linalg.qr (orthonormal Q spanning the columns of its argument).",
    ),
    "C13": (
        "DESIGN.md §3 C13",
        "try/except shape + dominance analysis on the CFG of both _amortized_computation copies, dtype-provenance of the value tested for finiteness, exhaustive interpretation of the tolerance-counter routine, write-through rule on subscript stores into masked lists (index-space typing)",
        "Static: the matrix routine runs inside `try/except Exception` whose handler keeps the stored matrix, warns and records a failure (success recorded after the call, one tracker per block judged once); every copy_ into an inverse root / eigenbasis is dominated by a NaN/Inf test on the same value in its stored dtype raising PreconditionerValueError outside the try, the factor-matrix check dominates the routine, and the refresh dominates the parameter update; the counter routine is interpreted on all (outcomes, count, tolerance, block) cases; no subscript store on the step path goes into a masked (re-created) list — the rule that found the lost-counter defect. What remains assumed is torch semantics of isnan/isinf/copy_.",
        "Trusts torch semantics of isnan / isinf / copy_ and the index-space typing seeds.",
    ),
    "C14": (
        "DESIGN.md §3 C14",
        "purity / determinism analysis of the three _distribute_buffer_sizes copies (rank taint + structural checks of the stable sort and the (load, rank) heap), def-use of owner ranks into the distributor selector, points-to view-only derivation of all buffer lists, sibling differ over the three copies",
        "Static: the assignment depends on global block sizes and group size only (no rank-variant or order-free value, stable largest-first order over enumerate, heap of (load, rank) tuples whose load increment is the size recorded for the block); a block's owner is the rank whose rank in the communication group equals the assigned rank, owners come from the assignment, local lists are the selector-compressed global lists and state is allocated over local lists; every per-block buffer is a view of the single gather buffer and the local send buffer is the rank's own split, with one size expression; the aligned size is the smallest multiple of 64 >= the byte size (complete residue system); one assignment decides both owners and buffer layout; the DDP/HSDP/HybridShard copies (two of which no runnable test touches) are canonically equal. NOT decided: the 4/3 and load-difference bounds, non-overlap of offsets for all size sequences.",
        "Sibling agreement is a cross-check: an edit applied consistently to all three copies passes it; trusts Python's sort stability and heapq tuple ordering.",
    ),
    "C15": (
        "DESIGN.md §3 C15",
        "points-to view-only derivation (strict polarity) of the recovered blocks, CFG/AST guard structure of the recursive helper, sibling differ FSDP~HSDP",
        "Static: every block returned by split-tensor-block recovery shares storage with the given shard (only narrow/view on the path, through the recursion), pieces are concatenated left+center+right, a non-flat shard raises first, an empty range yields no blocks, the last dimension returns the block, the outer routine returns only the helper's result, every recursive call increases `dimension`, the whole-block descent is taken only under strict start > end, the integer expressions of one split (center = [ceil(start/size)*size, floor(end/size)*size), offsets and lengths of the three pieces, recursion ranges) are exact on complete small boxes, and the two copies agree. NOT decided: minimality of the number of pieces and the composition of the recursion over all shapes.",
        "Trusts the torch view-operation table (narrow, view are views; reshape/clone/indexing are not).",
    ),
    "C16": (
        "DESIGN.md §3 C16",
        "codec-pairing check (json.dumps of the whole key path / json.loads + parent walk), ordered isinstance kind-table extraction and comparison between writers and readers, in-place-load and keyed-lookup agreement analysis",
        "Static: the flat key is json.dumps(parent_keys + [key]) (hand-rolled / concatenated keys are reported), unflatten parses it with json.loads, walks all parents and stores the leaf; the writer and reader kind tables of state_dict/load_state_dict and of the checkpoint helpers agree with no shadowing; loading copies into the old tensors, returns the old objects and looks sequences / dicts up by the writer's keys (position / key); state_dict walks self.__dict__ and recurses into every container kind; leaf-less sub-dictionaries are dropped by the writer and not required by the reader. NOT decided: injectivity for all key values beyond JSON's semantics, value equality after load.",
        "Trusts JSON list encoding being injective on str/int keys and json.loads being its inverse.",
    ),
    "C17": (
        "DESIGN.md §3 C17",
        "abstract interpretation of the constructor's guard chains over the region partition of each argument (incl. NaN) + first-match evaluation of type-dispatch chains over the real MRO",
        "Static, exact for the scalar guards: the guard prefix of DistributedShampoo.__init__ and the config __post_init__ chains are interpreted (own AST interpreter, no repo code executed) on one representative per region of the partition induced by the code's constants, one- and two-at-a-time, and the accept set / exception type / stored defaults are compared with the documented domain; the three config-type dispatch chains are evaluated for every concrete config class.",
        "Assumes Python comparison semantics on int/float incl. NaN; exotic numeric types are outside the claim.",
    ),
}

NOT_APPLICABLE = {
    "C18": "compiled-vs-eager equivalence is a property of Dynamo/AOT tracing semantics outside the repository; graph-break fallback makes traceability of a helper not a necessary condition, so a decorator lint would both miss real divergences and alarm on harmless code (DESIGN.md §3 C18, §6)",
}

PENDING_REASON = "check under construction in this round: the static rules of DESIGN.md §3 for this property are not yet registered (not claimed until they are)"

ALL = [f"C{i:02d}" for i in range(1, 19)]


# rules added after the first build round (DESIGN.md §9.5 rounds 3-4, §10): appended to the level text of the property
ADDED = {
    "C12": " Round 5: matrix and estimate are never written in place; every dtype conversion inside the eigenvector routines targets the matrix's dtype. Round 6: relied-upon signature defaults of the matrix routines equal the defaults of the config fields they mirror. Round 7: the column ordering of the QR result is unconditional.",
    "C11": " Round 5: the eigen solver never writes in place into a Tensor argument.",
    "C05": " Round 5: what update_params writes in place is parameter storage and nothing else; the dims a tensor is viewed with before the split are the merge of that tensor's own size. merge_small_dims and compress_list are decided by concrete interpretation (the earlier shape-of-code rules were removed).",
    "C01": " Added: every parameter group gets its step (the group loop is left only by exhaustion) and owns objects created per group; hyperparameters are read from the group, never from self.defaults; the diagonal flag is exact (no tolerance parameter, callers pass the matrix only); inverse-root selection per tensor order is interpreted on concrete (override, orders, default-rule) cases. Round 5: the blocks are views of the parameters, the masked lists are re-derived on every selector change, and no in-place write inside the preconditioner lists reaches gradient / filtered-gradient / momentum storage. Round 6: a counted step is a taken step (no continue between the counter increment and the group step); view methods write through in the term interpreter. Round 8: a per-step hyperparameter expression reads no data attribute of self (a constructor-time flag is optimizer-wide, not the group's); every callee of the group loop with a group / state_lists formal gets the loop's own variable.",
    "C02": " Added: the step counter and grafting state are created per group (an object created before the per-group loop and stored by every iteration is reported). Round 5: change guards of the masked lists and the view rule of the blocks (shared with C04 / C05). Round 6: counted step is taken; a restored checkpoint copies into the tensors the step reads (0-dim and Tensor-subclass state included). Round 8: wiring rule extended to instance flags and to the group / state_lists argument of every helper of the group loop (C02.7).",
    "C03": " Added: the refresh schedule predicate is evaluated region-exhaustively (C03.3); the eigendecomposition returns eigh's outputs with a device move only (C03.9); the diagonal flag is exact. Round 5: inverse-root selection per order by interpretation (C03.10); the gradient lists handed to the preconditioner are read-only inputs. Round 6: the finiteness test dominates the store of the basis; relied-upon signature defaults equal the config defaults. Round 7: the ignored-dims selector is interpreted on concrete cases; the rotation of a block is guarded by the block's own stored eigenvectors; the bias-correction term is recomputed on every call.",
    "C04": " Added: the group loop of step() is left only by exhaustion; the closure call is never reachable from a gradient-blocking call; a stateful cursor (iterator consumed by next/islice) must not depend on gradient presence. Round 5: per-group objects are fresh per group; the re-mask guard of the grafting list is evaluated over None and one instance of every concrete grafting config class (hierarchy mirrored from the source). Round 7: the global gradient selector depends on a gradient only through `is None`. Round 8: C04.8 - every helper of the group loop (the masking routine included) receives the loop's own param group and state lists; per-step flags read the group only.",
    "C06": " Added: communication-dtype table walked per enum member; the state allocator forwards size and dtype; stateful cursors do not depend on gradient presence. Round 5: the assignment is a function of its arguments only (no carried state). Split and buffer layout of the DDP copy are decided by interpretation in the byte-layout tensor model.",
    "C07": " Added: communication-dtype table, allocation forwarding and mesh-dimension roles of the HSDP distributor. Round 5: merged dims of each recovered tensor block come from that block's own size; each parameter's owners are the assignment cut at its block-index range. Split and buffer layout of the HSDP copy are decided by interpretation in the byte-layout tensor model. The FSDP / HSDP blocking and recovery code is decided per copy (direct rules, recovery semantics by interpretation); only the id helper and the two step-path methods are still compared as text.",
    "C08": " Added: communication-dtype table, allocation forwarding and mesh-dimension roles of the HybridShard distributor. Split and buffer layout of the HybridShard copy are decided by interpretation in the byte-layout tensor model. Round 7: the per-block working lists hold block_info.get_tensor(<state entry>).",
    "C09": " Added: the tensors the steps work on are the tensors under self.state (strict-polarity points-to: a possibly-copying conversion is reported); per-group objects are created per group; the bias-correction cache is refreshed on every call; writer and reader defaults agree; nested module state is loaded by key / index. The param-group key is decided by concrete interpretation over parameter orders. Round 8: C09.7 - the save path keeps no memo: no attribute of self is both stored into and read on the save path, no save routine is cache-decorated.",
    "C10": " Added: a recurrence the term interpreter cannot follow is an unproved obligation (violation), with uninterpreted fall-backs for attribute reads and element views (an in-place update through a view clobbers the base term). Round 5: the solvers never write in place into a Tensor argument (local may-alias analysis over views and possibly-copying conversions).",
    "C13": " Added: the tolerance routine is simulated from each call site (caller and callee composed), so the index translation and the tolerance source are checked wherever the interface is drawn; the preconditioner config handed to the lists is the group's. Round 5: the matrix routines never write into the tensors they are handed, so the stored matrix survives a failure mid-routine. Round 6: on the way up from every raise of PreconditionerValueError no handler that could catch it replaces or swallows it. Round 7: the failure counters change only through the tolerance routine. Round 8: the index handed to the tolerance routine enumerates the whole masked lists (no filter / slice / offset between the masked lists and enumerate).",
    "C14": " Added: layout of the state mesh (one rank per group with the owner's index; replicate ranks viewed in rows of the communication-group size); the assignment spreads over as many ranks as the gather buffer has segments. Round 5: _split_local_dist_buffers of every copy interpreted on small cases against 'view i lies in its owner's segment at the owner's running offset'. The assignment, the split and the byte layout of the gather buffer of every distributor copy are interpreted on ~1000 concrete cases in a byte-layout tensor model (sv/simtensor.py) against the documented result; these functions are no longer compared as text between the copies. Round 6: the distributor dispatch picks each config class's own distributor (first matching arm over the real MRO).",
    "C15": " Added: inside the recursive helper every narrow is applied to the helper's current block (offsets are block-relative). Round 6: the slab arithmetic follows calls of shared module-level helpers. The recovery of both copies is interpreted in the byte-layout tensor model on small shapes exhaustively (and ranges beyond offset 256, non-flat shards) against the maximal-slab decomposition; the text comparison of the copies and the shape-of-code rule for the three-way case analysis were retired.",
    "C16": " Added: loading copies through detach(); the dispatch is read in if/elif or sequential-return form. Round 5: distinct attributes of an optimizer module hold distinct objects. Round 6: flatten / unflatten are interpreted on nested dictionaries (colliding int/str keys, separators, quotes, empty tensors, leaf-less sub-dictionaries) for injectivity and exact round trip; the load dispatch is evaluated for 0-dim tensors and Tensor-subclass instances; shared flags of state_dict / load_state_dict have equal defaults. Round 7: OptimizerModule.state_dict / load_state_dict are interpreted on an object graph (nested modules, dicts, mixed sequences) for an in-place round trip; no storage take-over on load.",
    "C17": " Added: the constructor is fed the config object as its own __post_init__ leaves it; builtin types are values of the guard interpreter and a TypeError of a concrete comparison counts as a raise. Round 5: the inverse-root selection never indexes past an override sequence; no config default, class attribute or function default is a mutable container shared between instances or calls. Round 6: guards that look at a value through a tensor of some dtype are evaluated with IEEE rounding to that dtype; region representatives include the floating-point neighbours of every boundary. Round 7: every boolean switch is combined with the (momentum, dampening) grid and every concrete preconditioner config class with the (frequency, start) grid.",
}
FRONT_END = " All rules analyse the canonical form produced by sv/canon.py (semantics-preserving rewrites, DESIGN.md §10), so that behaviour-preserving refactorings do not change the verdict."


def main() -> None:
    checks = []
    for pid in ALL:
        if pid not in CLAIMS:
            continue
        ref, tech, text, note = CLAIMS[pid]
        text = text + ADDED.get(pid, "") + FRONT_END
        checks.append(
            {
                "property_id": pid,
                "quick_cmd": f"cd /verif && {PY} -m sv check {pid} --tier quick --repo /repo",
                "thorough_cmd": f"cd /verif && {PY} -m sv check {pid} --tier thorough --repo /repo",
                "evidence_file": f"/verif/evidence/{pid}.json",
                "replay_cmd_template": f"cd /verif && {PY} -m sv replay {{path}}",
                "engine": "sv",
                "level_claimed": {"category": "other", "text": text, "design_ref": ref},
                "level_note": note,
                "technique": "static analysis: " + tech,
            }
        )
    na = []
    for pid in ALL:
        if pid in CLAIMS:
            continue
        na.append({"property_id": pid, "reason": NOT_APPLICABLE.get(pid, PENDING_REASON)})
    manifest = {
        "version": 1,
        "setup_cmd": f"cd /verif && {PY} -m sv setup",
        "hooks": {
            "guard": "OPTIMIZERS_VERIF",
            "enable": "no hooks: the checks are static analyses that parse /repo's working tree; nothing in /repo is instrumented",
            "baseline_off_cmd": "cd /repo && /venv/bin/python -m pytest -ra -q -p no:cacheprovider --timeout=900 --continue-on-collection-errors",
            "source_commits": [],
            "add_only": True,
        },
        "engines": [
            {
                "name": "sv",
                "path": "/verif/sv",
                "serves_properties": sorted(CLAIMS),
                "kind_free_text": "repository-specific static analyser on CPython ast: canonicalising front-end (semantics-preserving rewrites), loader/index, resolved call graph + k-CFA points-to (alias/effect), statement CFG with dominators, a closed concrete interpreter for the pure-Python utilities and a byte-layout tensor model (storage/offset/bytes/dtype/shape) for the buffer code, index-space typing, rank-variance taint, guard interpreter, dispatch tables, sibling differ, dtype-tag flow",
            }
        ],
        "checks": checks,
        "not_applicable": na,
        "notes": "All checks are static (technique family: static analysis). Every claimed check decides named structural necessary conditions of its property (DESIGN.md §3: Decided / Not decided); the numerical remainder is not claimed. Genuine defects found: see known_findings.json (fixed entries suppress nothing).",
    }
    with open(os.path.join(VERIF, "MANIFEST.json"), "w") as fh:
        json.dump(manifest, fh, indent=1)
    print("MANIFEST.json written:", len(checks), "checks,", len(na), "not_applicable")


if __name__ == "__main__":
    main()
