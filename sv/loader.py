"""E0 — loader / index.

Parses the analysed unit set of /repo (the 4 top-level py-modules of pyproject.toml plus every module of
the `distributed_shampoo*` packages except `*examples` / `*tests`), and builds:

* per module: import table, module-level constants, functions, classes;
* per class: resolved bases, C3 MRO, methods (incl. inherited lookup), decorators, dataclass fields;
* per function: qualified name, decorators, parent (class or enclosing function).

Nothing from /repo is imported or executed.
"""

from __future__ import annotations

import ast
import fnmatch
import hashlib
import os
from dataclasses import dataclass, field
from typing import Iterator


class AnalysisError(Exception):
    """The analysis cannot be carried out (vanished anchor, unsupported construct, floor not met)."""


@dataclass
class FuncInfo:
    qual: str  # "pkg.mod:Class.method" | "pkg.mod:func" | "pkg.mod:func.<inner>"
    name: str
    node: ast.AST  # FunctionDef | Lambda
    module: "ModuleInfo"
    cls: "ClassInfo | None" = None
    parent: "FuncInfo | None" = None
    decorators: list[str] = field(default_factory=list)
    inner: dict[str, "FuncInfo"] = field(default_factory=dict)

    @property
    def is_static(self) -> bool:
        return "staticmethod" in self.decorators

    @property
    def is_property(self) -> bool:
        return "property" in self.decorators

    @property
    def is_abstract(self) -> bool:
        return any(d.endswith("abstractmethod") for d in self.decorators)

    @property
    def params(self) -> list[str]:
        a = self.node.args
        return [x.arg for x in a.posonlyargs + a.args] + [x.arg for x in a.kwonlyargs]

    @property
    def relpath(self) -> str:
        return self.module.relpath

    def loc(self, node: ast.AST | None = None) -> str:
        n = node if node is not None else self.node
        return f"{self.module.relpath}:{getattr(n, 'lineno', '?')}"

    def __hash__(self) -> int:
        return hash(self.qual)

    def __eq__(self, other: object) -> bool:
        return isinstance(other, FuncInfo) and other.qual == self.qual


@dataclass
class ClassInfo:
    qual: str  # "pkg.mod:Class"
    name: str
    node: ast.ClassDef
    module: "ModuleInfo"
    base_exprs: list[str] = field(default_factory=list)  # dotted (import-resolved) base names
    bases: list["ClassInfo"] = field(default_factory=list)  # repo-internal bases only
    methods: dict[str, FuncInfo] = field(default_factory=dict)
    decorators: list[str] = field(default_factory=list)
    dataclass_kwargs: dict[str, object] = field(default_factory=dict)
    fields: list[tuple[str, ast.expr | None, ast.expr | None]] = field(default_factory=list)  # (name, annotation, default)
    _mro: list["ClassInfo"] | None = None

    @property
    def is_dataclass(self) -> bool:
        return any(d.split(".")[-1] == "dataclass" for d in self.decorators)

    def __hash__(self) -> int:
        return hash(self.qual)

    def __eq__(self, other: object) -> bool:
        return isinstance(other, ClassInfo) and other.qual == self.qual


@dataclass
class ModuleInfo:
    name: str  # dotted
    relpath: str
    path: str
    source: str
    tree: ast.Module
    imports: dict[str, str] = field(default_factory=dict)  # local name -> dotted target ("torch.distributed", "pkg.mod.Name")
    constants: dict[str, object] = field(default_factory=dict)
    functions: dict[str, FuncInfo] = field(default_factory=dict)
    classes: dict[str, ClassInfo] = field(default_factory=dict)
    assigns: dict[str, ast.expr] = field(default_factory=dict)  # module-level `NAME = expr`


def _dotted(expr: ast.AST) -> str | None:
    parts = []
    while isinstance(expr, ast.Attribute):
        parts.append(expr.attr)
        expr = expr.value
    if isinstance(expr, ast.Name):
        parts.append(expr.id)
        return ".".join(reversed(parts))
    return None


class Repo:
    def __init__(self, root: str, canonical: bool = True) -> None:
        self.root = os.path.abspath(root)
        self.modules: dict[str, ModuleInfo] = {}
        self.classes: dict[str, ClassInfo] = {}
        self.funcs: dict[str, FuncInfo] = {}
        self._node_owner: dict[int, FuncInfo] = {}
        self.canon_log: dict = {}
        self._discover()
        if canonical:
            from . import canon

            trees = {name: m.tree for name, m in self.modules.items()}
            try:
                self.canon_log = canon.canonicalize(trees, canon.load_known())
            except RecursionError as e:  # pragma: no cover
                raise AnalysisError(f"canonicalisation failed: {e}") from e
            for name, m in self.modules.items():
                m.tree = trees[name]
        for m in self.modules.values():
            self._index_module(m)
        for c in self.classes.values():
            self._resolve_bases(c)

    # ------------------------------------------------------------------ discovery
    def _discover(self) -> None:
        py_modules, include, exclude = self._read_pyproject()
        paths: list[tuple[str, str]] = []
        for m in py_modules:
            p = os.path.join(self.root, m + ".py")
            if not os.path.isfile(p):
                raise AnalysisError(f"py-module {m!r} listed in pyproject.toml not found")
            paths.append((m, p))
        for dirpath, dirnames, filenames in os.walk(self.root):
            dirnames[:] = sorted(d for d in dirnames if not d.startswith(".") and d != "__pycache__")
            rel = os.path.relpath(dirpath, self.root)
            if rel == ".":
                continue
            pkg = rel.replace(os.sep, ".")
            if "__init__.py" not in filenames:
                dirnames[:] = []
                continue
            if not any(fnmatch.fnmatchcase(pkg, pat) for pat in include) or any(
                fnmatch.fnmatchcase(pkg, pat) for pat in exclude
            ):
                if not any(fnmatch.fnmatchcase(pkg, pat) for pat in include):
                    dirnames[:] = []
                else:
                    dirnames[:] = []
                continue
            for fn in sorted(filenames):
                if fn.endswith(".py"):
                    mod = pkg if fn == "__init__.py" else f"{pkg}.{fn[:-3]}"
                    paths.append((mod, os.path.join(dirpath, fn)))
        if len(paths) < 10:
            raise AnalysisError(f"only {len(paths)} modules discovered under {self.root}; expected the optimizers repository")
        for mod, p in paths:
            with open(p, encoding="utf-8") as fh:
                src = fh.read()
            try:
                tree = ast.parse(src, filename=p)
            except SyntaxError as e:  # the tree must compile for any verdict to make sense
                raise AnalysisError(f"syntax error in {p}: {e}") from e
            self.modules[mod] = ModuleInfo(mod, os.path.relpath(p, self.root), p, src, tree)

    def _read_pyproject(self) -> tuple[list[str], list[str], list[str]]:
        p = os.path.join(self.root, "pyproject.toml")
        try:
            import tomllib

            with open(p, "rb") as fh:
                data = tomllib.load(fh)
            st = data.get("tool", {}).get("setuptools", {})
            find = st.get("packages", {}).get("find", {})
            return list(st.get("py-modules", [])), list(find.get("include", ["*"])), list(find.get("exclude", []))
        except FileNotFoundError as e:
            raise AnalysisError(f"{p} not found") from e

    def digest(self) -> str:
        h = hashlib.sha256()
        for name in sorted(self.modules):
            h.update(name.encode())
            h.update(self.modules[name].source.encode())
        return h.hexdigest()

    # ------------------------------------------------------------------ indexing
    def _index_module(self, m: ModuleInfo) -> None:
        for st in m.tree.body:
            if isinstance(st, ast.Import):
                for a in st.names:
                    if a.asname:
                        m.imports[a.asname] = a.name
                    else:
                        m.imports[a.name.split(".")[0]] = a.name.split(".")[0]
            elif isinstance(st, ast.ImportFrom):
                base = st.module or ""
                if st.level:
                    pkg = m.name.split(".")
                    pkg = pkg[: len(pkg) - st.level + (1 if m.relpath.endswith("__init__.py") else 0)]
                    base = ".".join(pkg + ([base] if base else []))
                for a in st.names:
                    m.imports[a.asname or a.name] = f"{base}.{a.name}"
            elif isinstance(st, (ast.Assign, ast.AnnAssign)):
                tgt = st.targets[0] if isinstance(st, ast.Assign) else st.target
                val = st.value
                if isinstance(tgt, ast.Name) and val is not None:
                    m.assigns[tgt.id] = val
                    if isinstance(val, ast.Constant):
                        m.constants[tgt.id] = val.value
            elif isinstance(st, (ast.FunctionDef, ast.AsyncFunctionDef)):
                self._index_func(m, st, None, None)
            elif isinstance(st, ast.ClassDef):
                self._index_class(m, st)

    def _decorators(self, m: ModuleInfo, node: ast.AST) -> tuple[list[str], dict[str, object]]:
        out, kw = [], {}
        for d in getattr(node, "decorator_list", []):
            call = d
            if isinstance(d, ast.Call):
                call = d.func
                if (_dotted(call) or "").split(".")[-1] == "dataclass":
                    for k in d.keywords:
                        if isinstance(k.value, ast.Constant):
                            kw[k.arg] = k.value.value
            name = _dotted(call)
            if name:
                out.append(self.resolve_dotted(m, name))
        return out, kw

    def _index_func(self, m: ModuleInfo, node: ast.AST, cls: ClassInfo | None, parent: FuncInfo | None) -> FuncInfo:
        if parent is not None:
            qual = f"{parent.qual}.<{node.name}>"
        elif cls is not None:
            qual = f"{cls.qual}.{node.name}"
        else:
            qual = f"{m.name}:{node.name}"
        decos, _ = self._decorators(m, node)
        fi = FuncInfo(qual, node.name, node, m, cls, parent, decos)
        self.funcs[qual] = fi
        if parent is not None:
            parent.inner[node.name] = fi
        elif cls is not None:
            cls.methods[node.name] = fi
        else:
            m.functions[node.name] = fi
        for sub in ast.walk(node):
            self._node_owner.setdefault(id(sub), fi)
        # nested defs (one level is all the repo uses, but recurse anyway)
        for sub in self._direct_nested_defs(node):
            inner = self._index_func(m, sub, cls, fi)
            for s2 in ast.walk(sub):
                self._node_owner[id(s2)] = inner
        return fi

    @staticmethod
    def _direct_nested_defs(node: ast.AST) -> Iterator[ast.AST]:
        stack = list(ast.iter_child_nodes(node))
        while stack:
            n = stack.pop()
            if isinstance(n, (ast.FunctionDef, ast.AsyncFunctionDef)):
                yield n
                continue
            if isinstance(n, (ast.ClassDef, ast.Lambda)):
                continue
            stack.extend(ast.iter_child_nodes(n))

    def _index_class(self, m: ModuleInfo, node: ast.ClassDef) -> None:
        qual = f"{m.name}:{node.name}"
        decos, dkw = self._decorators(m, node)
        ci = ClassInfo(qual, node.name, node, m, decorators=decos, dataclass_kwargs=dkw)
        for b in node.bases:
            bb = b.value if isinstance(b, ast.Subscript) else b  # Generic[...] / Base[T]
            name = _dotted(bb)
            if name:
                ci.base_exprs.append(self.resolve_dotted(m, name))
        self.classes[qual] = ci
        m.classes[node.name] = ci
        for st in node.body:
            if isinstance(st, (ast.FunctionDef, ast.AsyncFunctionDef)):
                self._index_func(m, st, ci, None)
            elif isinstance(st, ast.AnnAssign) and isinstance(st.target, ast.Name):
                ci.fields.append((st.target.id, st.annotation, st.value))

    def _resolve_bases(self, c: ClassInfo) -> None:
        for b in c.base_exprs:
            ci = self.class_by_dotted(b)
            if ci is not None:
                c.bases.append(ci)

    # ------------------------------------------------------------------ name resolution
    def resolve_dotted(self, m: ModuleInfo, dotted: str) -> str:
        """Resolve the first component of a dotted name through the module's import table."""
        head, _, rest = dotted.partition(".")
        if head in m.imports:
            head = m.imports[head]
        elif head in m.classes or head in m.functions or head in m.assigns:
            head = f"{m.name}.{head}"
        return head + ("." + rest if rest else "")

    def class_by_dotted(self, dotted: str) -> ClassInfo | None:
        mod, _, name = dotted.rpartition(".")
        mi = self.modules.get(mod)
        if mi is None:
            return None
        if name in mi.classes:
            return mi.classes[name]
        if name in mi.imports:  # re-export
            return self.class_by_dotted(mi.imports[name])
        return None

    def func_by_dotted(self, dotted: str) -> FuncInfo | None:
        mod, _, name = dotted.rpartition(".")
        mi = self.modules.get(mod)
        if mi is None:
            # maybe Class.method
            mod2, _, cname = mod.rpartition(".")
            mi2 = self.modules.get(mod2)
            if mi2 and cname in mi2.classes:
                return self.lookup_method(mi2.classes[cname], name)
            return None
        if name in mi.functions:
            return mi.functions[name]
        if name in mi.imports:
            return self.func_by_dotted(mi.imports[name])
        return None

    def const_by_dotted(self, dotted: str) -> tuple[bool, object]:
        mod, _, name = dotted.rpartition(".")
        mi = self.modules.get(mod)
        if mi is None:
            return False, None
        if name in mi.constants:
            return True, mi.constants[name]
        if name in mi.imports:
            return self.const_by_dotted(mi.imports[name])
        return False, None

    def module_assign(self, dotted: str) -> tuple[ModuleInfo, ast.expr] | None:
        mod, _, name = dotted.rpartition(".")
        mi = self.modules.get(mod)
        if mi is None:
            return None
        if name in mi.assigns:
            return mi, mi.assigns[name]
        if name in mi.imports:
            return self.module_assign(mi.imports[name])
        return None

    def dotted_of(self, m: ModuleInfo, expr: ast.AST) -> str | None:
        d = _dotted(expr)
        return self.resolve_dotted(m, d) if d else None

    def const_str(self, m: ModuleInfo, expr: ast.AST) -> str | None:
        """String value of a constant expression (literal or imported module-level string constant)."""
        if isinstance(expr, ast.Constant) and isinstance(expr.value, str):
            return expr.value
        d = self.dotted_of(m, expr)
        if d:
            ok, v = self.const_by_dotted(d)
            if ok and isinstance(v, str):
                return v
        return None

    # ------------------------------------------------------------------ classes
    def mro(self, c: ClassInfo) -> list[ClassInfo]:
        if c._mro is None:
            seqs = [self.mro(b)[:] for b in c.bases] + [list(c.bases)]
            res = [c]
            while True:
                seqs = [s for s in seqs if s]
                if not seqs:
                    break
                for s in seqs:
                    cand = s[0]
                    if not any(cand in t[1:] for t in seqs):
                        break
                else:
                    raise AnalysisError(f"inconsistent MRO for {c.qual}")
                res.append(cand)
                for s in seqs:
                    if s and s[0] == cand:
                        del s[0]
            c._mro = res
        return c._mro

    def meth(self, c: ClassInfo, name: str) -> FuncInfo:
        """The method `name` as class `c` sees it (own or inherited); a vanished anchor is an analysis error."""
        fi = self.lookup_method(c, name)
        if fi is None:
            fi = self._moved(name)
        if fi is None:
            raise AnalysisError(f"anchor {c.qual}.{name} not found (own or inherited)")
        return fi

    def lookup_method(self, c: ClassInfo, name: str, after: ClassInfo | None = None) -> FuncInfo | None:
        mro = self.mro(c)
        if after is not None:
            if after not in mro:
                return None
            mro = mro[mro.index(after) + 1 :]
        for k in mro:
            if name in k.methods:
                return k.methods[name]
        return None

    def is_subclass(self, c: ClassInfo, base: ClassInfo) -> bool:
        return base in self.mro(c)

    def subclasses(self, base: ClassInfo, strict: bool = False) -> list[ClassInfo]:
        return [c for c in self.classes.values() if base in self.mro(c) and not (strict and c == base)]

    def is_abstract_class(self, c: ClassInfo) -> bool:
        abstract: set[str] = set()
        for k in reversed(self.mro(c)):
            for n, f in k.methods.items():
                if f.is_abstract:
                    abstract.add(n)
                else:
                    abstract.discard(n)
            # AbstractDataclass idiom: @dataclass (init=True) synthesises a concrete __init__;
            # @dataclass(init=False) keeps the abstract __init__ of the base.
            if k.is_dataclass and k.dataclass_kwargs.get("init") is not False:
                abstract.discard("__init__")
        return bool(abstract)

    def concrete_subclasses(self, base: ClassInfo) -> list[ClassInfo]:
        return [c for c in self.subclasses(base) if not self.is_abstract_class(c)]

    def all_fields(self, c: ClassInfo) -> list[tuple[str, ast.expr | None, ast.expr | None, ClassInfo]]:
        out: dict[str, tuple] = {}
        for k in reversed(self.mro(c)):
            for n, ann, dflt in k.fields:
                out[n] = (n, ann, dflt, k)
        return list(out.values())

    # ------------------------------------------------------------------ anchors
    def _moved(self, simple_name: str) -> FuncInfo | None:
        """A function that is not where the tables expect it but exists exactly once under that name elsewhere (moved between
        module level and a class, to a base class, or to another module): the same function, as far as the rules care."""
        cands = [f for q, f in self.funcs.items() if f.name == simple_name and f.parent is None]
        return cands[0] if len(cands) == 1 else None

    def func(self, qual: str) -> FuncInfo:
        fi = self.funcs.get(qual)
        if fi is None and ".<" not in qual:
            fi = self._moved(qual.rsplit(":", 1)[1].split(".")[-1])
        if fi is None:
            raise AnalysisError(f"anchor function {qual!r} not found in the current tree")
        return fi

    def cls(self, qual: str) -> ClassInfo:
        ci = self.classes.get(qual)
        if ci is None:
            raise AnalysisError(f"anchor class {qual!r} not found in the current tree")
        return ci

    def method(self, cls_qual: str, name: str) -> FuncInfo:
        fi = self.lookup_method(self.cls(cls_qual), name)
        if fi is None:
            fi = self._moved(name)
        if fi is None:
            raise AnalysisError(f"anchor method {cls_qual}.{name} not found in the current tree")
        return fi

    def owner(self, node: ast.AST) -> FuncInfo | None:
        return self._node_owner.get(id(node))

    def stats(self) -> dict[str, int]:
        return {"modules": len(self.modules), "classes": len(self.classes), "functions": len(self.funcs)}


def unparse(node: ast.AST) -> str:
    try:
        return ast.unparse(node)
    except Exception:  # pragma: no cover
        return f"<{type(node).__name__}>"
