"""Mechanical, behaviour-preserving whole-repository refactorings (metamorphic inputs for the checker's self-test).

library: sv.mech.rewrite_tree(transform, src_root, dst_root) re-emits every analysed module of src_root, transformed, under dst_root
cli:     python -m sv.mech <transform> <out.diff> [--only <module-substring>]
transforms:
  rename-locals     every local variable of every function gets a new name
  swap-branches     `if C: A else: B` -> `if not C: B else: A` (also conditional expressions)
  de-morgan         boolean tests `a and b` -> `not (not a or not b)`
  guard-to-else     `if C: raise ...` ; REST  ->  `if C: raise ... else: REST`
  lambda-to-def     lambdas passed as call arguments become nested defs
  comp-to-loop      `x = [E for T in IT if c]` / `{K: V for ...}` become explicit loops over a fresh accumulator
  name-subexprs     repeated pure attribute/subscript paths inside one statement are bound to a fresh local first
The output is a unified diff against /repo (files are re-emitted by ast.unparse, so comments/formatting vanish: the diff is
for analysis and for running the test-suite, not for reading).
"""
import ast, copy, difflib, os, sys

from .loader import Repo
from . import canon


def functions(tree):
    for n in ast.walk(tree):
        if isinstance(n, (ast.FunctionDef, ast.AsyncFunctionDef)):
            yield n


# ------------------------------------------------------------------ rename-locals
class ScopedRename(ast.NodeTransformer):
    def __init__(self, mapping):
        self.mapping = dict(mapping)

    def visit_Name(self, node):
        if node.id in self.mapping:
            node.id = self.mapping[node.id]
        return node

    def _nested(self, node, rebound):
        saved = self.mapping
        self.mapping = {k: v for k, v in saved.items() if k not in rebound}
        self.generic_visit(node)
        self.mapping = saved
        return node

    def visit_FunctionDef(self, node):
        rebound = set(canon._params(node)) | set(canon._bound_names(node))
        # decorators / defaults are evaluated in the enclosing scope
        node.decorator_list = [self.visit(d) for d in node.decorator_list]
        node.args.defaults = [self.visit(d) for d in node.args.defaults]
        node.args.kw_defaults = [self.visit(d) if d is not None else None for d in node.args.kw_defaults]
        saved = self.mapping
        self.mapping = {k: v for k, v in saved.items() if k not in rebound}
        node.body = [self.visit(s) for s in node.body]
        self.mapping = saved
        return node

    def visit_Lambda(self, node):
        return self._nested(node, set(canon._params(node)))

    def _comp(self, node):
        own = {x.id for g in node.generators for x in ast.walk(g.target) if isinstance(x, ast.Name)}
        # the first iterable is evaluated in the enclosing scope
        first = node.generators[0].iter
        node.generators[0].iter = self.visit(first)
        saved = self.mapping
        self.mapping = {k: v for k, v in saved.items() if k not in own}
        for fld in ("elt", "key", "value"):
            if hasattr(node, fld):
                setattr(node, fld, self.visit(getattr(node, fld)))
        for i, g in enumerate(node.generators):
            g.target = self.visit(g.target)
            if i > 0:
                g.iter = self.visit(g.iter)
            g.ifs = [self.visit(c) for c in g.ifs]
        self.mapping = saved
        return node

    visit_ListComp = visit_SetComp = visit_DictComp = visit_GeneratorExp = _comp

    def visit_ExceptHandler(self, node):
        if node.name in self.mapping:
            node.name = self.mapping[node.name]
        self.generic_visit(node)
        return node

    def visit_keyword(self, node):
        node.value = self.visit(node.value)
        return node


def rename_locals(tree):
    n = 0
    for fn in functions(tree):
        if any(isinstance(x, (ast.Global, ast.Nonlocal, ast.ClassDef, ast.Import, ast.ImportFrom)) for x in ast.walk(fn)):
            continue
        if any(isinstance(x, ast.Call) and isinstance(x.func, ast.Name) and x.func.id in ("locals", "vars", "eval", "exec") for x in ast.walk(fn)):
            continue
        bound = canon._bound_names(fn)
        params = set(canon._params(fn))
        nested_defs = {x.name for x in ast.walk(fn) if x is not fn and isinstance(x, (ast.FunctionDef, ast.AsyncFunctionDef))}
        used_everywhere = {x.id for x in ast.walk(fn) if isinstance(x, ast.Name)}
        mapping = {}
        for name in bound:
            if name in params or name in nested_defs or name.startswith("__"):
                continue
            if canon._printed_by_fstring(fn, name):
                continue
            # a nonlocal-free nested function that rebinds the name has its own variable: ScopedRename handles it
            new = f"{name}_rn"
            if new in used_everywhere or new in params:
                continue
            mapping[name] = new
        if not mapping:
            continue
        r = ScopedRename(mapping)
        fn.body = [r.visit(s) for s in fn.body]
        n += len(mapping)
    return n


# ------------------------------------------------------------------ swap-branches / de-morgan / guard-to-else
def _not(e):
    return ast.UnaryOp(op=ast.Not(), operand=e)


class SwapBranches(ast.NodeTransformer):
    n = 0

    def visit_If(self, node):
        self.generic_visit(node)
        if node.orelse and not (len(node.orelse) == 1 and isinstance(node.orelse[0], ast.If)) and not getattr(node, "_elif", False):
            node.test, node.body, node.orelse = _not(node.test), node.orelse, node.body
            SwapBranches.n += 1
        return node

    def visit_IfExp(self, node):
        self.generic_visit(node)
        node.test, node.body, node.orelse = _not(node.test), node.orelse, node.body
        SwapBranches.n += 1
        return node


def mark_elifs(tree):
    for n in ast.walk(tree):
        if isinstance(n, ast.If) and len(n.orelse) == 1 and isinstance(n.orelse[0], ast.If):
            n.orelse[0]._elif = True


class DeMorgan(ast.NodeTransformer):
    n = 0

    def _t(self, test):
        if isinstance(test, ast.BoolOp):
            op = ast.Or() if isinstance(test.op, ast.And) else ast.And()
            DeMorgan.n += 1
            return _not(ast.BoolOp(op=op, values=[_not(v) for v in test.values]))
        return test

    def visit_If(self, node):
        self.generic_visit(node)
        node.test = self._t(node.test)
        return node

    def visit_IfExp(self, node):
        self.generic_visit(node)
        node.test = self._t(node.test)
        return node

    def visit_While(self, node):
        self.generic_visit(node)
        node.test = self._t(node.test)
        return node


def guard_to_else(tree):
    n = 0
    for owner in ast.walk(tree):
        for fld in ("body", "orelse", "finalbody"):
            block = getattr(owner, fld, None)
            if not (isinstance(block, list) and block and isinstance(block[0], ast.stmt)):
                continue
            if isinstance(owner, ast.If) and fld == "orelse" and len(block) == 1 and isinstance(block[0], ast.If):
                continue
            for i, st in enumerate(block[:-1]):
                if isinstance(st, ast.If) and not st.orelse and len(st.body) == 1 and isinstance(st.body[0], ast.Raise) and not getattr(st, "_elif", False):
                    rest = block[i + 1 :]
                    if any(isinstance(x, (ast.FunctionDef, ast.ClassDef)) for x in rest):
                        continue
                    st.orelse = rest
                    del block[i + 1 :]
                    n += 1
                    break
    return n


# ------------------------------------------------------------------ lambda-to-def
def lambda_to_def(tree):
    n = 0
    for fn in list(functions(tree)):
        for owner in list(ast.walk(fn)):
            for fld in ("body", "orelse", "finalbody"):
                block = getattr(owner, fld, None)
                if not (isinstance(block, list) and block and isinstance(block[0], ast.stmt)):
                    continue
                i = 0
                while i < len(block):
                    st = block[i]
                    if not isinstance(st, (ast.Assign, ast.AnnAssign, ast.Expr, ast.Return, ast.AugAssign)):
                        i += 1
                        continue
                    par = {}
                    for p in ast.walk(st):
                        for c in ast.iter_child_nodes(p):
                            par[id(c)] = p
                    lam = None
                    for x in ast.walk(st):
                        if isinstance(x, ast.Lambda) and isinstance(par.get(id(x)), ast.Call) and x in par[id(x)].args and not x.args.defaults and not x.args.kwonlyargs and not x.args.vararg and not x.args.kwarg:
                            # not inside a comprehension / other lambda (would capture their variables)
                            q, bad = x, False
                            while id(q) in par:
                                q = par[id(q)]
                                if isinstance(q, (ast.Lambda, ast.ListComp, ast.SetComp, ast.DictComp, ast.GeneratorExp)):
                                    bad = True
                            if not bad:
                                lam = x
                                break
                    if lam is None:
                        i += 1
                        continue
                    name = f"_hoisted_fn_{n}"
                    d = ast.FunctionDef(name=name, args=copy.deepcopy(lam.args), body=[ast.Return(value=lam.body)], decorator_list=[], returns=None, type_comment=None, type_params=[])
                    call = par[id(lam)]
                    call.args = [ast.Name(id=name, ctx=ast.Load()) if a is lam else a for a in call.args]
                    block.insert(i, d)
                    n += 1
                    i += 2
    return n


# ------------------------------------------------------------------ comp-to-loop
def comp_to_loop(tree):
    n = 0
    for fn in list(functions(tree)):
        for owner in list(ast.walk(fn)):
            for fld in ("body", "orelse", "finalbody"):
                block = getattr(owner, fld, None)
                if not (isinstance(block, list) and block and isinstance(block[0], ast.stmt)):
                    continue
                i = 0
                while i < len(block):
                    st = block[i]
                    v = getattr(st, "value", None) if isinstance(st, (ast.Assign, ast.AnnAssign)) else None
                    if not (isinstance(v, (ast.ListComp, ast.DictComp)) and len(v.generators) == 1 and not v.generators[0].is_async):
                        i += 1
                        continue
                    g = v.generators[0]
                    tnames = {x.id for x in ast.walk(g.target) if isinstance(x, ast.Name)}
                    # the loop variables would leak into the function scope: they must not exist there
                    others = {x.id for x in ast.walk(fn) if isinstance(x, ast.Name)} - {x.id for x in ast.walk(v) if isinstance(x, ast.Name)}
                    if tnames & (others | set(canon._params(fn))):
                        i += 1
                        continue
                    # no lambda in the element capturing the loop variable late
                    if any(isinstance(x, ast.Lambda) for x in ast.walk(v)):
                        i += 1
                        continue
                    acc = f"_acc_{n}"
                    if isinstance(v, ast.DictComp):
                        init = ast.Dict(keys=[], values=[])
                        store = ast.Assign(targets=[ast.Subscript(value=ast.Name(id=acc, ctx=ast.Load()), slice=v.key, ctx=ast.Store())], value=v.value, lineno=0)
                    else:
                        init = ast.List(elts=[], ctx=ast.Load())
                        store = ast.Expr(value=ast.Call(func=ast.Attribute(value=ast.Name(id=acc, ctx=ast.Load()), attr="append", ctx=ast.Load()), args=[v.elt], keywords=[]))
                    body = [store]
                    for c in reversed(g.ifs):
                        body = [ast.If(test=c, body=body, orelse=[])]
                    loop = ast.For(target=g.target, iter=g.iter, body=body, orelse=[], type_comment=None)
                    for x in ast.walk(loop.target):
                        if hasattr(x, "ctx"):
                            x.ctx = ast.Store()
                    st.value = ast.Name(id=acc, ctx=ast.Load())
                    block[i:i] = [ast.Assign(targets=[ast.Name(id=acc, ctx=ast.Store())], value=init, lineno=0), loop]
                    n += 1
                    i += 3
    return n


# ------------------------------------------------------------------ name-subexprs
def name_subexprs(tree):
    """`f(a.b.c, a.b.c.d)` -> `_sub_k = a.b.c` ; `f(_sub_k, _sub_k.d)` for attribute/subscript paths (depth >= 2) that occur at
    least twice in one simple statement and whose evaluation cannot be affected by the statement itself."""
    n = 0
    for fn in list(functions(tree)):
        for owner in list(ast.walk(fn)):
            for fld in ("body", "orelse", "finalbody"):
                block = getattr(owner, fld, None)
                if not (isinstance(block, list) and block and isinstance(block[0], ast.stmt)):
                    continue
                i = 0
                while i < len(block):
                    st = block[i]
                    if not isinstance(st, (ast.Assign, ast.AnnAssign, ast.Expr, ast.Return)) or getattr(st, "value", None) is None:
                        i += 1
                        continue
                    if any(isinstance(x, (ast.Lambda, ast.ListComp, ast.SetComp, ast.DictComp, ast.GeneratorExp, ast.IfExp, ast.BoolOp, ast.NamedExpr, ast.JoinedStr)) for x in ast.walk(st.value)):
                        i += 1
                        continue
                    counts = {}
                    for x in ast.walk(st.value):
                        if isinstance(x, (ast.Attribute, ast.Subscript)) and isinstance(x.ctx, ast.Load) and canon._is_pure(x) and isinstance(x.value, (ast.Attribute, ast.Subscript)):
                            counts.setdefault(ast.unparse(x), []).append(x)
                    # the first call evaluated must come after all occurrences?  keep it exact: only when the path is an
                    # argument of the outermost call and no other call precedes an occurrence
                    cands = [(t, xs) for t, xs in counts.items() if len(xs) >= 2]
                    if not cands:
                        i += 1
                        continue
                    text, xs = max(cands, key=lambda c: len(c[0]))
                    calls = [c for c in ast.walk(st.value) if isinstance(c, ast.Call)]
                    par = {}
                    for p in ast.walk(st.value):
                        for c in ast.iter_child_nodes(p):
                            par[id(c)] = p

                    def anc(a, x):
                        while id(x) in par:
                            x = par[id(x)]
                            if x is a:
                                return True
                        return False

                    if any(not anc(c, x) and (c.lineno, c.col_offset) < (x.lineno, x.col_offset) for c in calls for x in xs):
                        i += 1
                        continue
                    name = f"_sub_{n}"

                    class R(ast.NodeTransformer):
                        def visit(self, node):
                            if any(node is x for x in xs):
                                return ast.Name(id=name, ctx=ast.Load())
                            return super().visit(node)

                    first = copy.deepcopy(xs[0])
                    block[i] = R().visit(st)
                    block.insert(i, ast.Assign(targets=[ast.Name(id=name, ctx=ast.Store())], value=first, lineno=0))
                    n += 1
                    i += 2
    return n


# ------------------------------------------------------------------ rename-binders (comprehension variables, lambda parameters)
def rename_binders(tree):
    n = 0
    for fn in list(functions(tree)):
        _, scopes = canon.ordered_binders(fn)
        # innermost first so that an outer renaming does not disturb the inner node's own names
        for node, names in reversed(scopes):
            if not names or len(set(names)) != len(names):
                continue
            inner = {x.id for x in ast.walk(node) if isinstance(x, ast.Name)}
            mapping = {a: f"{a}_b" for a in names if f"{a}_b" not in inner}
            if isinstance(node, ast.Lambda) and (node.args.kwonlyargs or node.args.vararg or node.args.kwarg):
                continue
            canon._rename_scope(node, mapping)
            n += len(mapping)
    return n


# ------------------------------------------------------------------ extract-expr / extract-tail
_SKIP_IN_EXTRACT = (ast.Lambda, ast.ListComp, ast.SetComp, ast.DictComp, ast.GeneratorExp, ast.Yield, ast.YieldFrom, ast.Await, ast.NamedExpr, ast.Starred, ast.JoinedStr)


def _module_globals(tree):
    out = set()
    for st in tree.body:
        for x in ast.walk(st) if not isinstance(st, (ast.FunctionDef, ast.ClassDef)) else [st]:
            if isinstance(x, ast.Name) and isinstance(x.ctx, ast.Store):
                out.add(x.id)
            elif isinstance(x, (ast.FunctionDef, ast.ClassDef)):
                out.add(x.name)
            elif isinstance(x, ast.alias):
                out.add((x.asname or x.name).split(".")[0])
    return out


def _method_functions(tree):
    """(function node, owner) for module-level functions and direct methods (nested functions are left alone: their free
    variables may belong to the enclosing function)."""
    for st in tree.body:
        if isinstance(st, ast.FunctionDef):
            yield st
        elif isinstance(st, ast.ClassDef):
            for s2 in st.body:
                if isinstance(s2, ast.FunctionDef):
                    yield s2


def extract_expr(tree):
    """The largest keyword-argument / right-hand-side expression of each function moves to a module-level helper taking its
    free local names as parameters."""
    n = 0
    new_defs = []
    for fn in list(_method_functions(tree)):
        local_names = set(canon._bound_names(fn)) | set(canon._params(fn))
        best = None
        for x in canon._own_nodes(fn):
            cands = []
            if isinstance(x, ast.Call):
                cands = [k.value for k in x.keywords if k.arg is not None] + list(x.args)
            for e in cands:
                if not isinstance(e, (ast.BinOp, ast.IfExp, ast.Compare, ast.BoolOp, ast.Subscript)):
                    continue
                if any(isinstance(y, _SKIP_IN_EXTRACT) for y in ast.walk(e)):
                    continue
                if any(isinstance(y, ast.Name) and y.id.startswith("__") for y in ast.walk(e)) or any(isinstance(y, ast.Attribute) and y.attr.startswith("__") and not y.attr.endswith("__") for y in ast.walk(e)):
                    continue
                if any(isinstance(y, ast.Call) and isinstance(y.func, ast.Name) and y.func.id == "super" for y in ast.walk(e)):
                    continue
                # not inside a lambda / comprehension of the function (their variables would be free)
                size = sum(1 for _ in ast.walk(e))
                if size >= 6 and (best is None or size > best[0]):
                    best = (size, x, e)
        if best is None:
            continue
        _, call, e = best
        # reject when the expression sits inside a comprehension / lambda (checked via own scope names)
        inner_scopes = [s for s in ast.walk(fn) if isinstance(s, (ast.Lambda, ast.ListComp, ast.SetComp, ast.DictComp, ast.GeneratorExp))]
        if any(any(y is e for y in ast.walk(s)) for s in inner_scopes):
            continue
        free = sorted({y.id for y in ast.walk(e) if isinstance(y, ast.Name) and y.id in local_names})
        name = f"_extracted_expr_{n}"
        d = ast.FunctionDef(name=name, args=ast.arguments(posonlyargs=[], args=[ast.arg(arg=a) for a in free], kwonlyargs=[], kw_defaults=[], defaults=[]), body=[ast.Return(value=copy.deepcopy(e))], decorator_list=[], returns=None, type_comment=None, type_params=[])
        repl = ast.Call(func=ast.Name(id=name, ctx=ast.Load()), args=[ast.Name(id=a, ctx=ast.Load()) for a in free], keywords=[])
        call.args = [repl if a is e else a for a in call.args]
        for k in call.keywords:
            if k.value is e:
                k.value = repl
        new_defs.append(d)
        n += 1
    tree.body.extend(new_defs)
    return n


def extract_tail(tree):
    """The second half of each sufficiently long function body moves to a module-level helper: `return _tail_k(<locals>)`."""
    n = 0
    new_defs = []
    for fn in list(_method_functions(tree)):
        body = fn.body
        doc = 1 if body and isinstance(body[0], ast.Expr) and isinstance(body[0].value, ast.Constant) and isinstance(body[0].value.value, str) else 0
        stmts = body[doc:]
        if len(stmts) < 4 or fn.name.startswith("__") and fn.name != "__init__":
            continue
        if any(isinstance(x, (ast.Yield, ast.YieldFrom, ast.Await, ast.Global, ast.Nonlocal)) for x in ast.walk(fn)):
            continue
        cut = len(stmts) // 2
        head, tail = stmts[:cut], stmts[cut:]
        holder = ast.Module(body=tail, type_ignores=[])
        if any(isinstance(x, ast.Call) and isinstance(x.func, ast.Name) and x.func.id in ("super", "locals", "vars") for x in ast.walk(holder)):
            continue
        if any(isinstance(x, ast.Name) and x.id.startswith("__") and not x.id.endswith("__") for x in ast.walk(holder)) or any(isinstance(x, ast.Attribute) and x.attr.startswith("__") and not x.attr.endswith("__") for x in ast.walk(holder)):
            continue
        # locals defined in the head (or parameters) that the tail mentions anywhere are passed in
        head_holder = ast.FunctionDef(name="_", args=fn.args, body=head or [ast.Pass()], decorator_list=[], returns=None, type_comment=None, type_params=[])
        avail = set(canon._bound_names(head_holder)) | set(canon._params(fn))
        used = {x.id for x in ast.walk(holder) if isinstance(x, ast.Name)}
        free = [a for a in canon._params(fn) if a in used] + sorted((avail - set(canon._params(fn))) & used)
        # a name the tail both reads-before-writes and that is not available would be a bug already; nothing to check
        name = f"_extracted_tail_{n}"
        tail_body = tail if canon._terminates(tail) else tail + [ast.Return(value=None)]
        d = ast.FunctionDef(name=name, args=ast.arguments(posonlyargs=[], args=[ast.arg(arg=a) for a in free], kwonlyargs=[], kw_defaults=[], defaults=[]), body=tail_body, decorator_list=[], returns=None, type_comment=None, type_params=[])
        fn.body = body[:doc] + head + [ast.Return(value=ast.Call(func=ast.Name(id=name, ctx=ast.Load()), args=[ast.Name(id=a, ctx=ast.Load()) for a in free], keywords=[]))]
        new_defs.append(d)
        n += 1
    tree.body.extend(new_defs)
    return n


TRANSFORMS = {
    "rename-locals": rename_locals,
    "unparse-only": lambda t: 1,
    "swap-branches": lambda t: (setattr(SwapBranches, "n", 0), mark_elifs(t), SwapBranches().visit(t), SwapBranches.n)[-1],
    "de-morgan": lambda t: (setattr(DeMorgan, "n", 0), DeMorgan().visit(t), DeMorgan.n)[-1],
    "guard-to-else": lambda t: (mark_elifs(t), guard_to_else(t))[-1],
    "lambda-to-def": lambda_to_def,
    "comp-to-loop": comp_to_loop,
    "name-subexprs": name_subexprs,
    "rename-binders": rename_binders,
    "extract-expr": extract_expr,
    "extract-tail": extract_tail,
}


def transformed_sources(tname: str, root: str, only: str | None = None) -> dict[str, tuple[str, str]]:
    """relpath -> (old source, new source) for every analysed module the transform changes (each result compiles)."""
    repo = Repo(root, canonical=False)
    out = {}
    for name, m in sorted(repo.modules.items()):
        if only and only not in name:
            continue
        tree = ast.parse(m.source)
        if not TRANSFORMS[tname](tree):
            continue
        ast.fix_missing_locations(tree)
        new = ast.unparse(tree) + "\n"
        compile(new, m.relpath, "exec")
        out[m.relpath] = (m.source, new)
    return out


def rewrite_tree(tname: str, src_root: str, dst_root: str) -> int:
    """Write the transformed modules over the copies under dst_root (which must already hold a copy of the tree)."""
    changed = transformed_sources(tname, src_root)
    for rel, (_, new) in changed.items():
        with open(os.path.join(dst_root, rel), "w", encoding="utf-8") as fh:
            fh.write(new)
    return len(changed)


def main() -> None:
    tname, out = sys.argv[1], sys.argv[2]
    only = sys.argv[4] if len(sys.argv) > 4 and sys.argv[3] == "--only" else None
    changed = transformed_sources(tname, "/repo", only)
    diff = "".join("".join(difflib.unified_diff(a.splitlines(True), b.splitlines(True), "a/" + rel, "b/" + rel)) for rel, (a, b) in changed.items())
    with open(out, "w") as fh:
        fh.write(diff)
    print(f"{tname}: {len(changed)} files rewritten -> {out}")


if __name__ == "__main__":
    main()
