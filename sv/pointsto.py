"""E1 + E3 — whole-program, flow-insensitive, call-site-sensitive (k-CFA, k=1 quick / k=2 thorough) points-to
analysis over abstract heap objects, with a resolved call graph as by-product.

Abstract objects (hashable tuples):
  ("T", tag)                tensor *storage* (views share the object).  tag = "PARAM" | "GRAD" | (site, ctx)
  ("C", kind, site, ctx)    container (list/tuple/dict/generator); fields "*", "0".."n", "k:<const key>"
  ("O", cls_qual, site, ctx) instance of a repo class; fields = attribute names
  ("F", func_qual, selfobj) function / bound method          ("K", cls_qual) class object
  ("CL", key, frame_key)    closure (nested def or lambda)   ("P", site, ctx) functools.partial object
  ("X", dotted)             external opaque value            ("AG", name) operator.attrgetter
Scalars (ints, floats, strings, bools, None, dtypes, shapes) are the empty set.

The analysis starts from a synthetic driver that constructs DistributedShampoo with every concrete config class,
calls step(), distributed_state_dict() and load_distributed_state_dict(), and calls the public matrix functions.
"""

from __future__ import annotations

import ast
from collections import defaultdict
from dataclasses import dataclass, field

from . import tables as T
from .loader import AnalysisError, ClassInfo, FuncInfo, ModuleInfo, Repo

PARAM = ("T", "PARAM")
GRAD = ("T", "GRAD")
STATE_ROOT = ("C", "dict", "STATE_ROOT", ())
STATE_PARAM = ("C", "dict", "STATE_PARAM", ())

BUILTIN_SEQ = {"tuple", "list", "set", "frozenset", "sorted", "reversed", "iter"}
BUILTIN_SCALAR = {
    "range", "len", "any", "all", "abs", "isinstance", "issubclass", "type", "str", "int", "float", "bool", "print", "hasattr",
    "callable", "id", "hash", "round", "repr", "format", "ord", "chr", "divmod", "pow", "object", "bytes",
}


@dataclass
class Frame:
    key: tuple
    node: ast.AST
    module: ModuleInfo
    fi: FuncInfo | None
    ctx: tuple
    parent: "Frame | None" = None
    env: dict[str, set] = field(default_factory=lambda: defaultdict(set))
    ret: set = field(default_factory=set)
    selfcls: ClassInfo | None = None
    consts: dict = field(default_factory=dict)  # param name -> bool/None constant bound at the call site (specialisation)
    narrow: dict = field(default_factory=dict)  # name -> stack of type predicates (inside `if isinstance(name, T):`)

    @property
    def qual(self) -> str:
        return self.fi.qual if self.fi else str(self.key[0])


@dataclass
class WriteEvent:
    func: str
    node: ast.AST
    op: str
    dst: frozenset
    where: str
    kind: str = "inplace"  # inplace | augassign | collective | substore


class PointsTo:
    def __init__(self, repo: Repo, k: int = 1) -> None:
        self.repo = repo
        self.k = k
        self.frames: dict[tuple, Frame] = {}
        self.heap: dict[tuple, set] = defaultdict(set)
        self.changed = False
        self.recording = False
        self.writes: list[WriteEvent] = []
        self.substores: list[WriteEvent] = []
        self.reads: list[WriteEvent] = []
        self.calls: dict[tuple[str, int], set[str]] = defaultdict(set)  # (caller qual, id(call node)) -> callee quals / ext dotted
        self.call_nodes: dict[int, ast.Call] = {}
        self.unknown_ops: set[str] = set()
        self._module_frames: dict[str, Frame] = {}
        self._lambda_nodes: dict[int, tuple[ast.AST, ModuleInfo]] = {}
        self._module_cache: dict[tuple[str, str], set] = {}
        self._in_module_eval: set = set()
        self.comp_frames: dict[tuple, Frame] = {}
        self._cur_call = None
        self._assigned_names: dict[int, set[str]] = {}

    # ================================================================== helpers
    def add(self, s: set, items) -> None:
        n = len(s)
        s.update(items)
        if len(s) != n:
            self.changed = True

    def hset(self, obj, fld: str, items) -> None:
        if items:
            self.add(self.heap[(obj, fld)], items)

    def sitekey(self, frame: Frame, node: ast.AST) -> str:
        return f"{frame.module.relpath}:{getattr(node, 'lineno', 0)}:{getattr(node, 'col_offset', 0)}"

    def fresh_t(self, frame: Frame, node: ast.AST):
        return ("T", (self.sitekey(frame, node), frame.ctx))

    def newc(self, kind: str, frame: Frame, node: ast.AST, tag: str = ""):
        return ("C", kind, self.sitekey(frame, node) + tag, frame.ctx)

    def fields_of(self, obj) -> list[str]:
        return [f for (o, f) in list(self.heap.keys()) if o == obj]

    def elems(self, objs) -> set:
        """What iteration over / element access into these objects may yield."""
        out: set = set()
        for o in objs:
            if o[0] in ("C", "P"):
                for (oo, f), vals in list(self.heap.items()):
                    if oo == o and not f.startswith("kw:") and f != "func":
                        out |= vals
            elif o[0] == "T":
                out.add(o)
        return out

    def read_index(self, objs, idx) -> set:
        out: set = set()
        for o in objs:
            if o[0] == "C":
                if isinstance(idx, int):
                    out |= self.heap.get((o, str(idx)), set()) | self.heap.get((o, "*"), set())
                    if idx < 0:
                        out |= self.elems([o])
                elif isinstance(idx, str):
                    out |= self.heap.get((o, "k:" + idx), set()) | self.heap.get((o, "*"), set())
                else:
                    out |= self.elems([o])
            elif o[0] == "T":
                if not isinstance(idx, str):
                    out.add(o)
            elif o[0] == "X":
                out.add(o)
        return out

    def tensors(self, objs, depth: int = 3) -> set:
        """All tensor storages directly in, or nested (≤ depth) inside, the given objects."""
        out: set = set()
        cur = set(objs)
        for _ in range(depth + 1):
            nxt: set = set()
            for o in cur:
                if o[0] == "T":
                    out.add(o)
                elif o[0] == "C":
                    nxt |= self.elems([o])
            cur = nxt - out
            if not cur:
                break
        return out

    # ================================================================== frames
    def module_frame(self, m: ModuleInfo) -> Frame:
        if m.name not in self._module_frames:
            self._module_frames[m.name] = Frame(("module", m.name), m.tree, m, None, ())
        return self._module_frames[m.name]

    def get_frame(self, key: tuple, node: ast.AST, module: ModuleInfo, fi: FuncInfo | None, ctx: tuple, parent: Frame | None, selfcls: ClassInfo | None) -> Frame:
        fr = self.frames.get(key)
        if fr is None:
            fr = Frame(key, node, module, fi, ctx, parent, selfcls=selfcls)
            self.frames[key] = fr
            self.changed = True
        return fr

    def ctx_push(self, frame: Frame, node: ast.AST) -> tuple:
        return (frame.ctx + (self.sitekey(frame, node),))[-self.k :]

    # ================================================================== name resolution
    def lookup(self, name: str, frame: Frame) -> set:
        f: Frame | None = frame
        preds = []
        while f is not None:
            if f.narrow.get(name):
                preds.extend(f.narrow[name])
            if name in f.env:
                vals = f.env[name]
                for pr in preds:
                    vals = {o for o in vals if pr(o)}
                return vals
            f = f.parent
        return self.resolve_global(frame.module, name)

    def type_pred(self, test: ast.AST, fr: Frame):
        """(name, predicate) for `isinstance(name, T)` / `not isinstance(name, T)` tests over types the heap model knows."""
        neg = False
        while isinstance(test, ast.UnaryOp) and isinstance(test.op, ast.Not):
            neg = not neg
            test = test.operand
        if not (isinstance(test, ast.Call) and isinstance(test.func, ast.Name) and test.func.id == "isinstance" and len(test.args) == 2 and isinstance(test.args[0], ast.Name)):
            return None
        tys = test.args[1].elts if isinstance(test.args[1], ast.Tuple) else [test.args[1]]
        preds = []
        for t in tys:
            d = self.repo.dotted_of(fr.module, t) or ""
            last = d.split(".")[-1]
            ci = self.repo.class_by_dotted(d)
            if last in ("Tensor", "DTensor", "Parameter"):
                preds.append(lambda o: o[0] == "T")
            elif last == "dict" or last in ("Mapping", "MutableMapping"):
                preds.append(lambda o: o[0] == "C" and o[1] == "dict")
            elif last in ("list", "tuple", "set", "Sequence", "frozenset"):
                preds.append(lambda o: o[0] == "C" and o[1] != "dict")
            elif ci is not None:
                preds.append(lambda o, ci=ci: o[0] == "O" and o[1] in self.repo.classes and self.repo.is_subclass(self.repo.classes[o[1]], ci))
            else:
                return None
        pos = lambda o: any(p(o) for p in preds)
        return test.args[0].id, ((lambda o: not pos(o)) if neg else pos), ((lambda o: pos(o)) if neg else (lambda o: not pos(o)))

    def with_narrow(self, fr: Frame, name: str, pred, fn) -> object:
        fr.narrow.setdefault(name, []).append(pred)
        try:
            return fn()
        finally:
            fr.narrow[name].pop()

    def resolve_global(self, m: ModuleInfo, name: str) -> set:
        if name in m.functions:
            return {("F", m.functions[name].qual, None)}
        if name in m.classes:
            return {("K", m.classes[name].qual)}
        if name in m.imports:
            return self.resolve_dotted_value(m.imports[name])
        if name in m.assigns:
            return self.module_value(m, name)
        return {("X", "builtins." + name)}

    def module_value(self, m: ModuleInfo, name: str) -> set:
        key = (m.name, name)
        if key in self._in_module_eval:
            return set()
        if key not in self._module_cache:
            self._module_cache[key] = set()
        self._in_module_eval.add(key)
        try:
            self.add(self._module_cache[key], self.eval(m.assigns[name], self.module_frame(m)))
        finally:
            self._in_module_eval.discard(key)
        return self._module_cache[key]

    def resolve_dotted_value(self, dotted: str) -> set:
        ci = self.repo.class_by_dotted(dotted)
        if ci is not None:
            return {("K", ci.qual)}
        fi = self.repo.func_by_dotted(dotted)
        if fi is not None:
            return {("F", fi.qual, None)}
        ok, _ = self.repo.const_by_dotted(dotted)
        if ok:
            return set()
        ma = self.repo.module_assign(dotted)
        if ma is not None:
            mi, _ = ma
            return self.module_value(mi, dotted.rpartition(".")[2])
        if dotted in self.repo.modules:
            return {("X", dotted)}
        return {("X", dotted)}

    # ================================================================== attribute access
    def get_attr(self, objs, attr: str, frame: Frame, node: ast.AST) -> set:
        out: set = set()
        for o in objs:
            tag = o[0]
            if tag == "O" and attr == "__dict__":
                d = ("C", "dict", "__dict__", o)
                for f in self.fields_of(o):
                    self.hset(d, "k:" + f, self.heap[(o, f)])
                out.add(d)
            elif tag == "O":
                ci = self.repo.classes.get(o[1])
                meth = self.repo.lookup_method(ci, attr) if ci else None
                if meth is not None:
                    if meth.is_property:
                        out |= self.call_func(meth, o, [], {}, node, frame)
                    elif meth.is_static:
                        out.add(("F", meth.qual, None))
                    else:
                        out.add(("F", meth.qual, o))
                else:
                    out |= self.heap.get((o, attr), set())
            elif tag == "K":
                ci = self.repo.classes.get(o[1])
                meth = self.repo.lookup_method(ci, attr) if ci else None
                if meth is not None:
                    out.add(("F", meth.qual, None))
            elif tag == "T":
                if attr == "grad":
                    out.add(GRAD if o == PARAM else o)
                elif attr in T.VIEW_ATTRS:
                    out.add(o)
            elif tag == "X":
                sub = o[1] + "." + attr
                if o[1] in self.repo.modules or self.repo.class_by_dotted(sub) or self.repo.func_by_dotted(sub):
                    out |= self.resolve_dotted_value(sub)
                else:
                    out.add(("X", sub))
            elif tag in ("C", "P"):
                pass
        return out

    def set_attr(self, objs, attr: str, vals: set) -> None:
        for o in objs:
            if o[0] == "O":
                self.hset(o, attr, vals)

    # ================================================================== expression evaluation
    def eval(self, e: ast.AST | None, fr: Frame) -> set:
        if e is None:
            return set()
        m = getattr(self, "_e_" + type(e).__name__, None)
        if m is None:
            return set()
        return m(e, fr)

    def _e_Constant(self, e, fr):
        return set()

    def _e_Name(self, e, fr):
        return set(self.lookup(e.id, fr))

    def _e_NamedExpr(self, e, fr):
        v = self.eval(e.value, fr)
        self.assign(e.target, v, fr)
        return v

    def _e_Attribute(self, e, fr):
        d = self.repo.dotted_of(fr.module, e)
        if d is not None:
            head = d.split(".")[0]
            base = e
            while isinstance(base, ast.Attribute):
                base = base.value
            if isinstance(base, ast.Name) and not self._is_local(base.id, fr) and base.id in fr.module.imports:
                ci = self.repo.class_by_dotted(d)
                if ci is not None:
                    return {("K", ci.qual)}
                fi = self.repo.func_by_dotted(d)
                if fi is not None:
                    return {("F", fi.qual, None)}
                if self.repo.const_by_dotted(d)[0]:
                    return set()
                if head not in {mm.split(".")[0] for mm in self.repo.modules} or self.repo.module_assign(d) is None:
                    # external dotted name, or Class.attr of a repo class handled below
                    if self.repo.class_by_dotted(d.rpartition(".")[0]) is None and self.repo.module_assign(d) is None:
                        return {("X", d)}
        base = self.eval(e.value, fr)
        return self.get_attr(base, e.attr, fr, e)

    def _is_local(self, name: str, fr: Frame) -> bool:
        f: Frame | None = fr
        while f is not None:
            if name in f.env:
                return True
            f = f.parent
        return False

    def _e_Subscript(self, e, fr):
        base = self.eval(e.value, fr)
        sl = e.slice
        self.eval(sl, fr)
        if isinstance(sl, ast.Slice):
            return base
        key = self.const_key(sl, fr)
        out = self.read_index(base, key)
        # tensor indexing that is not a plain slice may copy (advanced indexing)
        if any(o[0] == "T" for o in base) and not isinstance(key, str):
            if not self._index_is_basic(sl):
                out.add(self.fresh_t(fr, e))
        return out

    @staticmethod
    def _index_is_basic(sl: ast.AST) -> bool:
        parts = sl.elts if isinstance(sl, ast.Tuple) else [sl]
        for p in parts:
            if isinstance(p, ast.Slice) or (isinstance(p, ast.Constant) and (isinstance(p.value, int) or p.value is None or p.value is Ellipsis)):
                continue
            if isinstance(p, ast.UnaryOp) and isinstance(p.operand, ast.Constant):
                continue
            if isinstance(p, ast.Name) or isinstance(p, ast.BinOp) or isinstance(p, ast.Attribute):
                continue  # integer-valued index expressions (the repo never indexes tensors by tensor-valued names)
            return False
        return True

    def const_key(self, sl: ast.AST, fr: Frame):
        if isinstance(sl, ast.Constant) and isinstance(sl.value, (int, str)) and not isinstance(sl.value, bool):
            return sl.value
        if isinstance(sl, ast.UnaryOp) and isinstance(sl.op, ast.USub) and isinstance(sl.operand, ast.Constant) and isinstance(sl.operand.value, int):
            return -sl.operand.value
        if isinstance(sl, (ast.Name, ast.Attribute)):
            if isinstance(sl, ast.Name) and self._is_local(sl.id, fr):
                return None
            s = self.repo.const_str(fr.module, sl)
            if s is not None:
                return s
        return None

    def _e_Tuple(self, e, fr):
        c = self.newc("tuple", fr, e)
        for i, el in enumerate(e.elts):
            if isinstance(el, ast.Starred):
                self.hset(c, "*", self.elems(self.eval(el.value, fr)))
            else:
                self.hset(c, str(i), self.eval(el, fr))
        return {c}

    _e_List = _e_Tuple
    _e_Set = _e_Tuple

    def _e_Dict(self, e, fr):
        c = self.newc("dict", fr, e)
        for k, v in zip(e.keys, e.values):
            vv = self.eval(v, fr)
            if k is None:  # **other
                for o in vv:
                    if o[0] == "C":
                        for f in self.fields_of(o):
                            self.hset(c, f, self.heap[(o, f)])
                continue
            self.eval(k, fr)
            key = self.const_key(k, fr)
            self.hset(c, "k:" + key if isinstance(key, str) else "*", vv)
        return {c}

    def _e_Starred(self, e, fr):
        return self.elems(self.eval(e.value, fr))

    def _e_IfExp(self, e, fr):
        self.eval(e.test, fr)
        t = self.truth(e.test, fr)
        if t is True:
            return self.eval(e.body, fr)
        if t is False:
            return self.eval(e.orelse, fr)
        tp = self.type_pred(e.test, fr)
        if tp is not None:
            name, pos, neg = tp
            return self.with_narrow(fr, name, pos, lambda: self.eval(e.body, fr)) | self.with_narrow(fr, name, neg, lambda: self.eval(e.orelse, fr))
        return self.eval(e.body, fr) | self.eval(e.orelse, fr)

    def const_of(self, name: str, fr: Frame):
        f = fr
        while f is not None:
            if name in f.consts:
                return True, f.consts[name]
            if name in f.env:
                return False, None
            f = f.parent
        return False, None

    def truth(self, t: ast.AST, fr: Frame):
        """Truth value of a test under the frame's constant-argument specialisation (None = unknown)."""
        if isinstance(t, ast.Constant):
            return bool(t.value)
        if isinstance(t, ast.Name):
            ok, v = self.const_of(t.id, fr)
            return bool(v) if ok else None
        if isinstance(t, ast.UnaryOp) and isinstance(t.op, ast.Not):
            v = self.truth(t.operand, fr)
            return None if v is None else not v
        if isinstance(t, ast.Compare) and len(t.ops) == 1 and isinstance(t.ops[0], (ast.Is, ast.IsNot)) and isinstance(t.left, ast.Name):
            c = t.comparators[0]
            if isinstance(c, ast.Constant) and c.value is None:
                ok, v = self.const_of(t.left.id, fr)
                if ok:
                    r = v is None
                    return r if isinstance(t.ops[0], ast.Is) else not r
            return None
        if isinstance(t, ast.BoolOp):
            vals = [self.truth(v, fr) for v in t.values]
            if isinstance(t.op, ast.And):
                if any(v is False for v in vals):
                    return False
                return True if all(v is True for v in vals) else None
            if any(v is True for v in vals):
                return True
            return False if all(v is False for v in vals) else None
        return None

    def _e_BoolOp(self, e, fr):
        out: set = set()
        for v in e.values:
            out |= self.eval(v, fr)
        return out

    def _e_Compare(self, e, fr):
        has_t = any(o[0] == "T" for o in self.eval(e.left, fr))
        for c in e.comparators:
            has_t |= any(o[0] == "T" for o in self.eval(c, fr))
        if has_t and not all(isinstance(op, (ast.Is, ast.IsNot, ast.In, ast.NotIn)) for op in e.ops):
            return {self.fresh_t(fr, e)}
        return set()

    def _e_UnaryOp(self, e, fr):
        v = self.eval(e.operand, fr)
        if any(o[0] == "T" for o in v) and not isinstance(e.op, ast.Not):
            return {self.fresh_t(fr, e)}
        return set()

    def _e_BinOp(self, e, fr):
        l, r = self.eval(e.left, fr), self.eval(e.right, fr)
        out: set = set()
        if any(o[0] == "T" for o in l | r):
            out.add(self.fresh_t(fr, e))
        conts = [o for o in l | r if o[0] == "C"]
        if conts and isinstance(e.op, (ast.Add, ast.Mult, ast.BitOr)):
            c = self.newc("list", fr, e)
            for o in conts:
                for f in self.fields_of(o):
                    self.hset(c, f if f.startswith("k:") else "*", self.heap[(o, f)])
            out.add(c)
        return out

    def _e_JoinedStr(self, e, fr):
        for v in e.values:
            if isinstance(v, ast.FormattedValue):
                self.eval(v.value, fr)
        return set()

    def _e_FormattedValue(self, e, fr):
        self.eval(e.value, fr)
        return set()

    def _e_Lambda(self, e, fr):
        self._lambda_nodes[id(e)] = (e, fr.module)
        return {("CL", ("lambda", id(e)), fr.key)}

    def _e_Await(self, e, fr):
        return self.eval(e.value, fr)

    def _comp(self, e, outer, kind):
        ckey = ("comp", id(e), outer.key)
        fr = self.comp_frames.get(ckey)
        if fr is None:
            fr = Frame(ckey, e, outer.module, outer.fi, outer.ctx, outer, selfcls=outer.selfcls)
            self.comp_frames[ckey] = fr
        for g in e.generators:
            it = self.eval(g.iter, fr)
            self.assign(g.target, self.elems(it), fr)
            for c in g.ifs:
                self.eval(c, fr)
        c = self.newc(kind, fr, e)
        if isinstance(e, ast.DictComp):
            self.eval(e.key, fr)
            key = self.const_key(e.key, fr)
            self.hset(c, "k:" + key if isinstance(key, str) else "*", self.eval(e.value, fr))
        else:
            self.hset(c, "*", self.eval(e.elt, fr))
        return {c}

    def _e_ListComp(self, e, fr):
        return self._comp(e, fr, "list")

    def _e_SetComp(self, e, fr):
        return self._comp(e, fr, "list")

    def _e_GeneratorExp(self, e, fr):
        return self._comp(e, fr, "gen")

    def _e_DictComp(self, e, fr):
        return self._comp(e, fr, "dict")

    # ------------------------------------------------------------------ calls
    def _e_Call(self, e: ast.Call, fr: Frame) -> set:
        args: list[set] = []
        star_extra: set = set()
        for a in e.args:
            if isinstance(a, ast.Starred):
                star_extra |= self.elems(self.eval(a.value, fr))
            else:
                args.append(self.eval(a, fr))
        kwargs: dict[str, set] = {}
        dstar: set = set()
        for kw in e.keywords:
            v = self.eval(kw.value, fr)
            if kw.arg is None:
                dstar |= v
            else:
                kwargs[kw.arg] = v
        if star_extra:
            args.append(star_extra)  # approximated: the starred elements may land in any later position
            kwargs["*extra"] = star_extra
        if dstar:
            for o in dstar:
                if o[0] == "C":
                    for f in self.fields_of(o):
                        if f.startswith("k:"):
                            kwargs.setdefault(f[2:], set()).update(self.heap[(o, f)])
        f = e.func
        self._cur_call = e
        # super().method(...)
        if isinstance(f, ast.Attribute) and isinstance(f.value, ast.Call) and isinstance(f.value.func, ast.Name) and f.value.func.id == "super":
            return self.call_super(f.attr, args, kwargs, e, fr)
        # method call on evaluated receiver
        if isinstance(f, ast.Attribute):
            d = self.repo.dotted_of(fr.module, f)
            base_name = f
            while isinstance(base_name, ast.Attribute):
                base_name = base_name.value
            is_import_path = isinstance(base_name, ast.Name) and not self._is_local(base_name.id, fr) and base_name.id in fr.module.imports
            if not is_import_path:
                recv = self.eval(f.value, fr)
                return self.call_method(recv, f.attr, args, kwargs, e, fr)
        callee = self.eval(f, fr)
        if not callee and isinstance(f, ast.Call) and isinstance(f.func, ast.Name) and f.func.id == "type":
            # type(x)(iterable): rebuild a container of the same type
            c = self.newc("list", fr, e)
            for a in args:
                self.hset(c, "*", self.elems(a))
            return {c}
        return self.call_values(callee, args, kwargs, e, fr)

    def note_call(self, fr: Frame, node: ast.AST, callee: str) -> None:
        if self.recording:
            self.calls[(fr.qual, id(node))].add(callee)
            self.call_nodes[id(node)] = node

    def call_values(self, callee: set, args, kwargs, node, fr) -> set:
        out: set = set()
        for c in callee:
            tag = c[0]
            if tag == "F":
                out |= self.call_func(self.repo.funcs[c[1]], c[2], args, kwargs, node, fr)
            elif tag == "K":
                out |= self.instantiate(self.repo.classes[c[1]], args, kwargs, node, fr)
            elif tag == "CL":
                out |= self.call_closure(c, args, kwargs, node, fr)
            elif tag == "P":
                pos = []
                i = 0
                while (c, f"pos:{i}") in self.heap:
                    pos.append(set(self.heap[(c, f"pos:{i}")]))
                    i += 1
                kw = {f[3:]: set(self.heap[(c, f)]) for f in self.fields_of(c) if f.startswith("kw:")}
                kw.update(kwargs)
                self._cur_call = None
                out |= self.call_values(self.heap.get((c, "func"), set()), pos + list(args), kw, node, fr)
            elif tag == "X":
                out |= self.call_ext(c[1], args, kwargs, node, fr)
            elif tag == "AG":
                for a in args[:1]:
                    out |= self.get_attr(a, c[1], fr, node)
        return out

    def call_method(self, recv: set, name: str, args, kwargs, node, fr) -> set:
        out: set = set()
        for o in recv:
            tag = o[0]
            if tag == "O":
                vals = self.get_attr([o], name, fr, node)
                out |= self.call_values(vals, args, kwargs, node, fr)
            elif tag == "K":
                ci = self.repo.classes[o[1]]
                meth = self.repo.lookup_method(ci, name)
                if meth is not None:
                    out |= self.call_func(meth, None, args, kwargs, node, fr)
            elif tag == "T":
                out |= self.tensor_method(o, name, args, kwargs, node, fr)
            elif tag == "C":
                out |= self.container_method(o, name, args, kwargs, node, fr)
            elif tag == "X":
                out |= self.call_ext(o[1] + "." + name, args, kwargs, node, fr, method_on_opaque=True)
            elif tag == "P" and name in ("func", "keywords"):
                pass
        return out

    def call_super(self, name: str, args, kwargs, node, fr: Frame) -> set:
        f: Frame | None = fr
        while f is not None and (f.fi is None or f.fi.cls is None or f.fi.parent is not None):
            f = f.parent if f.parent is not None else None
            if f is None:
                break
        if f is None or f.fi is None or f.fi.cls is None:
            return set()
        out: set = set()
        selfname = f.fi.params[0] if f.fi.params else "self"
        for o in list(f.env.get(selfname, set())):
            if o[0] != "O":
                continue
            ci = self.repo.classes[o[1]]
            meth = self.repo.lookup_method(ci, name, after=f.fi.cls)
            if meth is not None:
                if meth.is_property:
                    out |= self.call_func(meth, o, [], {}, node, fr)
                else:
                    out |= self.call_func(meth, None if meth.is_static else o, args, kwargs, node, fr)
            elif name == "__init__":
                ext = [b for k in self.repo.mro(ci) for b in k.base_exprs]
                if any(b.endswith("Optimizer") for b in ext):
                    self.optimizer_init(o, args, kwargs, fr)
        return out

    def optimizer_init(self, o, args, kwargs, fr: Frame) -> None:
        """Model of torch.optim.Optimizer.__init__(self, params, defaults)."""
        defaults = kwargs.get("defaults") or (args[1] if len(args) > 1 else set())
        self.hset(o, "defaults", defaults)
        self.hset(o, "state", {STATE_ROOT})
        self.hset(STATE_ROOT, "*", {STATE_PARAM})
        groups = ("C", "list", "PARAM_GROUPS", ())
        self.hset(o, "param_groups", {groups})
        plist = ("C", "list", "GROUP_PARAMS", ())
        self.hset(plist, "*", {PARAM})
        for d in defaults:
            if d[0] == "C":
                self.hset(groups, "*", {d})  # a group is a copy of the defaults plus "params"
                self.hset(d, "k:params", {plist})

    def call_func(self, fi: FuncInfo, selfobj, args, kwargs, node, fr: Frame, closure_parent: Frame | None = None) -> set:
        self.note_call(fr, node, fi.qual)
        a = fi.node.args
        names = [x.arg for x in a.posonlyargs + a.args]
        selfcls = None
        ctx = self.ctx_push(fr, node)
        if closure_parent is not None:
            ctx = (closure_parent.ctx + (self.sitekey(fr, node),))[-(self.k + 1) :]
        pos = list(args)
        if selfobj is not None:
            pos = [{selfobj}] + pos
            if selfobj[0] == "O":
                selfcls = self.repo.classes.get(selfobj[1])
        consts = self.const_bindings(fi, node, fr, 1 if selfobj is not None else 0, len(args))
        key = (fi.qual, ctx, selfcls.qual if selfcls else None, tuple(sorted(consts.items(), key=str)))
        parent = closure_parent
        callee = self.get_frame(key, fi.node, fi.module, fi, ctx, parent, selfcls)
        callee.consts = consts
        for i, v in enumerate(pos):
            if i < len(names):
                self.add(callee.env[names[i]], v)
            elif a.vararg is not None:
                c = ("C", "tuple", f"vararg:{fi.qual}", ctx)
                self.hset(c, "*", v)
                self.add(callee.env[a.vararg.arg], {c})
        allnames = set(names) | {x.arg for x in a.kwonlyargs}
        for k, v in kwargs.items():
            if k in allnames:
                self.add(callee.env[k], v)
            elif k == "*extra":
                for n in names:
                    self.add(callee.env[n], v)
            elif a.kwarg is not None:
                c = ("C", "dict", f"kwarg:{fi.qual}", ctx)
                self.hset(c, "k:" + k, v)
                self.add(callee.env[a.kwarg.arg], {c})
        # defaults
        defaults = list(a.defaults)
        for n, d in zip(names[len(names) - len(defaults) :], defaults):
            self.add(callee.env[n], self.eval(d, self.module_frame(fi.module)))
        for x, d in zip(a.kwonlyargs, a.kw_defaults):
            if d is not None:
                self.add(callee.env[x.arg], self.eval(d, self.module_frame(fi.module)))
        return callee.ret

    def const_bindings(self, fi: FuncInfo, node: ast.AST, fr: Frame, offset: int, nargs: int) -> dict:
        """bool/None literal arguments (and such defaults of parameters not passed) of a *direct* call, used to
        specialise the callee (`get_grad=True` vs the default False).  Parameters re-assigned in the callee are excluded."""
        a = fi.node.args
        names = [x.arg for x in a.posonlyargs + a.args]
        out: dict = {}
        direct = isinstance(node, ast.Call) and self._cur_call is node
        given: set[str] = set()
        if direct:
            if any(isinstance(x, ast.Starred) for x in node.args) or any(k.arg is None for k in node.keywords):
                return {}
            for i, x in enumerate(node.args):
                j = i + offset
                if j < len(names):
                    given.add(names[j])
                    if isinstance(x, ast.Constant) and (isinstance(x.value, bool) or x.value is None):
                        out[names[j]] = x.value
            for k in node.keywords:
                given.add(k.arg)
                if isinstance(k.value, ast.Constant) and (isinstance(k.value.value, bool) or k.value.value is None):
                    out[k.arg] = k.value.value
        else:
            return {}
        defaults = list(a.defaults)
        for n, d in list(zip(names[len(names) - len(defaults) :], defaults)) + [(x.arg, d) for x, d in zip(a.kwonlyargs, a.kw_defaults) if d is not None]:
            if n not in given and isinstance(d, ast.Constant) and (isinstance(d.value, bool) or d.value is None):
                out[n] = d.value
        assigned = self._assigned_names.get(id(fi.node))
        if assigned is None:
            assigned = set()
            for sub in ast.walk(fi.node):
                if isinstance(sub, ast.Name) and isinstance(sub.ctx, (ast.Store, ast.Del)):
                    assigned.add(sub.id)
            self._assigned_names[id(fi.node)] = assigned
        return {k: v for k, v in out.items() if k not in assigned}

    def call_closure(self, c, args, kwargs, node, fr: Frame) -> set:
        key, frame_key = c[1], c[2]
        parent = self.frames.get(frame_key) or self._module_frames.get(frame_key[1] if frame_key and frame_key[0] == "module" else "", None)
        if isinstance(key, tuple) and key[0] == "lambda":
            lam, module = self._lambda_nodes[key[1]]
            # a closure runs inside the invocation that created it: keep that invocation's context
            base = parent.ctx if parent is not None else fr.ctx
            ctx = (base + (self.sitekey(fr, node),))[-(self.k + 1) :]
            fkey = (key, ctx, None)
            callee = self.get_frame(fkey, lam, module, None, ctx, parent, None)
            names = [x.arg for x in lam.args.posonlyargs + lam.args.args]
            for i, v in enumerate(args):
                if i < len(names):
                    self.add(callee.env[names[i]], v)
            for k, v in kwargs.items():
                if k in names or k in [x.arg for x in lam.args.kwonlyargs]:
                    self.add(callee.env[k], v)
            for n, d in zip(names[len(names) - len(lam.args.defaults) :], lam.args.defaults):
                self.add(callee.env[n], self.eval(d, parent or self.module_frame(module)))
            self.note_call(fr, node, f"<lambda@{module.relpath}:{lam.lineno}>")
            return callee.ret
        fi = self.repo.funcs[key]
        return self.call_func(fi, None, args, kwargs, node, fr, closure_parent=parent)

    def instantiate(self, ci: ClassInfo, args, kwargs, node, fr: Frame) -> set:
        obj = ("O", ci.qual, self.sitekey(fr, node), fr.ctx)
        self.note_call(fr, node, ci.qual)
        init = self.repo.lookup_method(ci, "__init__")
        if init is not None and not init.is_abstract:
            self.call_func(init, obj, args, kwargs, node, fr)
        elif ci.is_dataclass or any(k.is_dataclass for k in self.repo.mro(ci)):
            flds = self.repo.all_fields(ci)
            pos_fields = [f for f in flds if not self._kw_only(f[3])]
            for i, v in enumerate(args):
                if i < len(pos_fields):
                    self.hset(obj, pos_fields[i][0], v)
            for n, ann, dflt, owner in flds:
                if n in kwargs:
                    self.hset(obj, n, kwargs[n])
                if dflt is not None:
                    self.hset(obj, n, self.eval_default(dflt, owner.module))
            post = self.repo.lookup_method(ci, "__post_init__")
            if post is not None:
                self.call_func(post, obj, [], {}, node, fr)
        return {obj}

    @staticmethod
    def _kw_only(c: ClassInfo) -> bool:
        return c.dataclass_kwargs.get("kw_only") is True

    def eval_default(self, dflt: ast.AST, m: ModuleInfo) -> set:
        mf = self.module_frame(m)
        if isinstance(dflt, ast.Call) and (self.repo.dotted_of(m, dflt.func) or "").endswith("dataclasses.field"):
            out: set = set()
            for kw in dflt.keywords:
                if kw.arg == "default":
                    out |= self.eval(kw.value, mf)
                elif kw.arg == "default_factory":
                    out |= self.call_values(self.eval(kw.value, mf), [], {}, dflt, mf)
            return out
        return self.eval(dflt, mf)

    # ------------------------------------------------------------------ tensor / container / external models
    def record_write(self, fr: Frame, node: ast.AST, op: str, dst: set, kind: str = "inplace") -> None:
        if self.recording:
            ev = WriteEvent(fr.qual, node, op, frozenset(dst), f"{fr.module.relpath}:{getattr(node, 'lineno', 0)}", kind)
            (self.substores if kind == "substore" else self.writes).append(ev)

    def record_read(self, fr: Frame, node: ast.AST, op: str, src) -> None:
        if self.recording:
            ts = self.tensors(src)
            if ts:
                self.reads.append(WriteEvent(fr.qual, node, op, frozenset(ts), f"{fr.module.relpath}:{getattr(node, 'lineno', 0)}", "read"))

    def tensor_method(self, o, name: str, args, kwargs, node, fr: Frame) -> set:
        if name in _NOT_TENSOR_METHODS:
            return set()
        if self.recording and name not in T.SCALAR_METHODS:
            src = set().union(*args, *kwargs.values()) if (args or kwargs) else set()
            self.record_read(fr, node, name, src | ({o} if not name.endswith("_") else set()))
        if name in T.VIEW_METHODS:
            if name in ("split", "chunk", "unbind", "tensor_split"):
                c = self.newc("tuple", fr, node)
                self.hset(c, "*", {o})
                return {c}
            return {o}
        if name in T.MAYBE_COPY_METHODS:
            return {o, self.fresh_t(fr, node)}
        if name in T.SCALAR_METHODS:
            return set()
        if name.endswith("_") and not name.startswith("__"):
            self.record_write(fr, node, name, {o})
            return {o}
        if name == "clone" or True:
            if name not in _KNOWN_FRESH_METHODS:
                self.unknown_ops.add("Tensor." + name)
            return {self.fresh_t(fr, node)}

    def container_method(self, o, name: str, args, kwargs, node, fr: Frame) -> set:
        a0 = args[0] if args else set()
        if name in ("append", "add", "appendleft"):
            self.hset(o, "*", a0)
            return set()
        if name == "insert":
            self.hset(o, "*", args[1] if len(args) > 1 else set())
            return set()
        if name in ("extend", "update", "__ior__"):
            for s in a0:
                if s[0] == "C" and o[1] == "dict" and s[1] == "dict":
                    for f in self.fields_of(s):
                        self.hset(o, f, self.heap[(s, f)])
                else:
                    self.hset(o, "*", self.elems([s]))
            return set()
        if name == "items":
            c = self.newc("list", fr, node)
            t = self.newc("tuple", fr, node, "#kv")
            self.hset(t, "1", self.elems([o]))
            self.hset(c, "*", {t})
            return {c}
        if name == "values":
            c = self.newc("list", fr, node)
            self.hset(c, "*", self.elems([o]))
            return {c}
        if name == "keys":
            return {self.newc("list", fr, node)}
        if name == "get":
            key = self.const_key(node.args[0], fr) if node.args else None
            return self.read_index([o], key) | (args[1] if len(args) > 1 else kwargs.get("default", set()))
        if name == "setdefault":
            key = self.const_key(node.args[0], fr) if node.args else None
            d = args[1] if len(args) > 1 else set()
            self.hset(o, "k:" + key if isinstance(key, str) else "*", d)
            return self.read_index([o], key)
        if name in ("pop", "popitem", "popleft"):
            return self.elems([o])
        if name == "copy":
            c = self.newc(o[1], fr, node)
            for f in self.fields_of(o):
                self.hset(c, f, self.heap[(o, f)])
            return {c}
        return set()

    def call_ext(self, d: str, args, kwargs, node, fr: Frame, method_on_opaque: bool = False) -> set:
        self.note_call(fr, node, d)
        a0 = args[0] if args else set()
        short = d[9:] if d.startswith("builtins.") else None
        if short is not None:
            if short in BUILTIN_SEQ:
                c = self.newc("list" if short != "tuple" else "tuple", fr, node)
                self.hset(c, "*", self.elems(a0))
                if short == "sorted" and "key" in kwargs:
                    self.call_values(kwargs["key"], [self.elems(a0)], {}, node, fr)
                return {c}
            if short == "zip":
                c = self.newc("list", fr, node)
                t = self.newc("tuple", fr, node, "#zip")
                for i, a in enumerate(args):
                    self.hset(t, str(i), self.elems(a))
                self.hset(c, "*", {t})
                return {c}
            if short == "enumerate":
                c = self.newc("list", fr, node)
                t = self.newc("tuple", fr, node, "#enum")
                self.hset(t, "1", self.elems(a0))
                self.hset(c, "*", {t})
                return {c}
            if short == "map":
                c = self.newc("list", fr, node)
                self.hset(c, "*", self.call_values(a0, [self.elems(a) for a in args[1:]], {}, node, fr))
                return {c}
            if short == "filter":
                c = self.newc("list", fr, node)
                seq = self.elems(args[1]) if len(args) > 1 else set()
                self.call_values(a0, [seq], {}, node, fr)
                self.hset(c, "*", seq)
                return {c}
            if short == "next":
                return self.elems(a0) | (args[1] if len(args) > 1 else set())
            if short in ("max", "min"):
                out = set()
                for a in args:
                    out |= a | self.elems([x for x in a if x[0] == "C"])
                return out
            if short == "sum":
                return {self.fresh_t(fr, node)} if self.tensors(a0) else set()
            if short == "dict":
                c = self.newc("dict", fr, node)
                for s in a0:
                    if s[0] == "C":
                        for f in self.fields_of(s):
                            self.hset(c, f if f.startswith("k:") else "*", self.heap[(s, f)])
                        for t in self.elems([s]):
                            if t[0] == "C":
                                self.hset(c, "*", self.heap.get((t, "1"), set()))
                for k, v in kwargs.items():
                    self.hset(c, "k:" + k, v)
                return {c}
            if short == "getattr":
                name = node.args[1].value if len(node.args) > 1 and isinstance(node.args[1], ast.Constant) else None
                out = args[2] if len(args) > 2 else set()
                return (self.get_attr(a0, name, fr, node) if isinstance(name, str) else set()) | out
            if short == "setattr":
                name = node.args[1].value if len(node.args) > 1 and isinstance(node.args[1], ast.Constant) else None
                if isinstance(name, str):
                    self.set_attr(a0, name, args[2] if len(args) > 2 else set())
                return set()
            if short == "super":
                return set()
            return set()  # scalars, exceptions, ...
        if d == "functools.partial":
            p = ("P", self.sitekey(fr, node), fr.ctx)
            self.hset(p, "func", a0)
            for i, a in enumerate(args[1:]):
                self.hset(p, f"pos:{i}", a)
                if not a:
                    self.heap[(p, f"pos:{i}")]  # keep positional slot even for scalars
            for k, v in kwargs.items():
                self.heap[(p, "kw:" + k)]
                self.hset(p, "kw:" + k, v)
            return {p}
        if d == "functools.reduce":
            acc = ("C", "acc", self.sitekey(fr, node) + "#reduce", fr.ctx)
            seq = self.elems(args[1]) if len(args) > 1 else set()
            if len(args) > 2:
                self.hset(acc, "*", args[2])
            else:
                self.hset(acc, "*", seq)
            r = self.call_values(a0, [set(self.heap[(acc, "*")]), seq], {}, node, fr)
            self.hset(acc, "*", r)
            return set(self.heap[(acc, "*")])
        if d.startswith("itertools."):
            c = self.newc("list", fr, node)
            n = d.split(".")[-1]
            if n in ("compress", "islice", "accumulate", "cycle", "takewhile", "dropwhile"):
                self.hset(c, "*", self.elems(a0))
            elif n == "pairwise":
                t = self.newc("tuple", fr, node, "#pw")
                self.hset(t, "*", self.elems(a0))
                self.hset(c, "*", {t})
            elif n == "chain" or n == "from_iterable":
                for a in args:
                    self.hset(c, "*", self.elems(a))
            elif n in ("product", "zip_longest"):
                t = self.newc("tuple", fr, node, "#prod")
                for i, a in enumerate(args):
                    self.hset(t, str(i), self.elems(a))
                self.hset(c, "*", {t})
            elif n == "repeat":
                self.hset(c, "*", a0)
            return {c}
        if d == "operator.attrgetter":
            n = node.args[0].value if node.args and isinstance(node.args[0], ast.Constant) else "?"
            return {("AG", n)}
        if d == "copy.deepcopy":
            return {("X", "deepcopy()")}  # a deep copy aliases nothing
        if d == "copy.copy":
            return set(a0)
        if d == "dataclasses.asdict":
            c = self.newc("dict", fr, node)
            for o in a0:
                if o[0] == "O":
                    for f in self.fields_of(o):
                        self.hset(c, "k:" + f, self.heap[(o, f)])
            return {c}
        if d == "dataclasses.field":
            return self.eval_default(node, fr.module)
        if d.startswith("heapq."):
            n = d.split(".")[-1]
            if n == "heappush" and len(args) > 1:
                for o in a0:
                    if o[0] == "C":
                        self.hset(o, "*", args[1])
                return set()
            if n in ("heappop", "heapreplace", "heappushpop", "nlargest", "nsmallest"):
                return self.elems(a0)
            return set()
        if d in ("typing.cast",):
            return args[1] if len(args) > 1 else set()
        if d in T.IDENTITY_FUNCS:
            return a0 | (kwargs.get("model", set()))
        if d.startswith("torch."):
            return self.call_torch(d, args, kwargs, node, fr)
        if method_on_opaque:
            # results of calls on opaque values stay opaque; keep the name bounded (no unbounded growth through recursion)
            root = d.split("()")[0]
            return {("X", root + "()" if "()" in d else d + "()")}
        head = d.split(".")[0]
        if head in ("json", "math", "time", "fractions", "enum", "logging", "operator", "typing", "abc", "collections"):
            return set()
        return {("X", d + "()")}

    def call_torch(self, d: str, args, kwargs, node, fr: Frame) -> set:
        a0 = args[0] if args else set()
        name = d.split(".")[-1]
        if self.recording:
            inplace = name.endswith("_") and not name.startswith("__")
            src = set().union(*(args[1:] if inplace else args), *kwargs.values()) if (args or kwargs) else set()
            self.record_read(fr, node, d, src)
        if d in T.CONTEXT_FUNCS or d in T.SCALAR_FUNCS:
            return set()
        if d.startswith("torch._foreach_"):
            if name.endswith("_"):
                self.record_write(fr, node, d, self.tensors(a0))
                return set()
            c = self.newc("tuple", fr, node)
            self.hset(c, "*", {self.fresh_t(fr, node)})
            return {c}
        if d.startswith("torch.distributed."):
            if d in ("torch.distributed.all_gather_into_tensor",):
                self.record_write(fr, node, d, self.tensors(a0), kind="collective")
                return set()
            if d in ("torch.distributed.tensor.zeros", "torch.distributed.tensor.ones", "torch.distributed.tensor.empty", "torch.distributed.tensor.full"):
                return {self.fresh_t(fr, node)}
            return {("X", d + "()")}
        if d in T.VIEW_FUNCS:
            ts = {o for o in a0 if o[0] == "T"}
            if name in ("split", "chunk", "unbind", "tensor_split"):
                c = self.newc("tuple", fr, node)
                self.hset(c, "*", ts)
                return {c}
            return ts
        if d in T.MAYBE_COPY_FUNCS:
            return {o for o in a0 if o[0] == "T"} | {self.fresh_t(fr, node)}
        if d.startswith("torch.backends") or d.startswith("torch.cuda") or d.startswith("torch.compiler"):
            return set()
        if name.endswith("_") and not name.startswith("_"):
            self.record_write(fr, node, d, self.tensors(a0))
            return {o for o in a0 if o[0] == "T"}
        if "out" in kwargs and self.tensors(kwargs["out"]):
            self.record_write(fr, node, d + "(out=)", self.tensors(kwargs["out"]))
        if d not in _KNOWN_FRESH_FUNCS:
            self.unknown_ops.add(d)
        return {self.fresh_t(fr, node)}

    # ================================================================== statements
    def assign(self, target: ast.AST, vals: set, fr: Frame, node: ast.AST | None = None) -> None:
        if isinstance(target, ast.Name):
            self.add(fr.env[target.id], vals)
        elif isinstance(target, (ast.Tuple, ast.List)):
            star = [i for i, t in enumerate(target.elts) if isinstance(t, ast.Starred)]
            for i, t in enumerate(target.elts):
                if isinstance(t, ast.Starred):
                    c = self.newc("list", fr, t)
                    self.hset(c, "*", self.elems(vals))
                    self.assign(t.value, {c}, fr)
                else:
                    idx = i if not star or i < star[0] else None
                    self.assign(t, self.read_index(vals, idx) if idx is not None else self.elems(vals), fr)
        elif isinstance(target, ast.Attribute):
            base = self.eval(target.value, fr)
            self.set_attr(base, target.attr, vals)
        elif isinstance(target, ast.Subscript):
            base = self.eval(target.value, fr)
            self.eval(target.slice, fr)
            key = self.const_key(target.slice, fr)
            for o in base:
                if o[0] == "C":
                    self.hset(o, "k:" + key if isinstance(key, str) else (str(key) if isinstance(key, int) and key >= 0 else "*"), vals)
                    if isinstance(key, int):
                        self.hset(o, "*", vals)
            conts = {o for o in base if o[0] == "C"}
            tens = {o for o in base if o[0] == "T"} if not isinstance(key, str) and not any(o[0] == "C" for o in base) else set()
            if conts:
                self.record_write(fr, node or target, "subscript-store", conts, kind="substore")
            if tens:
                self.record_write(fr, node or target, "setitem", tens)
        elif isinstance(target, ast.Starred):
            self.assign(target.value, vals, fr)

    def exec_block(self, stmts, fr: Frame) -> None:
        for st in stmts:
            self.exec_stmt(st, fr)

    def exec_stmt(self, st: ast.stmt, fr: Frame) -> None:
        if isinstance(st, ast.Assign):
            v = self.eval(st.value, fr)
            for t in st.targets:
                self.assign(t, v, fr, st)
        elif isinstance(st, ast.AnnAssign):
            if st.value is not None:
                self.assign(st.target, self.eval(st.value, fr), fr, st)
        elif isinstance(st, ast.AugAssign):
            v = self.eval(st.value, fr)
            cur = self.eval(st.target, fr)
            tens = {o for o in cur if o[0] == "T"}
            if tens:
                self.record_write(fr, st, "augassign:" + type(st.op).__name__, tens, kind="augassign")
            if isinstance(st.target, ast.Subscript):
                base = self.eval(st.target.value, fr)
                conts = {o for o in base if o[0] == "C"}
                if conts:
                    self.record_write(fr, st, "subscript-augstore", conts, kind="substore")
            # list += list  /  dict |= dict
            for o in cur:
                if o[0] == "C":
                    for s in v:
                        if s[0] == "C":
                            for f in self.fields_of(s):
                                self.hset(o, f if (o[1] == "dict" and f.startswith("k:")) else "*", self.heap[(s, f)])
            if isinstance(st.target, ast.Name):
                self.add(fr.env[st.target.id], {o for o in v if o[0] == "C"} if not tens else set())
        elif isinstance(st, ast.Expr):
            self.eval(st.value, fr)
        elif isinstance(st, ast.Return):
            self.add(fr.ret, self.eval(st.value, fr))
        elif isinstance(st, ast.If):
            self.eval(st.test, fr)
            t = self.truth(st.test, fr)
            tp = self.type_pred(st.test, fr)
            if tp is not None:
                name, pos, neg = tp
                self.with_narrow(fr, name, pos, lambda: self.exec_block(st.body, fr))
                self.with_narrow(fr, name, neg, lambda: self.exec_block(st.orelse, fr))
            else:
                if t is not False:
                    self.exec_block(st.body, fr)
                if t is not True:
                    self.exec_block(st.orelse, fr)
        elif isinstance(st, (ast.For, ast.AsyncFor)):
            self.assign(st.target, self.elems(self.eval(st.iter, fr)), fr)
            self.exec_block(st.body, fr)
            self.exec_block(st.orelse, fr)
        elif isinstance(st, ast.While):
            self.eval(st.test, fr)
            self.exec_block(st.body, fr)
            self.exec_block(st.orelse, fr)
        elif isinstance(st, (ast.With, ast.AsyncWith)):
            for it in st.items:
                v = self.eval(it.context_expr, fr)
                if it.optional_vars is not None:
                    self.assign(it.optional_vars, v, fr)
            self.exec_block(st.body, fr)
        elif isinstance(st, ast.Try):
            self.exec_block(st.body, fr)
            for h in st.handlers:
                self.exec_block(h.body, fr)
            self.exec_block(st.orelse, fr)
            self.exec_block(st.finalbody, fr)
        elif isinstance(st, ast.Assert):
            self.eval(st.test, fr)
        elif isinstance(st, ast.Raise):
            self.eval(st.exc, fr)
        elif isinstance(st, (ast.FunctionDef, ast.AsyncFunctionDef)):
            owner = fr.fi
            qual = None
            if owner is not None and st.name in owner.inner:
                qual = owner.inner[st.name].qual
            if qual is not None:
                self.add(fr.env[st.name], {("CL", qual, fr.key)})
        elif isinstance(st, ast.Delete):
            pass

    def run_frame(self, fr: Frame) -> None:
        node = fr.node
        if isinstance(node, ast.Lambda):
            self.add(fr.ret, self.eval(node.body, fr))
        elif isinstance(node, ast.Module):
            pass
        else:
            self.exec_block(node.body, fr)

    # ================================================================== driver
    def entry(self) -> None:
        repo = self.repo
        m = repo.modules.get("distributed_shampoo.distributed_shampoo")
        if m is None:
            raise AnalysisError("module distributed_shampoo.distributed_shampoo not found")
        drv = Frame(("driver",), ast.Module(body=[], type_ignores=[]), m, None, ())
        self.frames[drv.key] = drv
        self._driver = drv

    def run_driver(self) -> None:
        repo, drv = self.repo, self._driver
        node = drv.node

        def inst_all(base_qual: str, tagnode) -> set:
            out: set = set()
            base = repo.classes.get(base_qual)
            if base is None:
                return out
            for ci in repo.concrete_subclasses(base):
                out |= self.instantiate_config(ci, drv)
            return out

        graft = inst_all("distributed_shampoo.shampoo_types:GraftingConfig", node)
        dist = inst_all("distributed_shampoo.shampoo_types:DistributedConfig", node)
        prec = inst_all("distributed_shampoo.shampoo_types:PreconditionerConfig", node)
        ds = repo.classes.get("distributed_shampoo.distributed_shampoo:DistributedShampoo")
        if ds is None:
            raise AnalysisError("class DistributedShampoo not found")
        fake = ast.Call(func=ast.Name(id="DistributedShampoo"), args=[], keywords=[], lineno=0, col_offset=0)
        self._fake_call = getattr(self, "_fake_call", fake)
        plist = ("C", "list", "GROUP_PARAMS", ())
        opt = self.instantiate(
            ds,
            [{plist}],
            {"grafting_config": graft, "distributed_config": dist, "preconditioner_config": prec, "shampoo_pt2_compile_config": set()},
            self._fake_call,
            drv,
        )
        for meth in ("step", "distributed_state_dict", "load_distributed_state_dict"):
            fi = repo.lookup_method(ds, meth)
            if fi is None:
                raise AnalysisError(f"DistributedShampoo.{meth} not found")
            fn = self._fake_nodes.setdefault(meth, ast.Call(func=ast.Name(id=meth), args=[], keywords=[], lineno=0, col_offset=len(self._fake_nodes) + 1))
            for o in opt:
                kw = {}
                if meth == "load_distributed_state_dict":
                    sd = ("C", "dict", "LOADED_STATE_DICT", ())
                    inner = ("C", "dict", "LOADED_INNER", ())
                    self.hset(sd, "*", {inner})
                    self.hset(inner, "*", {inner, ("T", "LOADED")})
                    kw = {"state_dict": {sd}}
                self.call_func(fi, o, [], kw, fn, drv)
        # public matrix-function entry points (also reached from the preconditioner lists)
        mf = repo.modules.get("matrix_functions")
        if mf is not None:
            for name in ("matrix_inverse_root", "matrix_eigenvectors", "check_diagonal", "compute_matrix_root_inverse_residuals"):
                if name in mf.functions:
                    fn = self._fake_nodes.setdefault("mf:" + name, ast.Call(func=ast.Name(id=name), args=[], keywords=[], lineno=0, col_offset=100 + len(self._fake_nodes)))
                    a = ("T", "MF_INPUT")
                    cfgs = inst_all("matrix_functions_types:MatrixFunctionConfig", node)
                    kw = {"A": {a}, "X_hat": {a}, "eigenvectors_estimate": {("T", "MF_ESTIMATE")}, "root_inv_config": cfgs, "eigenvector_computation_config": cfgs}
                    fi = mf.functions[name]
                    self.call_func(fi, None, [], {k: v for k, v in kw.items() if k in fi.params}, fn, drv)

    def instantiate_config(self, ci: ClassInfo, drv: Frame) -> set:
        fn = self._fake_nodes.setdefault("cfg:" + ci.qual, ast.Call(func=ast.Name(id=ci.name), args=[], keywords=[], lineno=0, col_offset=1000 + len(self._fake_nodes)))
        objs = self.instantiate(ci, [], {}, fn, drv)
        for o in objs:
            for n, ann, dflt, owner in self.repo.all_fields(ci):
                if n == "amortized_computation_config":
                    base = "matrix_functions_types:RootInvConfig" if "Eigenvalue" not in ci.name else "matrix_functions_types:EigenvectorConfig"
                    b = self.repo.classes.get(base)
                    if b is not None:
                        for sub in self.repo.concrete_subclasses(b):
                            fn2 = self._fake_nodes.setdefault("cfg:" + sub.qual, ast.Call(func=ast.Name(id=sub.name), args=[], keywords=[], lineno=0, col_offset=1000 + len(self._fake_nodes)))
                            self.hset(o, n, self.instantiate(sub, [], {}, fn2, drv))
                elif n == "device_mesh":
                    self.hset(o, n, {("X", "DeviceMesh")})
                elif n == "param_to_metadata":
                    self.hset(o, n, {("X", "param_to_metadata")})
        return objs

    def solve(self) -> "PointsTo":
        self._fake_nodes: dict[str, ast.Call] = {}
        self.entry()
        for it in range(80):
            self.changed = False
            self.run_driver()
            for fr in list(self.frames.values()):
                if fr is not self._driver:
                    self.run_frame(fr)
            if not self.changed:
                break
        else:
            raise AnalysisError("points-to analysis did not reach a fixpoint in 80 iterations")
        self.iterations = it + 1
        # final recording pass
        self.recording = True
        self.run_driver()
        for fr in list(self.frames.values()):
            if fr is not self._driver:
                self.run_frame(fr)
        self.recording = False
        self.writes = self._merge_events(self.writes)
        self.substores = self._merge_events(self.substores)
        self.reads = self._merge_events(self.reads)
        self._index_frames()
        return self

    @staticmethod
    def _merge_events(evs: list) -> list:
        """One event per (function, AST node, op): the analysis visits a node once per calling context."""
        merged: dict[tuple, WriteEvent] = {}
        for e in evs:
            k = (e.func, id(e.node), e.op, e.kind)
            if k in merged:
                merged[k].dst = frozenset(merged[k].dst | e.dst)
            else:
                merged[k] = e
        return list(merged.values())

    # ================================================================== queries
    def _index_frames(self) -> None:
        self.frames_by_func: dict[str, list[Frame]] = defaultdict(list)
        for fr in self.frames.values():
            if fr.fi is not None:
                self.frames_by_func[fr.fi.qual].append(fr)

    def frames_of(self, qual: str) -> list[Frame]:
        return self.frames_by_func.get(qual, [])

    def expr(self, qual: str, node: ast.AST, selfcls: str | None = None) -> set:
        """Points-to set of expression `node` (inside function `qual`) joined over all analysed contexts."""
        out: set = set()
        for fr in self.frames_of(qual):
            if selfcls is not None and (fr.selfcls is None or fr.selfcls.qual != selfcls):
                continue
            out |= self.eval(node, fr)
        return out

    def var(self, qual: str, name: str) -> set:
        out: set = set()
        for fr in self.frames_of(qual):
            out |= fr.env.get(name, set())
        return out

    def objects_of_class(self, cls_qual: str) -> set:
        out = set()
        for (o, f) in self.heap:
            if o[0] == "O" and o[1] == cls_qual:
                out.add(o)
        for fr in self.frames.values():
            for vs in fr.env.values():
                for o in vs:
                    if o[0] == "O" and o[1] == cls_qual:
                        out.add(o)
        return out

    def attr(self, cls_qual: str, attr: str) -> set:
        out: set = set()
        for o in self.objects_of_class(cls_qual):
            out |= self.heap.get((o, attr), set())
        return out

    def state_kinds(self) -> dict[tuple, set[str]]:
        """tensor storage -> set of state-kind labels (last attribute / constant key on a heap path from the optimizer state root)."""
        kinds: dict[tuple, set[str]] = defaultdict(set)
        seen: set = set()
        stack = [(STATE_ROOT, "")]
        by_obj: dict[tuple, list[tuple[str, set]]] = defaultdict(list)
        for (o, f), vals in self.heap.items():
            by_obj[o].append((f, vals))
        while stack:
            o, label = stack.pop()
            if (o, label) in seen:
                continue
            seen.add((o, label))
            if o[0] == "T":
                kinds[o].add(label or "?")
                continue
            for f, vals in by_obj.get(o, []):
                if f.startswith("k:"):
                    nl = f[2:]
                elif f == "*" or f.isdigit():
                    nl = label
                else:
                    nl = f
                for v in vals:
                    if v[0] in ("T", "C", "O"):
                        stack.append((v, nl))
        return dict(kinds)

    def callees(self, qual: str, node: ast.AST) -> set[str]:
        return self.calls.get((qual, id(node)), set())

    def call_graph(self) -> dict[str, set[str]]:
        g: dict[str, set[str]] = defaultdict(set)
        for (caller, _), cs in self.calls.items():
            g[caller] |= cs
        return g

    def reachable_funcs(self, roots: list[str]) -> set[str]:
        g = self.call_graph()
        seen: set[str] = set()
        stack = list(roots)
        while stack:
            q = stack.pop()
            if q in seen:
                continue
            seen.add(q)
            stack.extend(g.get(q, ()))
        return seen


_NOT_TENSOR_METHODS = {
    "items", "values", "keys", "get", "setdefault", "append", "extend", "update", "pop", "state_dict", "load_state_dict", "insert",
    "join", "format", "startswith", "endswith", "lower", "upper", "strip",
}
_KNOWN_FRESH_METHODS = {
    "clone", "add", "sub", "mul", "div", "square", "sqrt", "norm", "pow", "any", "all", "isnan", "isinf", "argsort", "triu", "tril", "abs",
    "sum", "mean", "max", "min", "neg", "exp", "log", "matmul", "mm", "dot", "lerp", "addcmul", "addcdiv", "clamp", "eq", "ne", "lt", "gt", "le", "ge",
    "new_zeros", "new_ones", "new_empty", "new_tensor", "zeros_like", "outer", "trace", "inverse", "numpy", "sort", "topk", "cumsum", "prod", "sign",
    "maximum", "minimum", "reciprocal", "rsqrt", "dist", "masked_fill", "where", "index_select", "gather", "repeat", "tile", "roll", "flip", "nonzero",
}
_KNOWN_FRESH_FUNCS = {
    "torch.add", "torch.addmm", "torch.diag", "torch.dist", "torch.einsum", "torch.eye", "torch.isinf", "torch.isnan", "torch.linalg.eigh",
    "torch.linalg.matrix_norm", "torch.linalg.matrix_power", "torch.linalg.norm", "torch.linalg.qr", "torch.linalg.vector_norm", "torch.max", "torch.min",
    "torch.minimum", "torch.maximum", "torch.norm", "torch.ones_like", "torch.zeros_like", "torch.tensor", "torch.tensordot", "torch.trace", "torch.zeros",
    "torch.ones", "torch.empty", "torch.full", "torch.matmul", "torch.mm", "torch.sqrt", "torch.square", "torch.clone", "torch.cat", "torch.stack",
    "torch.where", "torch.abs", "torch.sum", "torch.mean", "torch.mul", "torch.div", "torch.sub", "torch.pow", "torch.exp", "torch.log", "torch.outer",
    "torch.arange", "torch.linspace", "torch.rand", "torch.randn", "torch.lerp", "torch.addcmul", "torch.addcdiv", "torch.linalg.svd", "torch.linalg.inv",
    "torch.linalg.cholesky", "torch.linalg.eigvalsh", "torch.empty_like", "torch.full_like", "torch.rand_like", "torch.randn_like", "torch.triu", "torch.tril",
}
