"""E7 — dispatch tables: ordered `type(x) is C` / `type(x) in (...)` / `isinstance(x, ...)` / `x is None` /
`x == Enum.MEMBER` arms of an if/elif chain, evaluated with first-match semantics for every concrete class of
the tested hierarchy using the real MRO."""

from __future__ import annotations

import ast
from dataclasses import dataclass

from .loader import AnalysisError, ClassInfo, ModuleInfo, Repo


@dataclass
class Arm:
    kind: str  # type_is | isinstance | is_none | is_not_none | eq | other | else
    subject: str  # normalised subject expression
    classes: list[ClassInfo]
    unresolved: list[str]
    body: list[ast.stmt]
    test: ast.AST | None
    node: ast.AST
    eq_value: str | None = None

    def matches(self, repo: Repo, ci: ClassInfo | None) -> bool | None:
        """Does a value whose concrete class is `ci` (None = the value None) take this arm?  None = cannot tell."""
        if self.kind == "else":
            return True
        if self.kind == "is_none":
            return ci is None
        if self.kind == "is_not_none":
            return ci is not None
        if ci is None:
            return False if self.kind in ("type_is", "isinstance") else None
        if self.kind == "type_is":
            return ci in self.classes
        if self.kind == "isinstance":
            return any(repo.is_subclass(ci, c) for c in self.classes)
        return None


def classify_test(repo: Repo, m: ModuleInfo, test: ast.AST) -> tuple[str, str, list[ClassInfo], list[str], str | None]:
    def resolve_classes(e: ast.AST) -> tuple[list[ClassInfo], list[str]]:
        elts = e.elts if isinstance(e, (ast.Tuple, ast.List, ast.Set)) else [e]
        cs, un = [], []
        for x in elts:
            d = repo.dotted_of(m, x)
            ci = repo.class_by_dotted(d) if d else None
            if ci is not None:
                cs.append(ci)
            else:
                un.append(ast.unparse(x))
        return cs, un

    if isinstance(test, ast.Compare) and len(test.ops) == 1:
        op, left, right = test.ops[0], test.left, test.comparators[0]
        if isinstance(op, (ast.Is, ast.IsNot)) and isinstance(right, ast.Constant) and right.value is None:
            return ("is_none" if isinstance(op, ast.Is) else "is_not_none"), ast.unparse(left), [], [], None
        if isinstance(left, ast.Call) and isinstance(left.func, ast.Name) and left.func.id == "type" and len(left.args) == 1:
            subj = ast.unparse(left.args[0])
            if isinstance(op, (ast.Is, ast.Eq)):
                cs, un = resolve_classes(right)
                return "type_is", subj, cs, un, None
            if isinstance(op, ast.In):
                cs, un = resolve_classes(right)
                return "type_is", subj, cs, un, None
        if isinstance(op, ast.Eq):
            return "eq", ast.unparse(left), [], [], ast.unparse(right)
    if isinstance(test, ast.Call) and isinstance(test.func, ast.Name) and test.func.id == "isinstance" and len(test.args) == 2:
        cs, un = resolve_classes(test.args[1])
        return "isinstance", ast.unparse(test.args[0]), cs, un, None
    return "other", ast.unparse(test), [], [], None


def extract_chain(repo: Repo, m: ModuleInfo, node: ast.If) -> list[Arm]:
    arms: list[Arm] = []
    cur: ast.stmt | None = node
    while isinstance(cur, ast.If):
        kind, subj, cs, un, eqv = classify_test(repo, m, cur.test)
        arms.append(Arm(kind, subj, cs, un, cur.body, cur.test, cur, eqv))
        if len(cur.orelse) == 1 and isinstance(cur.orelse[0], ast.If):
            cur = cur.orelse[0]
        else:
            if cur.orelse:
                arms.append(Arm("else", subj, [], [], cur.orelse, None, cur.orelse[0]))
            cur = None
    return arms


def _expand_tests(func: ast.AST, node: ast.If) -> ast.If:
    """Copy of an if/elif chain whose tests have the function's pure single-assignment locals spelled out, so that
    `t = type(x)` ; `if t is A: ... elif t is B: ...` reads as a dispatch on type(x)."""
    import copy

    from . import astutil as A

    new = copy.copy(node)
    try:
        new.test = ast.parse(A.expanded(func, node.test), mode="eval").body
        ast.copy_location(new.test, node.test)
    except SyntaxError:
        pass
    if len(node.orelse) == 1 and isinstance(node.orelse[0], ast.If):
        new.orelse = [_expand_tests(func, node.orelse[0])]
    return new


def find_chains(repo: Repo, m: ModuleInfo, func: ast.AST, min_arms: int = 2) -> list[list[Arm]]:
    """All maximal if/elif chains in `func` that dispatch on a type / None test (tests read with local aliases expanded)."""
    out = []
    inner: set[int] = set()
    for n in ast.walk(func):
        if isinstance(n, ast.If) and id(n) not in inner:
            chain = extract_chain(repo, m, _expand_tests(func, n))
            cur = n
            while len(cur.orelse) == 1 and isinstance(cur.orelse[0], ast.If):
                cur = cur.orelse[0]
                inner.add(id(cur))
            if len(chain) >= min_arms and any(a.kind in ("type_is", "isinstance") for a in chain):
                out.append(chain)
    return out


def first_match(repo: Repo, chain: list[Arm], ci: ClassInfo | None) -> Arm | None:
    for a in chain:
        r = a.matches(repo, ci)
        if r is None:
            raise AnalysisError(f"dispatch arm with an unsupported test: {ast.unparse(a.test) if a.test is not None else a.kind}")
        if r:
            return a
    return None


def body_raises(repo: Repo, m: ModuleInfo, body: list[ast.stmt]) -> str | None:
    """Name of the exception unconditionally raised by the first statement of body, if any."""
    for st in body:
        if isinstance(st, ast.Raise):
            exc = st.exc.func if isinstance(st.exc, ast.Call) else st.exc
            return ast.unparse(exc) if exc is not None else "re-raise"
        if isinstance(st, ast.Expr) and isinstance(st.value, ast.Constant):
            continue
        break
    return None


def hypothetical_subclass(repo: Repo, ci: ClassInfo) -> ClassInfo:
    """A user-defined subclass of `ci` that the repository does not know: exact-type dispatch must not match it."""
    sub = ClassInfo(ci.qual + "<user subclass>", ci.name + "Subclass", ci.node, ci.module, bases=[ci])
    sub._mro = [sub] + list(repo.mro(ci))
    return sub


def unknown_subclasses_rejected(repo: Repo, m: ModuleInfo, chain: list[Arm], concrete: list[ClassInfo]) -> list[tuple[str, str]]:
    """[(class name, what happens)] for hypothetical subclasses that do NOT reach `raise NotImplementedError`."""
    bad = []
    for ci in concrete:
        sub = hypothetical_subclass(repo, ci)
        arm = first_match(repo, chain, sub)
        if arm is None:
            bad.append((sub.name, "falls off the chain"))
        elif body_raises(repo, m, arm.body) != "NotImplementedError":
            bad.append((sub.name, f"taken by arm `{ast.unparse(arm.test) if arm.test is not None else 'else'}`"))
    return bad
