import sys

from .driver import main

sys.exit(main())
