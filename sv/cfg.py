"""E2 — statement-level control-flow graph for one function.

Nodes are simple statements, branch tests (`if`/`while` tests, `for` headers), exception handlers and
synthetic entry / exit / raise-exit nodes.  Supported: if/elif/else, for/while with else, break/continue,
return, raise, try/except/else/finally (finally bodies are duplicated per continuation kind), with, assert.
Implicit exceptions are modelled only inside `try` bodies (edge from every statement of the body to every
handler), which is what the rules need.
"""

from __future__ import annotations

import ast
from dataclasses import dataclass, field
from typing import Callable, Iterable


@dataclass(eq=False)
class Node:
    kind: str  # entry | exit | rexit | stmt | test | loop | handler | with | join
    ast: ast.AST | None = None
    succ: list[tuple["Node", str]] = field(default_factory=list)
    pred: list["Node"] = field(default_factory=list)
    idx: int = -1

    @property
    def lineno(self) -> int:
        return getattr(self.ast, "lineno", 0)

    def __repr__(self) -> str:
        return f"<{self.kind}#{self.idx}@{self.lineno}>"


class CFG:
    def __init__(self, func: ast.AST) -> None:
        self.func = func
        self.nodes: list[Node] = []
        self.entry = self._new("entry")
        self.exit = self._new("exit")
        self.rexit = self._new("rexit")
        body = func.body if not isinstance(func, ast.Lambda) else [ast.Return(value=func.body)]
        out = self._seq(body, [(self.entry, "")], _Ctx())
        for n, lab in out:
            self._edge(n, self.exit, lab)
        for n in self.nodes:
            for s, _ in n.succ:
                s.pred.append(n)

    # ---------------------------------------------------------------- construction
    def _new(self, kind: str, node: ast.AST | None = None) -> Node:
        n = Node(kind, node, idx=len(self.nodes))
        self.nodes.append(n)
        return n

    @staticmethod
    def _edge(a: Node, b: Node, label: str = "") -> None:
        if (b, label) not in a.succ:
            a.succ.append((b, label))

    def _link(self, dangling: list[tuple[Node, str]], to: Node) -> None:
        for n, lab in dangling:
            self._edge(n, to, lab)

    def _seq(self, stmts: list[ast.stmt], dangling: list[tuple[Node, str]], ctx: "_Ctx") -> list[tuple[Node, str]]:
        for st in stmts:
            if not dangling:
                break  # unreachable code
            dangling = self._stmt(st, dangling, ctx)
        return dangling

    def _raise_targets(self, ctx: "_Ctx") -> list[Node]:
        """Where does an exception raised here go? (innermost try's handlers, else raise-exit via finallys)"""
        return ctx.exc_targets if ctx.exc_targets is not None else [self.rexit]

    def _stmt(self, st: ast.stmt, dangling: list[tuple[Node, str]], ctx: "_Ctx") -> list[tuple[Node, str]]:
        if isinstance(st, ast.If):
            t = self._new("test", st)
            self._link(dangling, t)
            a = self._seq(st.body, [(t, "T")], ctx)
            b = self._seq(st.orelse, [(t, "F")], ctx) if st.orelse else [(t, "F")]
            return a + b
        if isinstance(st, (ast.While, ast.For, ast.AsyncFor)):
            h = self._new("loop", st)
            self._link(dangling, h)
            lctx = ctx.child(loop_head=h, breaks=[])
            body_out = self._seq(st.body, [(h, "T")], lctx)
            self._link(body_out, h)
            else_out = self._seq(st.orelse, [(h, "F")], ctx) if st.orelse else [(h, "F")]
            return else_out + [(n, "break") for n in lctx.breaks]
        if isinstance(st, ast.Break):
            n = self._new("stmt", st)
            self._link(dangling, n)
            ctx.breaks.append(n)
            return []
        if isinstance(st, ast.Continue):
            n = self._new("stmt", st)
            self._link(dangling, n)
            self._edge(n, ctx.loop_head, "continue")
            return []
        if isinstance(st, ast.Return):
            n = self._new("stmt", st)
            self._link(dangling, n)
            if ctx.in_try:
                for t in self._raise_targets(ctx):
                    self._edge(n, t, "exc")
            out = [(n, "return")]
            for fin in reversed(ctx.finallys):
                out = self._seq(fin.body, out, fin.ctx)
            self._link(out, self.exit)
            return []
        if isinstance(st, ast.Raise):
            n = self._new("stmt", st)
            self._link(dangling, n)
            self._raise_out(n, ctx)
            return []
        if isinstance(st, ast.Try):
            return self._try(st, dangling, ctx)
        if isinstance(st, (ast.With, ast.AsyncWith)):
            n = self._new("with", st)
            self._link(dangling, n)
            if ctx.in_try:
                for t in self._raise_targets(ctx):
                    self._edge(n, t, "exc")
            return self._seq(st.body, [(n, "")], ctx)
        if isinstance(st, (ast.FunctionDef, ast.AsyncFunctionDef, ast.ClassDef)):
            n = self._new("stmt", st)
            self._link(dangling, n)
            return [(n, "")]
        # simple statement
        n = self._new("stmt", st)
        self._link(dangling, n)
        if ctx.in_try:
            for t in self._raise_targets(ctx):
                self._edge(n, t, "exc")
        return [(n, "")]

    def _raise_out(self, n: Node, ctx: "_Ctx | None") -> None:
        """Route an explicit raise: to the handlers of the innermost enclosing try (and, unless one of them
        catches everything, further out), else out of the function through the enclosing finally bodies."""
        while ctx is not None and ctx.exc_targets is not None:
            for t in ctx.exc_targets:
                self._edge(n, t, "raise")
            if ctx.catch_all:
                return
            ctx = ctx.outer_after_try
        out = [(n, "raise")]
        for fin in reversed(ctx.finallys if ctx is not None else []):
            out = self._seq(fin.body, out, fin.ctx)
        self._link(out, self.rexit)

    def _try(self, st: ast.Try, dangling: list[tuple[Node, str]], ctx: "_Ctx") -> list[tuple[Node, str]]:
        fin = _Fin(st.finalbody, ctx) if st.finalbody else None
        inner = ctx.child(finallys=ctx.finallys + [fin]) if fin else ctx
        handlers = [self._new("handler", h) for h in st.handlers]
        catch_all = any(
            h.type is None or (isinstance(h.type, ast.Name) and h.type.id in ("Exception", "BaseException")) for h in st.handlers
        )
        body_ctx = inner.child(exc_targets=handlers, in_try=True, catch_all=catch_all, outer_after_try=inner) if handlers else inner
        out = self._seq(st.body, dangling, body_ctx)
        if st.orelse:
            out = self._seq(st.orelse, out, inner)
        for h, hn in zip(st.handlers, handlers):
            out = out + self._seq(h.body, [(hn, "")], inner)
        if fin:
            out = self._seq(fin.body, out, ctx)
        return out

    # ---------------------------------------------------------------- queries
    def stmt_nodes(self) -> Iterable[Node]:
        return (n for n in self.nodes if n.ast is not None)

    def find(self, pred: Callable[[Node], bool]) -> list[Node]:
        return [n for n in self.nodes if pred(n)]

    def node_of(self, a: ast.AST) -> Node | None:
        """CFG node whose statement contains AST node `a`."""
        best = None
        for n in self.nodes:
            if n.ast is None:
                continue
            roots: list[ast.AST]
            if n.kind in ("test",):
                roots = [n.ast.test]
            elif n.kind == "loop":
                roots = [n.ast.test] if isinstance(n.ast, ast.While) else [n.ast.target, n.ast.iter]
            elif n.kind == "with":
                roots = [i.context_expr for i in n.ast.items]
            elif n.kind == "handler":
                roots = [n.ast.type] if n.ast.type is not None else []
            else:
                roots = [n.ast]
            for r in roots:
                for sub in ast.walk(r):
                    if sub is a:
                        best = n
                        return best
        return best

    def reachable(self, src: Node, avoid: Callable[[Node], bool] | None = None, labels_ok: Callable[[Node, Node, str], bool] | None = None) -> set[Node]:
        seen: set[Node] = set()
        stack = [src]
        while stack:
            n = stack.pop()
            if n in seen:
                continue
            seen.add(n)
            for s, lab in n.succ:
                if avoid is not None and avoid(s):
                    continue
                if labels_ok is not None and not labels_ok(n, s, lab):
                    continue
                stack.append(s)
        return seen

    def all_paths_pass(self, src: Node, targets: Iterable[Node], through: Callable[[Node], bool]) -> bool:
        """True iff every path from src to any target contains (strictly after src) a node satisfying `through`
        (before or at the target)."""
        tset = set(targets)
        seen: set[Node] = set()
        stack = [s for s, _ in src.succ]
        while stack:
            n = stack.pop()
            if n in seen:
                continue
            seen.add(n)
            if through(n):
                continue
            if n in tset:
                return False
            stack.extend(s for s, _ in n.succ)
        return True

    def dominators(self) -> dict[Node, set[Node]]:
        reach = self.reachable(self.entry)
        nodes = [n for n in self.nodes if n in reach]
        dom = {n: set(nodes) for n in nodes}
        dom[self.entry] = {self.entry}
        changed = True
        while changed:
            changed = False
            for n in nodes:
                if n is self.entry:
                    continue
                preds = [p for p in n.pred if p in reach]
                new = set.intersection(*(dom[p] for p in preds)) if preds else set()
                new = new | {n}
                if new != dom[n]:
                    dom[n] = new
                    changed = True
        return dom

    def dominates(self, a: Node, b: Node) -> bool:
        if not hasattr(self, "_dom"):
            self._dom = self.dominators()
        return b in self._dom and a in self._dom[b]

    def branch_conditions(self, n: Node) -> list[tuple[Node, str]]:
        """(test node, label) pairs that control-dominate n: every path entry→n takes edge `label` out of test."""
        out = []
        for t in self.nodes:
            if t.kind not in ("test", "loop") or t is n:
                continue
            if not self.dominates(t, n):
                continue
            for lab in {l for _, l in t.succ}:
                # n unreachable from t when only the *other* labelled edges are allowed  => lab is required
                others = self.reachable(t, labels_ok=lambda a, b, l, t=t, lab=lab: not (a is t and l == lab))
                if n not in others:
                    out.append((t, lab))
        return out


class _Fin:
    def __init__(self, body: list[ast.stmt], ctx: "_Ctx") -> None:
        self.body = body
        self.ctx = ctx


class _Ctx:
    def __init__(self, loop_head=None, breaks=None, exc_targets=None, in_try=False, finallys=None, catch_all=False, outer_after_try=None):
        self.loop_head = loop_head
        self.breaks = breaks
        self.exc_targets = exc_targets
        self.in_try = in_try
        self.finallys = finallys or []
        self.catch_all = catch_all
        self.outer_after_try = outer_after_try

    def child(self, **kw) -> "_Ctx":
        d = dict(loop_head=self.loop_head, breaks=self.breaks, exc_targets=self.exc_targets, in_try=self.in_try, finallys=self.finallys, catch_all=self.catch_all, outer_after_try=self.outer_after_try)
        d.update(kw)
        return _Ctx(**d)
