"""Obligation bookkeeping shared by all rules (E10 support)."""

from __future__ import annotations

from dataclasses import dataclass, field


class NotShown(Exception):
    """An equality the rule must establish cannot be established because the code leaves the interpreted sub-language:
    an unproved obligation (a violation), not an analysis failure — the documented recurrence has no such construct."""

    def __init__(self, rule: str, key: str, where: str, detail: str) -> None:
        super().__init__(detail)
        self.rule, self.key, self.where, self.detail = rule, key, where, detail


@dataclass
class Obligation:
    rule: str  # e.g. "C01.1"
    key: str  # stable finding key: construct-level, no line numbers
    ok: bool
    where: str  # file:line (diagnostic only, not part of the key)
    detail: str = ""
    nontrivial: bool = True


@dataclass
class Report:
    prop: str
    obligations: list[Obligation] = field(default_factory=list)
    floors: list[tuple[str, str, int, int]] = field(default_factory=list)  # (rule, anchor, matched, minimum)
    samples: list[dict] = field(default_factory=list)
    notes: dict[str, object] = field(default_factory=dict)
    assumptions: list[str] = field(default_factory=list)
    rules: dict[str, str] = field(default_factory=dict)  # rule id -> one-line statement
    errors: list[str] = field(default_factory=list)  # rules that could not be carried out (do not mask other rules' findings)

    def attempt(self, what: str, fn, *args, **kw) -> None:
        """Run one rule group; an AnalysisError in it is recorded (exit 2 unless another rule reports a violation)."""
        from .loader import AnalysisError

        try:
            fn(*args, **kw)
        except NotShown as e:
            self.ob(e.rule, e.key, False, e.where, e.detail)
        except AnalysisError as e:
            self.errors.append(f"{what}: {e}")
        except Exception as e:  # a rule group must not take the other groups' findings down with it
            from .guards import Raised, Returned, Unsupported

            if isinstance(e, (Raised, Returned, Unsupported)):
                self.errors.append(f"{what}: interpreted fragment left the rule's sub-language ({type(e).__name__}: {e})")
            else:
                raise

    def rule(self, rid: str, text: str) -> None:
        self.rules[rid] = text

    def ob(self, rule: str, key: str, ok: bool, where: str, detail: str = "", nontrivial: bool = True, sample: bool = False) -> bool:
        self.obligations.append(Obligation(rule, key, bool(ok), where, detail, nontrivial))
        if sample or (not ok):
            self.samples.append({"rule": rule, "key": key, "where": where, "verdict": "ok" if ok else "VIOLATED", "detail": detail})
        return bool(ok)

    def floor(self, rule: str, anchor: str, matched: int, minimum: int = 1) -> None:
        self.floors.append((rule, anchor, matched, minimum))

    def assume(self, text: str) -> None:
        if text not in self.assumptions:
            self.assumptions.append(text)

    def floor_failures(self) -> list[tuple[str, str, int, int]]:
        return [f for f in self.floors if f[2] < f[3]]
