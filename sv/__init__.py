"""sv — repository-specific static verifier for facebookresearch/optimizers (stdlib `ast` only)."""
