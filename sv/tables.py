"""Frozen semantic tables (trusted base).  One line per entry; confirmed by reading torch 2.5.1 docs/sources.

Conventions of torch relied upon for names NOT in a table (recorded in evidence as `unknown_ops`):
a Tensor method / torch function whose name ends in `_` mutates its first operand in place and returns it;
any other returns a fresh tensor.
"""

# --- Tensor methods -------------------------------------------------------------------------------------------
# result shares storage with the receiver on every input
VIEW_METHODS = {
    "view", "view_as", "narrow", "permute", "detach", "split", "chunk", "unbind", "t", "transpose", "swapaxes", "movedim",
    "unsqueeze", "squeeze", "diagonal", "to_local", "expand", "expand_as", "select", "as_strided", "unfold", "tensor_split",
    "requires_grad_", "share_memory_", "pin_memory_", "wait",
}
# result shares storage for some inputs and is a copy for others
MAYBE_COPY_METHODS = {
    "to", "reshape", "reshape_as", "contiguous", "double", "float", "half", "bfloat16", "type", "type_as", "cpu", "cuda",
    "flatten", "ravel", "int", "long", "bool", "full_tensor", "redistribute",
}
# returns a python scalar / shape / non-tensor
SCALAR_METHODS = {
    "item", "numel", "dim", "size", "tolist", "element_size", "nelement", "ndimension", "stride", "storage_offset", "data_ptr",
    "is_contiguous", "is_floating_point", "get_device", "type_name", "untyped_storage", "__len__",
}
# tensor attributes that are views of the receiver
VIEW_ATTRS = {"T", "mT", "H", "mH", "real", "imag", "data", "Q", "R", "U", "S", "V", "Vh", "L", "eigenvalues", "eigenvectors", "values", "indices", "_local_tensor"}

# --- torch functions (dotted, import-resolved) ----------------------------------------------------------------
VIEW_FUNCS = {"torch.split", "torch.diagonal", "torch.narrow", "torch.chunk", "torch.unbind", "torch.transpose", "torch.squeeze", "torch.unsqueeze", "torch.permute", "torch.t", "torch.view_as_real", "torch.detach", "torch.tensor_split"}
MAYBE_COPY_FUNCS = {"torch.as_tensor", "torch.reshape", "torch.flatten", "torch.asarray", "torch.from_numpy", "torch.atleast_1d", "torch.atleast_2d"}
IDENTITY_FUNCS = {"torch.compile", "typing.cast", "torch.compiler.disable", "torch.no_grad"}  # returns its (first / second for cast) callable/value argument
CONTEXT_FUNCS = {"torch.no_grad", "torch.enable_grad", "torch.autograd.profiler.record_function", "torch.set_printoptions"}
SCALAR_FUNCS = {"torch.numel", "torch.device", "torch.finfo", "torch.iinfo", "torch.is_tensor", "torch.get_default_dtype"}

# collective-effect calls (E5 sinks).  creates_group: the call creates process groups / must be executed by all ranks collectively.
COLLECTIVE_SINKS = {
    "torch.distributed.new_group": "creates a process group (collective over the default group)",
    "torch.distributed.new_subgroups": "creates process groups for all subgroups (collective over the default group)",
    "torch.distributed.new_subgroups_by_enumeration": "creates process groups (collective)",
    "torch.distributed.device_mesh.DeviceMesh": "DeviceMesh(...) creates process groups for every mesh dimension (collective over the default group)",
    "torch.distributed.device_mesh.init_device_mesh": "creates a DeviceMesh with process groups (collective)",
    "torch.distributed.init_device_mesh": "creates a DeviceMesh with process groups (collective)",
    "torch.distributed.all_gather_into_tensor": "all-gather collective over its group",
    "torch.distributed.all_gather": "all-gather collective over its group",
    "torch.distributed.all_reduce": "all-reduce collective over its group",
    "torch.distributed.broadcast": "broadcast collective over its group",
    "torch.distributed.barrier": "barrier collective over its group",
    "torch.distributed.reduce_scatter_tensor": "reduce-scatter collective",
}
# looked at and recorded as NOT creating groups / not collective (trusted base, torch 2.5.1)
NON_COLLECTIVE = {
    "torch.distributed.device_mesh._mesh_resources._get_all_submeshes": "builds sub-meshes with _init_backend=False: no process group is created",
    "torch.distributed.get_rank": "local query",
    "torch.distributed.get_world_size": "local query",
    "torch.distributed.is_initialized": "local query",
    "torch.distributed.get_process_group_ranks": "local query",
    "torch.distributed.tensor.zeros": "allocates a local shard on an existing mesh; no collective for Replicate placement",
    "torch.distributed.tensor.Replicate": "placement object",
}
# rank-variant sources (E5)
RANK_SOURCES = {
    "torch.distributed.get_rank": "this process's rank",
    "torch.distributed.get_node_local_rank": "this process's node-local rank",
}
RANK_SOURCE_METHODS = {"get_local_rank": "DeviceMesh.get_local_rank: this process's coordinate", "get_rank": "rank query", "get_coordinate": "DeviceMesh.get_coordinate"}

# operations that require all tensor operands to have the same dtype (E9)
SAME_DTYPE_BINOPS = {"MatMult"}
SAME_DTYPE_FUNCS = {"torch.matmul", "torch.mm", "torch.bmm", "torch.addmm", "torch.tensordot", "torch.einsum", "torch.linalg.solve", "torch.dot", "torch.mv", "torch.linalg.multi_dot", "torch.chain_matmul", "torch.baddbmm", "torch.addmv", "torch.kron"}
SAME_DTYPE_METHODS = {"matmul", "mm", "bmm", "addmm", "addmm_", "tensordot", "dot", "mv"}
