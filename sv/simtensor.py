"""A small model of tensors as *views of byte storage*, for interpreting (sv.guards.Interp) the buffer-layout code of the
distributors on concrete cases without torch: which storage a tensor lives in, at which byte offset, how many bytes, with
which dtype and shape.  Values are never modelled — only layout — so two pieces of code agree in this model iff they build
the same views of the same allocations in the same order.

Supported: torch.zeros / empty(+.zero_()) / ones (a new storage), torch.split / Tensor.split (int or list, dim 0 of a 1-D
tensor), Tensor.view(dtype) (reinterpretation), Tensor.view(shape) / view(-1) (same bytes), 1-D slicing, narrow, detach,
numel / size / shape / dim / ndim / dtype / device / element_size, plus the repository's pure utilities get_dtype_size and
compress_list, and calls of methods of the same class (interpreted recursively).  Anything else is Unsupported: the caller
then falls back to its syntactic verdict.
"""

from __future__ import annotations

import ast
import math
from types import SimpleNamespace
from typing import Any

from .guards import _MISSING, Interp, Raised, Returned, Unsupported


class DType:
    def __init__(self, name: str, itemsize: int, floating: bool) -> None:
        self.name, self.itemsize, self.is_floating_point = name, itemsize, floating

    def __repr__(self) -> str:
        return f"torch.{self.name}"


DTYPES = {n: DType(n, s, f) for n, s, f in [("int8", 1, False), ("uint8", 1, False), ("float16", 2, True), ("bfloat16", 2, True), ("float32", 4, True), ("float64", 8, True), ("int32", 4, False), ("int64", 8, False), ("bool", 1, False)]}
DTYPES["float"] = DTYPES["float32"]
DTYPES["double"] = DTYPES["float64"]
DTYPES["half"] = DTYPES["float16"]
DTYPES["long"] = DTYPES["int64"]


class World:
    """Allocation counter of one interpreted run."""

    def __init__(self) -> None:
        self.n_storages = 0
        self.allocs: list[tuple] = []

    def new_storage(self, nbytes: int, how: str) -> int:
        self.n_storages += 1
        self.allocs.append((self.n_storages - 1, nbytes, how))
        return self.n_storages - 1


class SymT:
    def __init__(self, world: World, storage: int, offset: int, shape: tuple[int, ...], dtype: DType, device: str = "dev") -> None:
        self.world, self.storage, self.offset, self._shape, self.dtype, self.device = world, storage, offset, tuple(int(x) for x in shape), dtype, device

    # ---- metadata
    shape = property(lambda self: self._shape)
    ndim = property(lambda self: len(self._shape))

    def numel(self) -> int:
        return math.prod(self._shape)

    nelement = numel

    nbytes = property(lambda self: self.numel() * self.dtype.itemsize)  # an attribute in torch, like itemsize
    itemsize = property(lambda self: self.dtype.itemsize)

    def size(self, dim: int | None = None):
        return self._shape if dim is None else self._shape[dim]

    def dim(self) -> int:
        return len(self._shape)

    def element_size(self) -> int:
        return self.dtype.itemsize

    def key(self) -> tuple:
        return ("T", self.storage, self.offset, self.nbytes, self.dtype.name, self._shape)

    def __repr__(self) -> str:
        return f"<storage{self.storage}[{self.offset}:{self.offset + self.nbytes}] {self.dtype.name}{list(self._shape)}>"

    # ---- views
    def _sub(self, elem_off: int, shape: tuple[int, ...]) -> "SymT":
        return SymT(self.world, self.storage, self.offset + elem_off * self.dtype.itemsize, shape, self.dtype, self.device)

    def split(self, sizes, dim: int = 0):
        if len(self._shape) != 1 or dim not in (0, -1):
            raise Unsupported("split of a tensor that is not 1-D")
        n = self._shape[0]
        if isinstance(sizes, int):
            if sizes <= 0:
                raise Raised("RuntimeError", None)
            sizes = [sizes] * (n // sizes) + ([n % sizes] if n % sizes else [])
            if n == 0:
                sizes = [0]
        sizes = [int(s) for s in sizes]
        if sum(sizes) != n or any(s < 0 for s in sizes):
            raise Raised("RuntimeError", None)
        out, off = [], 0
        for s in sizes:
            out.append(self._sub(off, (s,)))
            off += s
        return tuple(out)

    def view(self, *args):
        if len(args) == 1 and isinstance(args[0], DType):
            d = args[0]
            if len(self._shape) != 1 or self.nbytes % d.itemsize:
                raise Raised("RuntimeError", None)
            return SymT(self.world, self.storage, self.offset, (self.nbytes // d.itemsize,), d, self.device)
        shape = tuple(args[0]) if len(args) == 1 and isinstance(args[0], (tuple, list)) else tuple(args)
        if any(not isinstance(x, int) for x in shape):
            raise Unsupported("view shape")
        if shape.count(-1) == 1:
            rest = math.prod(x for x in shape if x != -1)
            if rest == 0 or self.numel() % rest:
                raise Raised("RuntimeError", None)
            shape = tuple(self.numel() // rest if x == -1 else x for x in shape)
        if math.prod(shape) != self.numel():
            raise Raised("RuntimeError", None)
        return SymT(self.world, self.storage, self.offset, shape, self.dtype, self.device)

    def narrow(self, dim: int, start: int, length: int) -> "SymT":
        if len(self._shape) != 1 or dim not in (0, -1) or start < 0 or length < 0 or start + length > self._shape[0]:
            raise Raised("RuntimeError", None)
        return self._sub(start, (length,))

    def detach(self) -> "SymT":
        return self

    def zero_(self) -> "SymT":
        return self

    def __getitem__(self, idx):
        if isinstance(idx, slice) and len(self._shape) == 1 and idx.step in (None, 1):
            lo, hi, _ = idx.indices(self._shape[0])
            return self._sub(lo, (max(hi - lo, 0),))
        raise Unsupported("tensor indexing")


def canonical_value(v: Any) -> Any:
    """Structure of a result with tensors replaced by their layout keys."""
    if isinstance(v, SymT):
        return v.key()
    if isinstance(v, (tuple, list)):
        return tuple(canonical_value(x) for x in v)
    if isinstance(v, dict):
        return tuple(sorted((repr(k), canonical_value(x)) for k, x in v.items()))
    if isinstance(v, DType):
        return repr(v)
    if isinstance(v, (int, float, str, bool)) or v is None:
        return v
    if isinstance(v, SimpleNamespace):
        return tuple(sorted((k, canonical_value(x)) for k, x in vars(v).items()))
    return repr(type(v).__name__)


class Sim:
    """Interprets a repository function on concrete values and SymT tensors."""

    def __init__(self, repo, depth: int = 3) -> None:
        self.repo = repo
        self.depth = depth
        self.world = World()
        self.torch = SimpleNamespace(**{k: v for k, v in DTYPES.items()}, Size=tuple)

    # names ------------------------------------------------------------------------------------------------------------
    def resolver(self, m):
        def res(name: str):
            if name == "torch":
                return self.torch
            d = self.repo.resolve_dotted(m, name)
            ok, v = self.repo.const_by_dotted(d)
            if ok:
                return v
            ci = self.repo.class_by_dotted(d)
            if ci is not None:
                return ("class", ci)
            raise Unsupported(f"free name {name!r}")

        return res

    # calls ------------------------------------------------------------------------------------------------------------
    def hook(self, fi, cls, depth):
        repo = self.repo
        m = fi.module

        def kwargs(it, c):
            return {k.arg: it.ev(k.value) for k in c.keywords if k.arg}

        def hk(it, c: ast.Call):
            f = c.func
            d = repo.dotted_of(m, f) if isinstance(f, (ast.Attribute, ast.Name)) else None
            d = repo.resolve_dotted(m, d) if d else None
            if d in ("torch.zeros", "torch.empty", "torch.ones"):
                kw = kwargs(it, c)
                shape = it.ev(c.args[0]) if c.args else kw.get("size")
                shape = (shape,) if isinstance(shape, int) else tuple(shape)
                dt = kw.get("dtype", DTYPES["float32"])
                if not isinstance(dt, DType):
                    raise Unsupported("dtype of an allocation")
                st = self.world.new_storage(math.prod(shape) * dt.itemsize, "zeros")
                return SymT(self.world, st, 0, shape, dt, str(kw.get("device", "dev")))
            if d == "torch.split":
                t = it.ev(c.args[0])
                if isinstance(t, SymT):
                    return t.split(it.ev(c.args[1]), **kwargs(it, c))
            if d is not None and d.endswith("shampoo_utils.get_dtype_size"):
                dt = it.ev(c.args[0])
                if isinstance(dt, DType):
                    return dt.itemsize
            if d is not None and d.endswith("shampoo_utils.compress_list"):
                xs, sel = it.ev(c.args[0]), it.ev(c.args[1])
                if len(xs) != len(sel):
                    raise Raised("AssertionError", c)
                return tuple(x for x, s in zip(xs, sel) if s)
            if isinstance(f, ast.Attribute):
                # methods of model tensors
                try:
                    recv = it.ev(f.value)
                except Unsupported:
                    recv = _MISSING
                if isinstance(recv, SymT):
                    if f.attr in ("numel", "nelement", "size", "dim", "element_size", "split", "view", "narrow", "detach", "zero_"):
                        return getattr(recv, f.attr)(*[it.ev(a) for a in c.args], **kwargs(it, c))
                    raise Unsupported(f"tensor method {f.attr}")
                # methods of the same class: `self.m(...)` / `Class.m(...)`
                target = None
                if recv is not _MISSING and isinstance(recv, SimpleNamespace) and cls is not None and getattr(recv, "_is_self", False):
                    target = repo.lookup_method(cls, f.attr)
                    bound = recv
                elif isinstance(recv, tuple) and len(recv) == 2 and recv[0] == "class":
                    target = repo.lookup_method(recv[1], f.attr)
                    bound = None
                if target is not None:
                    if depth <= 0:
                        raise Unsupported("call depth")
                    args = [it.ev(a) for a in c.args]
                    return self.call(target, args, kwargs(it, c), bound if not target.is_static else None, cls, depth - 1)
            # module-level repository utilities made of the same sub-language (e.g. a shared rounding helper) are followed into
            from .guards import repo_pure_calls

            return repo_pure_calls(repo, m, depth)(it, c)

        return hk

    def call(self, fi, args: list, kw: dict, selfobj, cls, depth: int | None = None):
        depth = self.depth if depth is None else depth
        params = [p for p in fi.params]
        env: dict[str, Any] = {}
        if params and params[0] in ("self", "cls") and not fi.is_static:
            env[params[0]] = selfobj
            params = params[1:]
        for p, a in zip(params, args):
            env[p] = a
        env.update(kw)
        a_ = fi.node.args
        names = [x.arg for x in a_.posonlyargs + a_.args]
        for n, dflt in list(zip(names[len(names) - len(a_.defaults):], a_.defaults)) + [(x.arg, dv) for x, dv in zip(a_.kwonlyargs, a_.kw_defaults) if dv is not None]:
            if n not in env:
                env[n] = Interp({}, resolve_name=self.resolver(fi.module)).ev(dflt)
        body = [s for s in fi.node.body if not (isinstance(s, ast.Expr) and isinstance(s.value, ast.Constant))]
        it = Interp(env, resolve_name=self.resolver(fi.module), call_hook=self.hook(fi, cls, depth))
        try:
            it.run(body, lambda e: ast.unparse(e))
        except Returned as r:
            return r.value
        return None


def outcome(repo, fi, cls, make_inputs) -> Any:
    """Canonical outcome (return value, attributes of self afterwards, allocations) of one interpreted call, or the raised
    exception's name."""
    sim = Sim(repo)
    selfobj, args, kw = make_inputs(sim)
    try:
        ret = sim.call(fi, args, kw, selfobj, cls)
    except Raised as r:
        return ("raise", r.exc_name)
    state = canonical_value(SimpleNamespace(**{k: v for k, v in vars(selfobj).items() if k != "_is_self"})) if selfobj is not None else None
    return ("ok", canonical_value(ret), state, tuple(sim.world.allocs))
