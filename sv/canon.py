"""E0b — canonicalising front-end.

Every rule of this checker reads the *shape* of the code, so it must not react to edits that change shape but not
behaviour.  Before anything is indexed, each module's syntax tree is brought into a canonical form by
semantics-preserving rewrites; all engines and rules then analyse the canonical tree (line numbers are kept, so reports
still point at the real source):

C1  negation normal form     `not (a or b)` -> `not a and not b`; `not a == b` -> `a != b` (only ==, !=, is, is not,
                             in, not in: the comparisons whose negation is exact for every operand, NaN included);
                             `x[slice(a, b)]` -> `x[a:b]`
C2  branch polarity          `if not X: A else: B` -> `if X: B else: A` (same for conditional expressions and for a
                             single negative comparison); elif-chains are left alone
C3  guard form               `if C: BODY else: raise E` -> `if not C: raise E` ; BODY      and
                             `if C: ...; return/raise  else: REST` -> `if C: ...; return/raise` ; REST
                             `if C: raise E elif D: ...` -> `if C: raise E` ; `if D: ...`   (leading guard arms of a chain)
C3e tail guard               `if T: WORK; return` ; REST (to the end of the function) -> `if T: WORK else: REST`
C9  two-armed assignment     `if c: x = A else: x = B` -> `x = A if c else B`; a bare `x: T` inside a function is dropped
C11 argument style           a call of a repository function is brought into the positional/keyword style that all call sites of
                             that function have in the calibrated tree (`f(x=a, y=b)` <-> `f(a, b)`); functions whose sites
                             disagree there, constructors and * / ** calls are left alone
C0  vanished known helpers   a known private function that is gone, where its known caller now has exactly what inlining it produces
                             (verified statement by statement, up to local names): call and function are put back
C12 canonical private names  a known private method / function / attribute that vanished while an unknown one of the same shape
                             (parameters, similar body; for attributes the same pattern of uses) appeared is that name renamed:
                             renamed back everywhere
C4b properties / ctx managers an unknown read-only @property with a one-expression body is replaced by that expression at every read; an
                             unknown @contextmanager of the shape `PRE; try: yield finally: FIN` turns `with cm(args): BODY` into
                             `PRE; try: BODY finally: FIN`
C4  see-through of helpers   a function the rule tables do not know (absent from the calibrated tree, see
                             known_names.json) whose every reference is a direct call in an inlinable position is
                             inlined at its call sites and dropped; returns in tail position become assignments
C5  see-through of locals    a local the tables do not know, bound once to a pure expression (names, attributes,
                             subscripts, constants, operators, type()/len()/slice()/isinstance()), is replaced by that
                             expression
C5b/c temporaries            `t = E` ; S(t) -> S(E) for a single use in the next statement; `t = E` ; `P = t` -> `P = E` ; `t = P`;
                             `_, b = CALL` ; S(b) -> S(CALL[1])
C7  loop -> comprehension    `acc = {}` ; `for T in IT: [if c:] acc[K] = V` -> `acc = {K: V for T in IT if c}` (unknown acc)
C8  canonical local names    locals / comprehension / lambda variables of a known function get the names the tables know
                             when old and new binders correspond unambiguously (same order, anchors by equal names)
C6  nested def -> lambda     an unknown nested function whose body is one return (or an if/return ladder) and that is
                             referenced once becomes a lambda at its use

C1-C3 apply to every function; C4-C6 only to names that did not exist in the tree the tables were written against, so
today's anchors are untouched.  A rewrite that does not apply exactly is skipped, never approximated: the worst case of
this module is a rule seeing a shape it does not know (a report the self-test will flag), not a rule seeing a program
that is not equivalent to the source.
"""

from __future__ import annotations

import ast
import copy
import json
import os

_HERE = os.path.dirname(os.path.abspath(__file__))
KNOWN_PATH = os.path.join(_HERE, "known_names.json")

TERMINATORS = (ast.Return, ast.Raise, ast.Continue, ast.Break)
_NEG = {ast.Eq: ast.NotEq, ast.NotEq: ast.Eq, ast.Is: ast.IsNot, ast.IsNot: ast.Is, ast.In: ast.NotIn, ast.NotIn: ast.In}
_NEGATIVE_OPS = (ast.NotEq, ast.IsNot, ast.NotIn)
PURE_CALLS = {"type", "len", "slice", "isinstance"}
CONTEXT_DECORATORS = {"torch.no_grad()", "torch.enable_grad()", "torch.inference_mode()"}  # decorators that only wrap the call in a context


def load_known() -> dict | None:
    try:
        with open(KNOWN_PATH) as fh:
            return json.load(fh)
    except (OSError, ValueError):
        return None


# ------------------------------------------------------------------------------------------------ C1 negation normal form
def _boolish(e: ast.expr) -> bool:
    """Syntactically bool-valued: its value and its truth value coincide."""
    if isinstance(e, ast.Compare):
        return True
    if isinstance(e, ast.UnaryOp) and isinstance(e.op, ast.Not):
        return True
    if isinstance(e, ast.BoolOp):
        return all(_boolish(v) for v in e.values)
    if isinstance(e, ast.Constant):
        return isinstance(e.value, bool)
    if isinstance(e, ast.Call) and isinstance(e.func, ast.Name) and e.func.id in ("isinstance", "all", "any", "bool", "callable", "hasattr", "issubclass"):
        return True
    return False


def negate(e: ast.expr, test_ctx: bool = True) -> ast.expr:
    """The exact logical negation of `e`, negations pushed inward.  In a test context only the truth value matters, so
    `not not x` may become `x`; in a value context that is done only for syntactically bool-valued x."""
    if isinstance(e, ast.UnaryOp) and isinstance(e.op, ast.Not):
        if test_ctx or _boolish(e.operand):
            return nnf(e.operand, test_ctx)
        return ast.copy_location(ast.UnaryOp(op=ast.Not(), operand=e), e)
    if isinstance(e, ast.BoolOp):
        op = ast.Or() if isinstance(e.op, ast.And) else ast.And()
        return ast.copy_location(ast.BoolOp(op=op, values=[negate(v, test_ctx) for v in e.values]), e)
    if isinstance(e, ast.Compare) and len(e.ops) == 1 and type(e.ops[0]) in _NEG:
        return ast.copy_location(ast.Compare(left=e.left, ops=[_NEG[type(e.ops[0])]()], comparators=e.comparators), e)
    return ast.copy_location(ast.UnaryOp(op=ast.Not(), operand=e), e)


def nnf(e: ast.expr, test_ctx: bool = False) -> ast.expr:
    if isinstance(e, ast.UnaryOp) and isinstance(e.op, ast.Not):
        inner = e.operand
        if isinstance(inner, ast.BoolOp) or (isinstance(inner, ast.Compare) and len(inner.ops) == 1 and type(inner.ops[0]) in _NEG):
            return negate(inner, test_ctx)
        if isinstance(inner, ast.UnaryOp) and isinstance(inner.op, ast.Not) and (test_ctx or _boolish(inner.operand)):
            return nnf(inner.operand, test_ctx)
        return e
    if isinstance(e, ast.BoolOp):
        return ast.copy_location(ast.BoolOp(op=e.op, values=[nnf(v, test_ctx) for v in e.values]), e)
    return e


class _NNF(ast.NodeTransformer):
    def visit_UnaryOp(self, node: ast.UnaryOp):
        self.generic_visit(node)
        return nnf(node) if isinstance(node.op, ast.Not) else node


def _merge_isinstance(vals: list[ast.expr], is_or: bool) -> list[ast.expr]:
    """`isinstance(x, A) or isinstance(x, B)` == `isinstance(x, (A, B))` (and the negated conjunction) for adjacent operands on
    the same pure subject."""

    def parts(v):
        neg = isinstance(v, ast.UnaryOp) and isinstance(v.op, ast.Not)
        c = v.operand if neg else v
        if neg == is_or:  # Or merges positive tests, And merges negated ones
            return None
        if isinstance(c, ast.Call) and isinstance(c.func, ast.Name) and c.func.id == "isinstance" and len(c.args) == 2 and not c.keywords and _is_pure(c.args[0]):
            cls = list(c.args[1].elts) if isinstance(c.args[1], ast.Tuple) else [c.args[1]]
            if all(isinstance(k, (ast.Name, ast.Attribute)) for k in cls):
                return ast.unparse(c.args[0]), c, cls
        return None

    out: list[ast.expr] = []
    for v in vals:
        p, q = parts(v), parts(out[-1]) if out else None
        if p is not None and q is not None and p[0] == q[0]:
            merged = ast.Call(func=ast.Name(id="isinstance", ctx=ast.Load()), args=[p[1].args[0], ast.Tuple(elts=q[2] + p[2], ctx=ast.Load())], keywords=[])
            ast.copy_location(merged, q[1])
            ast.fix_missing_locations(merged)
            out[-1] = merged if is_or else ast.copy_location(ast.UnaryOp(op=ast.Not(), operand=merged), out[-1])
        else:
            out.append(v)
    return out


def simplify_test(e: ast.expr) -> ast.expr:
    """A test position only uses the truth value: double negations vanish and negations are pushed inward."""
    if isinstance(e, ast.BoolOp):
        vals = []
        for v in e.values:
            v = simplify_test(v)
            if isinstance(v, ast.BoolOp) and type(v.op) is type(e.op):
                vals.extend(v.values)  # (a and b) and c == a and b and c
            else:
                vals.append(v)
        vals = _merge_isinstance(vals, isinstance(e.op, ast.Or))
        if len(vals) == 1:
            return vals[0]
        return ast.copy_location(ast.BoolOp(op=e.op, values=vals), e)
    if isinstance(e, ast.UnaryOp) and isinstance(e.op, ast.Not):
        inner = simplify_test(e.operand)
        if isinstance(inner, ast.UnaryOp) and isinstance(inner.op, ast.Not):
            return inner.operand
        if isinstance(inner, ast.BoolOp) or (isinstance(inner, ast.Compare) and len(inner.ops) == 1 and type(inner.ops[0]) in _NEG):
            return simplify_test(negate(inner, True))
        return ast.copy_location(ast.UnaryOp(op=ast.Not(), operand=inner), e)
    return e


class _Tests(ast.NodeTransformer):
    def visit_If(self, node: ast.If):
        self.generic_visit(node)
        node.test = simplify_test(node.test)
        return node

    visit_While = visit_IfExp = visit_Assert = visit_If

    def visit_comprehension(self, node: ast.comprehension):
        self.generic_visit(node)
        node.ifs = [simplify_test(c) for c in node.ifs]
        return node


class _SliceCalls(ast.NodeTransformer):
    """`x[slice(a, b)]` -> `x[a:b]` (the builtin; run again after locals are seen through); `zip(count(), X)` -> `enumerate(X)`."""

    def visit_Call(self, node: ast.Call):
        self.generic_visit(node)
        if isinstance(node.func, ast.Name) and node.func.id == "zip" and len(node.args) == 2 and not node.keywords:
            c = node.args[0]
            if isinstance(c, ast.Call) and not c.args and not c.keywords and ((isinstance(c.func, ast.Name) and c.func.id == "count") or (isinstance(c.func, ast.Attribute) and c.func.attr == "count" and isinstance(c.func.value, ast.Name) and c.func.value.id == "itertools")):
                return ast.copy_location(ast.Call(func=ast.Name(id="enumerate", ctx=ast.Load()), args=[node.args[1]], keywords=[]), node)
        return node

    def visit_Subscript(self, node: ast.Subscript):
        self.generic_visit(node)
        sl = node.slice
        if isinstance(sl, ast.Call) and isinstance(sl.func, ast.Name) and sl.func.id == "slice" and not sl.keywords and 1 <= len(sl.args) <= 3 and not any(isinstance(a, ast.Starred) for a in sl.args):
            none = lambda a: None if isinstance(a, ast.Constant) and a.value is None else a
            args = [none(a) for a in sl.args]
            lo, hi, st = (None, args[0], None) if len(args) == 1 else (args + [None])[:3]
            node.slice = ast.copy_location(ast.Slice(lower=lo, upper=hi, step=st), sl)
        return node


def _is_negative(test: ast.expr) -> bool:
    if isinstance(test, ast.UnaryOp) and isinstance(test.op, ast.Not):
        return True
    return isinstance(test, ast.Compare) and len(test.ops) == 1 and isinstance(test.ops[0], _NEGATIVE_OPS)


def _terminates(body: list[ast.stmt]) -> bool:
    if not body:
        return False
    last = body[-1]
    if isinstance(last, TERMINATORS):
        return True
    if isinstance(last, ast.If) and last.orelse:
        return _terminates(last.body) and _terminates(last.orelse)
    return False


def _only_raise(body: list[ast.stmt]) -> bool:
    return len(body) == 1 and isinstance(body[0], ast.Raise)


class _IfExpPolarity(ast.NodeTransformer):
    def visit_IfExp(self, node: ast.IfExp):
        self.generic_visit(node)
        if _is_negative(node.test):
            return ast.copy_location(ast.IfExp(test=negate(node.test), body=node.orelse, orelse=node.body), node)
        return node


def _is_chain_head(st: ast.If) -> bool:
    return len(st.orelse) == 1 and isinstance(st.orelse[0], ast.If)


def _canon_children(st: ast.AST) -> None:
    for fld in ("body", "orelse", "finalbody"):
        val = getattr(st, fld, None)
        if not (isinstance(val, list) and val and isinstance(val[0], ast.stmt)):
            continue
        if fld == "orelse" and isinstance(st, ast.If) and _is_chain_head(st):
            _canon_children(val[0])  # elif position: only the arm bodies are canonicalised
        else:
            setattr(st, fld, _canon_block(val))
    for h in getattr(st, "handlers", []) or []:
        h.body = _canon_block(h.body)
    for c in getattr(st, "cases", []) or []:
        c.body = _canon_block(c.body)


def _match_to_if(st: ast.Match):
    """`match S:` whose cases are argument-less class patterns (`case C():`, `case A() | B():`), optionally guarded wildcards
    (`case _ if g:`) and a final `case _:` — the isinstance chain `if isinstance(S, C): … elif isinstance(S, (A, B)): …`.  Only
    for a subject that is a plain name / attribute path (evaluated once either way)."""
    if not _is_pure(st.subject) or isinstance(st.subject, (ast.Constant, ast.Tuple)):
        return None
    arms = []
    for c in st.cases:
        p = c.pattern
        alts = p.patterns if isinstance(p, ast.MatchOr) else [p]
        if all(isinstance(a, ast.MatchClass) and not a.patterns and not a.kwd_patterns for a in alts):
            classes = [a.cls for a in alts]
            cls = classes[0] if len(classes) == 1 else ast.Tuple(elts=classes, ctx=ast.Load())
            t = ast.Call(func=ast.Name(id="isinstance", ctx=ast.Load()), args=[copy.deepcopy(st.subject), cls], keywords=[])
            if c.guard is not None:
                t = ast.BoolOp(op=ast.And(), values=[t, c.guard])
            arms.append((t, c.body))
        elif isinstance(p, ast.MatchAs) and p.pattern is None and p.name is None:
            arms.append((c.guard, c.body))  # wildcard: guard or unconditional
        else:
            return None
    if not arms or any(t is None for t, _ in arms[:-1]):
        return None
    node = None
    for t, body in reversed(arms):
        if t is None:
            node = body
        else:
            node = [ast.If(test=t, body=body, orelse=node if isinstance(node, list) else ([] if node is None else [node]))]
    head = node[0] if isinstance(node, list) and len(node) == 1 and isinstance(node[0], ast.If) else None
    if head is None:
        return None
    ast.copy_location(head, st)
    return ast.fix_missing_locations(head)


def _assign_pair(st: ast.If):
    """`if c: x = A else: x = B` (one plain assignment to the same name in each arm) -> (name target, A, B)."""
    if len(st.body) != 1 or len(st.orelse) != 1:
        return None
    a, b = st.body[0], st.orelse[0]
    if isinstance(a, ast.Assign) and isinstance(b, ast.Assign) and len(a.targets) == 1 and len(b.targets) == 1 and isinstance(a.targets[0], ast.Name) and isinstance(b.targets[0], ast.Name) and a.targets[0].id == b.targets[0].id:
        return a.targets[0], a.value, b.value
    return None


def _tail_guard_to_else(fn: ast.AST) -> None:
    """C3e, on a function's top-level body: `if T: WORK; return` ; REST-to-the-end (no value returned anywhere after)
    -> `if T: WORK else: REST`.  Both say: do WORK or do REST, then fall off the end."""
    body = fn.body
    for i, st in enumerate(body):
        if not (isinstance(st, ast.If) and not st.orelse and len(st.body) >= 2):
            continue
        last = st.body[-1]
        if not (isinstance(last, ast.Return) and (last.value is None or (isinstance(last.value, ast.Constant) and last.value.value is None))):
            continue
        rest = body[i + 1 :]
        if not rest or any(isinstance(x, ast.Return) and x.value is not None and not (isinstance(x.value, ast.Constant) and x.value.value is None) for r in rest for x in ast.walk(r)):
            continue
        if any(isinstance(x, (ast.Return,)) for s_ in st.body[:-1] for x in ast.walk(s_)):
            continue
        new_if = ast.copy_location(ast.If(test=st.test, body=st.body[:-1], orelse=rest), st)
        fn.body = body[:i] + _canon_block([new_if])
        return


def _canon_block(stmts: list[ast.stmt], in_function: bool = True) -> list[ast.stmt]:
    """C2 + C3 (+ C9: two-armed assignment -> conditional expression; bare local annotations dropped) on one statement
    list (children first)."""
    out: list[ast.stmt] = []
    for st in stmts:
        if isinstance(st, ast.AnnAssign) and st.value is None and isinstance(st.target, ast.Name) and getattr(st, "_in_function", False):
            continue  # `x: T` inside a function declares nothing at run time
        # C3c: leading guard arms of a chain are peeled off: `if C: raise E elif ...` -> `if C: raise E` ; `if ...`
        if isinstance(st, ast.If) and _is_chain_head(st) and _only_raise(st.body):
            out.append(ast.copy_location(ast.If(test=st.test, body=st.body, orelse=[]), st))
            out.extend(_canon_block(st.orelse))
            continue
        if isinstance(st, ast.Match):
            conv = _match_to_if(st)  # C15: a `match` over class patterns is the isinstance chain
            if conv is not None:
                out.extend(_canon_block([conv]))
                continue
        _canon_children(st)
        # C3g: `if a: if b: X` (no else anywhere) is `if a and b: X`
        while isinstance(st, ast.If) and not st.orelse and len(st.body) == 1 and isinstance(st.body[0], ast.If) and not st.body[0].orelse:
            inner = st.body[0]
            st = ast.copy_location(ast.If(test=simplify_test(ast.BoolOp(op=ast.And(), values=[st.test, inner.test])), body=inner.body, orelse=[]), st)
        # C3h: `while a: if not b: break; REST` is `while a and b: REST`
        if isinstance(st, ast.While) and not st.orelse and st.body and isinstance(st.body[0], ast.If) and not st.body[0].orelse and len(st.body[0].body) == 1 and isinstance(st.body[0].body[0], ast.Break) and len(st.body) > 1:
            st = ast.copy_location(ast.While(test=simplify_test(ast.BoolOp(op=ast.And(), values=[st.test, negate(st.body[0].test)])), body=st.body[1:], orelse=[]), st)
        # C9b: `x = A` ; `if not x: x = B`  is  `x = A or B`   (and `if x: x = B` is `x = A and B`)
        if isinstance(st, ast.If) and not st.orelse and len(st.body) == 1 and out and isinstance(out[-1], ast.Assign) and len(out[-1].targets) == 1 and isinstance(out[-1].targets[0], ast.Name):
            prev, a = out[-1], st.body[0]
            nm = prev.targets[0].id
            t = st.test
            neg = isinstance(t, ast.UnaryOp) and isinstance(t.op, ast.Not)
            subj = t.operand if neg else t
            if isinstance(a, ast.Assign) and len(a.targets) == 1 and isinstance(a.targets[0], ast.Name) and a.targets[0].id == nm and isinstance(subj, ast.Name) and subj.id == nm and nm not in {x.id for x in ast.walk(a.value) if isinstance(x, ast.Name)}:
                comb = ast.BoolOp(op=ast.Or() if neg else ast.And(), values=[prev.value, a.value])
                out[-1] = ast.fix_missing_locations(ast.copy_location(ast.Assign(targets=prev.targets, value=ast.copy_location(comb, prev.value), lineno=prev.lineno), prev))
                continue
        # C9d: `a, b = X, Y` is `a = X; b = Y` when neither X nor Y reads a or b (no swap semantics)
        if isinstance(st, ast.Assign) and len(st.targets) == 1 and isinstance(st.targets[0], ast.Tuple) and isinstance(st.value, ast.Tuple) and len(st.targets[0].elts) == len(st.value.elts) and all(isinstance(t, ast.Name) for t in st.targets[0].elts) and not any(isinstance(v, ast.Starred) for v in st.value.elts):
            tnames = {t.id for t in st.targets[0].elts}
            if len(tnames) == len(st.targets[0].elts) and not (tnames & {x.id for x in ast.walk(st.value) if isinstance(x, ast.Name)}):
                for t, v in zip(st.targets[0].elts, st.value.elts):
                    out.append(ast.fix_missing_locations(ast.copy_location(ast.Assign(targets=[t], value=v, lineno=st.lineno), st)))
                continue
        # C9c: `if c: return A else: return B` is `return A if c else B`
        if isinstance(st, ast.If) and len(st.body) == 1 and len(st.orelse) == 1 and isinstance(st.body[0], ast.Return) and isinstance(st.orelse[0], ast.Return) and st.body[0].value is not None and st.orelse[0].value is not None and not _is_chain_head(st):
            e = ast.IfExp(test=st.test, body=st.body[0].value, orelse=st.orelse[0].value)
            if _is_negative(e.test):
                e = ast.IfExp(test=negate(e.test), body=e.orelse, orelse=e.body)
            out.append(ast.fix_missing_locations(ast.copy_location(ast.Return(value=ast.copy_location(e, st)), st)))
            continue
        if isinstance(st, ast.If) and st.orelse and not _is_chain_head(st) and _assign_pair(st) is not None:
            tgt, va, vb = _assign_pair(st)  # C9
            e = ast.IfExp(test=st.test, body=va, orelse=vb)
            if _is_negative(e.test):
                e = ast.IfExp(test=negate(e.test), body=vb, orelse=va)
            out.append(ast.fix_missing_locations(ast.copy_location(ast.Assign(targets=[tgt], value=ast.copy_location(e, st), lineno=st.lineno), st)))
            continue
        if isinstance(st, ast.If) and st.orelse and not _is_chain_head(st):
            if _only_raise(st.orelse) and not _only_raise(st.body):  # C3a
                out.append(ast.copy_location(ast.If(test=negate(st.test), body=st.orelse, orelse=[]), st))
                out.extend(st.body)
                continue
            if _terminates(st.body):  # C3b
                out.append(ast.copy_location(ast.If(test=st.test, body=st.body, orelse=[]), st))
                out.extend(st.orelse)
                continue
            if _is_negative(st.test):  # C2
                out.append(ast.copy_location(ast.If(test=negate(st.test), body=st.orelse, orelse=st.body), st))
                continue
        out.append(st)
    return out


def _mark_function_locals(tree: ast.Module) -> None:
    for fn in ast.walk(tree):
        if isinstance(fn, (ast.FunctionDef, ast.AsyncFunctionDef)):
            for n in _own_nodes(fn):
                if isinstance(n, ast.AnnAssign):
                    n._in_function = True


def _plain_field_defaults(tree: ast.Module) -> None:
    """`x: T = field(default=V)` in a class body is `x: T = V` (dataclasses: `field` with nothing but `default`)."""
    for c in ast.walk(tree):
        if isinstance(c, ast.ClassDef):
            for st in c.body:
                if isinstance(st, ast.AnnAssign) and isinstance(st.value, ast.Call) and not st.value.args and len(st.value.keywords) == 1 and st.value.keywords[0].arg == "default":
                    f = st.value.func
                    if (isinstance(f, ast.Name) and f.id == "field") or (isinstance(f, ast.Attribute) and f.attr == "field"):
                        st.value = st.value.keywords[0].value


def local_canon(tree: ast.Module) -> ast.Module:
    _plain_field_defaults(tree)
    _mark_function_locals(tree)
    tree = _NNF().visit(tree)
    tree = _Tests().visit(tree)
    tree = _SliceCalls().visit(tree)
    tree = _IfExpPolarity().visit(tree)
    tree.body = _canon_block(tree.body)
    for fn in ast.walk(tree):
        if isinstance(fn, (ast.FunctionDef, ast.AsyncFunctionDef)):
            _tail_guard_to_else(fn)
    return tree


# ------------------------------------------------------------------------------------------------ scopes & names
def _own_nodes(fn: ast.AST):
    """Nodes of a function body excluding nested function / class / lambda bodies (comprehensions included)."""
    stack = list(fn.body) if isinstance(fn.body, list) else [fn.body]
    while stack:
        n = stack.pop()
        yield n
        if isinstance(n, (ast.FunctionDef, ast.AsyncFunctionDef, ast.ClassDef, ast.Lambda)):
            continue  # the def node itself is a binding of this scope; its inside is another scope
        stack.extend(ast.iter_child_nodes(n))


def _bound_names(fn: ast.AST) -> dict[str, list[ast.AST]]:
    """name -> binding nodes inside the function's own scope (comprehension variables excluded)."""
    out: dict[str, list[ast.AST]] = {}
    comp_vars: set[int] = set()
    for n in _own_nodes(fn):
        if isinstance(n, ast.comprehension):
            for t in ast.walk(n.target):
                comp_vars.add(id(t))
    for n in _own_nodes(fn):
        if isinstance(n, ast.Name) and isinstance(n.ctx, (ast.Store, ast.Del)) and id(n) not in comp_vars:
            out.setdefault(n.id, []).append(n)
        elif isinstance(n, (ast.FunctionDef, ast.AsyncFunctionDef, ast.ClassDef)):
            out.setdefault(n.name, []).append(n)
        elif isinstance(n, ast.ExceptHandler) and n.name:
            out.setdefault(n.name, []).append(n)
        elif isinstance(n, (ast.Import, ast.ImportFrom)):
            for a in n.names:
                out.setdefault((a.asname or a.name).split(".")[0], []).append(n)
    return out


def _params(fn: ast.AST) -> list[str]:
    a = fn.args
    out = [x.arg for x in a.posonlyargs + a.args + a.kwonlyargs]
    if a.vararg:
        out.append(a.vararg.arg)
    if a.kwarg:
        out.append(a.kwarg.arg)
    return out


def _scope_names(fn: ast.AST) -> set[str]:
    """Names that live in the function's own scope: everything except variables owned by a comprehension / lambda."""
    owned: set[int] = set()
    for n in ast.walk(fn):
        if isinstance(n, (ast.ListComp, ast.SetComp, ast.DictComp, ast.GeneratorExp)):
            own = {x.id for g in n.generators for x in ast.walk(g.target) if isinstance(x, ast.Name)}
            first = {id(x) for x in ast.walk(n.generators[0].iter)}
            owned |= {id(x) for x in ast.walk(n) if isinstance(x, ast.Name) and x.id in own and id(x) not in first}
        elif isinstance(n, ast.Lambda):
            own = set(_params(n))
            owned |= {id(x) for x in ast.walk(n.body) if isinstance(x, ast.Name) and x.id in own}
    return {n.id for n in ast.walk(fn) if isinstance(n, ast.Name) and id(n) not in owned} | set(_params(fn))


def _all_names(fn: ast.AST) -> set[str]:
    return {n.id for n in ast.walk(fn) if isinstance(n, ast.Name)} | set(_params(fn))


class _Subst(ast.NodeTransformer):
    """Replace loads of given names by expressions (deep-copied); respects shadowing by nested scopes' parameters."""

    def __init__(self, mapping: dict[str, ast.expr]) -> None:
        self.mapping = mapping

    def visit_Name(self, node: ast.Name):
        if isinstance(node.ctx, ast.Load) and node.id in self.mapping:
            return ast.copy_location(copy.deepcopy(self.mapping[node.id]), node)
        return node

    def _scoped(self, node, params: list[str]):
        hidden = {p: self.mapping.pop(p) for p in params if p in self.mapping}
        self.generic_visit(node)
        self.mapping.update(hidden)
        return node

    def visit_Lambda(self, node: ast.Lambda):
        return self._scoped(node, _params(node))

    def visit_FunctionDef(self, node: ast.FunctionDef):
        return self._scoped(node, _params(node))

    def visit_JoinedStr(self, node: ast.JoinedStr):
        # f"{x=}" spells the source text: keep the text, substitute the value
        self.generic_visit(node)
        return node


class _Rename(ast.NodeTransformer):
    def __init__(self, mapping: dict[str, str]) -> None:
        self.mapping = mapping

    def visit_Name(self, node: ast.Name):
        if node.id in self.mapping:
            return ast.copy_location(ast.Name(id=self.mapping[node.id], ctx=node.ctx), node)
        return node


# ------------------------------------------------------------------------------------------------ C5 see-through of locals
def _is_pure(e: ast.AST) -> bool:
    if isinstance(e, (ast.Name, ast.Constant)):
        return True
    if isinstance(e, ast.Attribute):
        return _is_pure(e.value)
    if isinstance(e, ast.Subscript):
        return _is_pure(e.value) and _is_pure(e.slice)
    if isinstance(e, ast.Slice):
        return all(x is None or _is_pure(x) for x in (e.lower, e.upper, e.step))
    if isinstance(e, (ast.Tuple,)):
        return all(_is_pure(x) for x in e.elts)
    if isinstance(e, ast.BinOp):
        return _is_pure(e.left) and _is_pure(e.right)
    if isinstance(e, ast.UnaryOp):
        return _is_pure(e.operand)
    if isinstance(e, ast.BoolOp):
        return all(_is_pure(x) for x in e.values)
    if isinstance(e, ast.Compare):
        return _is_pure(e.left) and all(_is_pure(x) for x in e.comparators)
    if isinstance(e, ast.IfExp):
        return _is_pure(e.test) and _is_pure(e.body) and _is_pure(e.orelse)
    if isinstance(e, ast.Call):
        return isinstance(e.func, ast.Name) and e.func.id in PURE_CALLS and not e.keywords and all(_is_pure(a) for a in e.args)
    return False


def _pos(n: ast.AST) -> tuple[int, int]:
    return (getattr(n, "lineno", 0), getattr(n, "col_offset", 0))


def _end(n: ast.AST) -> tuple[int, int]:
    return (getattr(n, "end_lineno", 0) or 0, getattr(n, "end_col_offset", 0) or 0)


def _seq(root: ast.AST) -> dict[int, int]:
    """Pre-order index of every node (evaluation-order proxy that, unlike line numbers, survives inlining)."""
    out: dict[int, int] = {}

    def rec(n: ast.AST) -> None:
        out[id(n)] = len(out)
        if isinstance(n, (ast.Assign, ast.AnnAssign, ast.AugAssign)):
            # the value is evaluated before the targets are bound
            kids = ([n.value] if getattr(n, "value", None) is not None else []) + (list(n.targets) if isinstance(n, ast.Assign) else [n.target])
            for k in kids:
                rec(k)
            return
        for c in ast.iter_child_nodes(n):
            rec(c)

    rec(root)
    return out


def _parent_map(root: ast.AST) -> dict[int, ast.AST]:
    out: dict[int, ast.AST] = {}
    for p in ast.walk(root):
        for c in ast.iter_child_nodes(p):
            out[id(c)] = p
    return out


def _chain(n: ast.AST, parents: dict[int, ast.AST]) -> list[ast.AST]:
    out = [n]
    while id(out[-1]) in parents:
        out.append(parents[id(out[-1])])
    return out


def _is_ancestor(a: ast.AST, n: ast.AST, parents: dict[int, ast.AST]) -> bool:
    return any(x is a for x in _chain(n, parents)[1:])


def _exclusive(a: ast.AST, b: ast.AST, parents: dict[int, ast.AST]) -> bool:
    """a and b sit in different arms of the same `if` (statement or expression)."""
    ca, cb = _chain(a, parents), _chain(b, parents)
    ids_b = {id(x): i for i, x in enumerate(cb)}
    for i, x in enumerate(ca):
        if id(x) in ids_b and isinstance(x, (ast.If, ast.IfExp)) and i > 0 and ids_b[id(x)] > 0:
            ka, kb = ca[i - 1], cb[ids_b[id(x)] - 1]

            def arm(k):
                if isinstance(x, ast.IfExp):
                    return "body" if k is x.body else ("orelse" if k is x.orelse else "test")
                return "body" if any(k is s for s in x.body) else ("orelse" if any(k is s for s in x.orelse) else "test")

            return {arm(ka), arm(kb)} == {"body", "orelse"}
        if id(x) in ids_b:
            return False
    return False


def _find_block(fn: ast.AST, stmt: ast.stmt) -> list[ast.stmt] | None:
    for n in ast.walk(fn):
        for fld in ("body", "orelse", "finalbody"):
            val = getattr(n, fld, None)
            if isinstance(val, list) and any(s is stmt for s in val):
                return val
    return None


def propagate_locals(fn: ast.AST, known_locals: set[str] | None) -> int:
    """C5 on one function (in place).  known_locals=None: the function itself is unknown -> every local is a candidate."""
    done = 0
    for _ in range(8):
        bound = _bound_names(fn)
        params = set(_params(fn))
        changed = False
        for name, binds in sorted(bound.items()):
            if known_locals is not None and name in known_locals:
                continue
            if name in params or len(binds) != 1 or not isinstance(binds[0], ast.Name):
                continue
            # the single binding must be `name = <pure>` as a plain statement
            stmt = next((s for s in _own_nodes(fn) if isinstance(s, (ast.Assign, ast.AnnAssign)) and ((isinstance(s, ast.Assign) and len(s.targets) == 1 and s.targets[0] is binds[0]) or (isinstance(s, ast.AnnAssign) and s.target is binds[0]))), None)
            if stmt is None or stmt.value is None or not _is_pure(stmt.value):
                continue
            block = _find_block(fn, stmt)
            if block is None:
                continue
            # names the value reads must be stable: bound at most once (or parameters never rebound)
            free = {n.id for n in ast.walk(stmt.value) if isinstance(n, ast.Name)}
            if name in free:
                continue
            if any(len(bound.get(f, [])) > 1 or (f in params and bound.get(f)) for f in free):
                continue
            # every use comes after the definition, inside the same block (or nested in it), not inside a lambda / def
            idx = next(i for i, s in enumerate(block) if s is stmt)
            after: set[int] = set()
            for s in block[idx + 1 :]:
                for n in ast.walk(s):
                    after.add(id(n))
            uses = [n for n in ast.walk(fn) if isinstance(n, ast.Name) and n.id == name and isinstance(n.ctx, ast.Load)]
            if not uses or any(id(u) not in after for u in uses):
                continue
            deferred = False
            for s in block[idx + 1 :]:
                for n in ast.walk(s):
                    if isinstance(n, (ast.Lambda, ast.FunctionDef, ast.AsyncFunctionDef)) and any(isinstance(x, ast.Name) and x.id == name for x in ast.walk(n)):
                        deferred = True
            if deferred:
                continue
            # f"{name=}" would print the name
            if any(isinstance(n, ast.Constant) and isinstance(n.value, str) and n.value.endswith(f"{name}=") for j in ast.walk(fn) if isinstance(j, ast.JoinedStr) for n in j.values):
                continue
            # a value read through an attribute / subscript path may be stale after a store or a call: no store to the
            # same path anywhere after the definition, and no call between the definition and a use (a call that has
            # the use among its own arguments runs after it; exclusive arms of one `if` do not follow each other)
            paths = [x for x in ast.walk(stmt.value) if isinstance(x, (ast.Attribute, ast.Subscript))]
            if paths:
                texts = {ast.unparse(x) for x in paths}
                rest = [n for s in block[idx + 1 :] for n in ast.walk(s)]
                if any(isinstance(n, (ast.Attribute, ast.Subscript)) and isinstance(n.ctx, (ast.Store, ast.Del)) and ast.unparse(n) in texts for n in rest):
                    continue
                parents = _parent_map(fn)
                calls = [n for n in rest if isinstance(n, ast.Call) and not (isinstance(n.func, ast.Name) and n.func.id in PURE_CALLS)]
                order = _seq(fn)
                if any(order.get(id(c), 0) < order.get(id(u), 0) and not _is_ancestor(c, u, parents) and not _exclusive(c, u, parents) for u in uses for c in calls):
                    continue
            sub = _Subst({name: stmt.value})
            for i in range(idx + 1, len(block)):
                block[i] = sub.visit(block[i])
            del block[idx]
            if not block:
                block.append(ast.copy_location(ast.Pass(), stmt))
            done += 1
            changed = True
            break
        if not changed:
            break
    return done


def _blocks(fn: ast.AST):
    """Every statement list inside fn (its own body included)."""
    for n in ast.walk(fn):
        for fld in ("body", "orelse", "finalbody"):
            val = getattr(n, fld, None)
            if isinstance(val, list) and val and isinstance(val[0], ast.stmt):
                yield val


def _single_name_target(st: ast.stmt) -> ast.Name | None:
    if isinstance(st, ast.Assign) and len(st.targets) == 1 and isinstance(st.targets[0], ast.Name):
        return st.targets[0]
    if isinstance(st, ast.AnnAssign) and isinstance(st.target, ast.Name) and st.value is not None:
        return st.target
    return None


def _printed_by_fstring(fn: ast.AST, name: str) -> bool:
    return any(isinstance(n, ast.Constant) and isinstance(n.value, str) and n.value.endswith(f"{name}=") for j in ast.walk(fn) if isinstance(j, ast.JoinedStr) for n in j.values)


def _once_evaluated_parts(st: ast.stmt) -> list[ast.AST]:
    """Sub-trees of a statement that are evaluated exactly once when the statement is reached."""
    if isinstance(st, (ast.Assign, ast.AnnAssign, ast.AugAssign, ast.Expr, ast.Return, ast.Raise, ast.Assert, ast.Delete)):
        return [st]
    if isinstance(st, (ast.If, ast.While)):
        return [st.test] if isinstance(st, ast.If) else []
    if isinstance(st, ast.For):
        return [st.iter]
    if isinstance(st, ast.With):
        return [i.context_expr for i in st.items]
    return []


def _unknown_single_binding(fn: ast.AST, known_locals: set[str] | None):
    bound = _bound_names(fn)
    params = set(_params(fn))
    for name, binds in bound.items():
        if known_locals is not None and name in known_locals:
            continue
        if name in params or len(binds) != 1 or not isinstance(binds[0], ast.Name):
            continue
        yield name, binds[0]


def forward_temporaries(fn: ast.AST, known_locals: set[str] | None) -> int:
    """C5b: `t = E` ; S(t)  ->  S(E) when the unknown local t is used exactly once, in a once-evaluated part of the very
    next statement (exact up to the order of evaluation inside that statement).
    C5c: `t = E` ; `P = t`  ->  `P = E` ; `t = P` for a path P (attribute / subscript), so that C5 can see through t."""
    done = 0
    for _ in range(12):
        changed = False
        cands = dict(_unknown_single_binding(fn, known_locals))
        for block in _blocks(fn):
            for i in range(len(block) - 1):
                st, nxt = block[i], block[i + 1]
                tgt = _single_name_target(st)
                value_expr = st.value if tgt is not None else None
                if tgt is None and isinstance(st, ast.Assign) and len(st.targets) == 1 and isinstance(st.targets[0], ast.Tuple) and isinstance(st.value, ast.Call) and all(isinstance(x, ast.Name) for x in st.targets[0].elts):
                    # C5d: `a, b = CALL` ; S(b) with a unused  ->  S(CALL[1])   (all names unknown to the tables)
                    elts = st.targets[0].elts
                    if all(x.id in cands and cands[x.id] is x for x in elts):
                        loads = {x.id: [n for n in ast.walk(fn) if isinstance(n, ast.Name) and n.id == x.id and isinstance(n.ctx, ast.Load)] for x in elts}
                        live = [x for x in elts if loads[x.id]]
                        if len(live) == 1 and len({x.id for x in elts}) == len(elts):
                            tgt = live[0]
                            k = next(i for i, x in enumerate(elts) if x is tgt)
                            value_expr = ast.copy_location(ast.Subscript(value=st.value, slice=ast.Constant(value=k), ctx=ast.Load()), st.value)
                            ast.fix_missing_locations(value_expr)
                if tgt is None or tgt.id not in cands or cands[tgt.id] is not tgt:
                    continue
                name = tgt.id
                if _printed_by_fstring(fn, name):
                    continue
                uses = [n for n in ast.walk(fn) if isinstance(n, ast.Name) and n.id == name and isinstance(n.ctx, ast.Load)]
                if value_expr is not st.value and isinstance(nxt, ast.Assign) and isinstance(nxt.value, ast.Name):
                    pass
                # C5c
                if value_expr is st.value and isinstance(nxt, ast.Assign) and len(nxt.targets) == 1 and isinstance(nxt.targets[0], (ast.Attribute, ast.Subscript)) and isinstance(nxt.value, ast.Name) and nxt.value.id == name and _is_pure(nxt.targets[0]) and name not in {x.id for x in ast.walk(nxt.targets[0]) if isinstance(x, ast.Name)} and len(uses) > 1:
                    path_load = copy.deepcopy(nxt.targets[0])
                    for x in ast.walk(path_load):
                        if hasattr(x, "ctx"):
                            x.ctx = ast.Load()
                    block[i] = ast.copy_location(ast.Assign(targets=[nxt.targets[0]], value=st.value, lineno=st.lineno), st)
                    block[i + 1] = ast.copy_location(ast.Assign(targets=[ast.Name(id=name, ctx=ast.Store())], value=path_load, lineno=nxt.lineno), nxt)
                    ast.fix_missing_locations(block[i]); ast.fix_missing_locations(block[i + 1])
                    changed = True
                    break
                # C5b
                if len(uses) != 1:
                    continue
                use = uses[0]
                parts = _once_evaluated_parts(nxt)
                host = next((p for p in parts if any(x is use for x in ast.walk(p))), None)
                if host is None:
                    continue
                # not under a lambda / comprehension / conditional sub-expression of the host
                par = _parent_map(host)
                deferred = False
                n = use
                while id(n) in par:
                    n_parent = par[id(n)]
                    if isinstance(n_parent, (ast.Lambda, ast.ListComp, ast.SetComp, ast.DictComp, ast.GeneratorExp)):
                        deferred = True
                    if isinstance(n_parent, ast.IfExp) and n is not n_parent.test:
                        deferred = True
                    if isinstance(n_parent, ast.BoolOp) and n is not n_parent.values[0]:
                        deferred = True
                    n = n_parent
                if deferred:
                    continue
                sub = _Subst({name: value_expr})
                block[i + 1] = sub.visit(nxt)
                del block[i]
                done += 1
                changed = True
                break
            if changed:
                break
        if not changed:
            break
    return done


def loops_to_comprehensions(fn: ast.AST, known_locals: set[str] | None) -> int:
    """C7: `acc = {}` ; `for T in IT: [if c:] acc[K] = V`  ->  `acc = {K: V for T in IT if c}` (lists with append likewise),
    for an accumulator the tables do not know."""
    done = 0
    for _ in range(8):
        changed = False
        cands = dict(_unknown_single_binding(fn, known_locals))
        for block in _blocks(fn):
            for i in range(len(block) - 1):
                st, loop = block[i], block[i + 1]
                tgt = _single_name_target(st)
                if tgt is None or tgt.id not in cands or cands[tgt.id] is not tgt or not isinstance(loop, ast.For) or loop.orelse:
                    continue
                acc = tgt.id
                v = st.value
                kind = None
                if (isinstance(v, ast.Dict) and not v.keys) or (isinstance(v, ast.Call) and isinstance(v.func, ast.Name) and v.func.id == "dict" and not v.args and not v.keywords):
                    kind = "dict"
                elif (isinstance(v, ast.List) and not v.elts) or (isinstance(v, ast.Call) and isinstance(v.func, ast.Name) and v.func.id == "list" and not v.args and not v.keywords):
                    kind = "list"
                if kind is None:
                    continue
                conds: list[ast.expr] = []
                body = loop.body
                while len(body) == 1 and isinstance(body[0], ast.If) and not body[0].orelse:
                    conds.append(body[0].test)
                    body = body[0].body
                if len(body) != 1:
                    continue
                s = body[0]
                key = val = None
                if kind == "dict" and isinstance(s, ast.Assign) and len(s.targets) == 1 and isinstance(s.targets[0], ast.Subscript) and isinstance(s.targets[0].value, ast.Name) and s.targets[0].value.id == acc:
                    key, val = s.targets[0].slice, s.value
                elif kind == "list" and isinstance(s, ast.Expr) and isinstance(s.value, ast.Call) and isinstance(s.value.func, ast.Attribute) and s.value.func.attr == "append" and isinstance(s.value.func.value, ast.Name) and s.value.func.value.id == acc and len(s.value.args) == 1 and not s.value.keywords:
                    val = s.value.args[0]
                else:
                    continue
                mention = lambda e: e is not None and any(isinstance(x, ast.Name) and x.id == acc for x in ast.walk(e))
                if mention(loop.iter) or mention(key) or mention(val) or any(mention(c) for c in conds):
                    continue
                # loop variables must not be used after the loop
                tnames = {x.id for x in ast.walk(loop.target) if isinstance(x, ast.Name)}
                inside = {id(x) for x in ast.walk(loop)}
                for comp in ast.walk(fn):  # names re-bound by a comprehension are that comprehension's own
                    if isinstance(comp, (ast.ListComp, ast.SetComp, ast.DictComp, ast.GeneratorExp)):
                        own = {x.id for g in comp.generators for x in ast.walk(g.target) if isinstance(x, ast.Name)}
                        if own & tnames:
                            inside |= {id(x) for x in ast.walk(comp) if isinstance(x, ast.Name) and x.id in own}
                order = _seq(fn)
                if any(isinstance(x, ast.Name) and x.id in tnames and id(x) not in inside and isinstance(x.ctx, ast.Load) and order.get(id(x), 0) > order.get(id(loop), 0) for x in ast.walk(fn)):
                    continue
                gen = ast.comprehension(target=loop.target, iter=loop.iter, ifs=conds, is_async=0)
                comp = ast.DictComp(key=key, value=val, generators=[gen]) if kind == "dict" else ast.ListComp(elt=val, generators=[gen])
                comp = ast.copy_location(comp, loop)
                if isinstance(st, ast.Assign):
                    st.value = comp
                else:
                    st.value = comp
                ast.fix_missing_locations(st)
                del block[i + 1]
                done += 1
                changed = True
                break
            if changed:
                break
        if not changed:
            break
    return done


# ------------------------------------------------------------------------------------------------ C4 see-through of helpers
def _strip_doc(body: list[ast.stmt]) -> list[ast.stmt]:
    if body and isinstance(body[0], ast.Expr) and isinstance(body[0].value, ast.Constant) and isinstance(body[0].value.value, str):
        return body[1:]
    return body


def _returns(body: list[ast.stmt]) -> list[ast.Return]:
    out = []
    stack = list(body)
    while stack:
        n = stack.pop()
        if isinstance(n, ast.Return):
            out.append(n)
        if isinstance(n, (ast.FunctionDef, ast.AsyncFunctionDef, ast.ClassDef, ast.Lambda)):
            continue
        stack.extend(ast.iter_child_nodes(n))
    return out


def _tail_returns(body: list[ast.stmt]) -> list[ast.Return]:
    """Return statements in tail position of a statement list."""
    if not body:
        return []
    last = body[-1]
    if isinstance(last, ast.Return):
        return [last]
    if isinstance(last, ast.If):
        return _tail_returns(last.body) + _tail_returns(last.orelse)
    if isinstance(last, ast.With):
        return _tail_returns(last.body)
    return []


class Helper:
    def __init__(self, qual: str, node: ast.FunctionDef, cls: ast.ClassDef | None, module: str) -> None:
        self.qual, self.node, self.cls, self.module = qual, node, cls, module
        decos = [ast.unparse(d) for d in node.decorator_list]
        self.static = "staticmethod" in decos
        self.classmethod = "classmethod" in decos
        self.other_decorators = [d for d in decos if d not in ("staticmethod", "classmethod")]
        self.body = _strip_doc(node.body)

    @property
    def inlinable(self) -> bool:
        """Inlinable at *some* kind of site (see `returns_in_tail_position` / `has_nested_defs` for the per-site conditions)."""
        n = self.node
        if isinstance(n, ast.AsyncFunctionDef) or n.args.vararg or n.args.kwarg:
            return False
        if self.other_decorators == ["property"]:
            return self.is_expr
        if self.other_decorators in (["contextmanager"], ["contextlib.contextmanager"]):
            return not (n.args.vararg or n.args.kwarg)
        if any(d not in CONTEXT_DECORATORS for d in self.other_decorators):
            return False
        for x in ast.walk(n):
            if isinstance(x, (ast.Yield, ast.YieldFrom, ast.Global, ast.Nonlocal, ast.Await)):
                return False
            if x is not n and isinstance(x, ast.ClassDef):
                return False
            if isinstance(x, ast.Call) and isinstance(x.func, ast.Name) and x.func.id in ("super", "locals", "vars"):
                return False
            if isinstance(x, ast.Call) and ((isinstance(x.func, ast.Name) and x.func.id == n.name) or (isinstance(x.func, ast.Attribute) and x.func.attr == n.name)):
                return False  # recursion
        return True

    @property
    def returns_in_tail_position(self) -> bool:
        rets = _returns(self.body)
        tail = _tail_returns(self.body)
        return not any(r not in tail for r in rets)

    @property
    def has_nested_defs(self) -> bool:
        return any(x is not self.node and isinstance(x, (ast.FunctionDef, ast.AsyncFunctionDef, ast.Lambda)) for x in ast.walk(self.node))

    @property
    def has_value(self) -> bool:
        return any(r.value is not None and not (isinstance(r.value, ast.Constant) and r.value.value is None) for r in _returns(self.body))

    @property
    def is_expr(self) -> bool:
        return len(self.body) == 1 and isinstance(self.body[0], ast.Return) and self.body[0].value is not None


def _simple_arg(e: ast.expr) -> bool:
    if isinstance(e, (ast.Name, ast.Constant)):
        return True
    if isinstance(e, ast.Attribute):
        return _simple_arg(e.value)
    if isinstance(e, ast.Subscript):
        return _simple_arg(e.value) and _simple_arg(e.slice)
    return False


def _bind_args(h: Helper, call: ast.Call, receiver: ast.expr | None) -> dict[str, ast.expr] | None:
    a = h.node.args
    names = [x.arg for x in a.posonlyargs + a.args]
    defaults = dict(zip(reversed(names), reversed(a.defaults)))
    for kw, d in zip(a.kwonlyargs, a.kw_defaults):
        if d is not None:
            defaults[kw.arg] = d
    out: dict[str, ast.expr] = {}
    pos = list(names)
    if not h.static and h.cls is not None:
        if not pos or receiver is None:
            return None
        out[pos.pop(0)] = receiver
    if any(isinstance(x, ast.Starred) for x in call.args) or any(k.arg is None for k in call.keywords):
        return None
    if len(call.args) > len(pos):
        return None
    for p, v in zip(pos, call.args):
        out[p] = v
    allowed = set(names) | {x.arg for x in a.kwonlyargs}
    for k in call.keywords:
        if k.arg not in allowed or k.arg in out:
            return None
        out[k.arg] = k.value
    for p in allowed:
        if p not in out:
            if p not in defaults:
                return None
            out[p] = defaults[p]
    return out


def _dead_after(caller: ast.AST, call: ast.Call) -> set[str]:
    """Names of the caller that are never read after the call site (the call not being inside a loop of the caller)."""
    if not isinstance(caller, (ast.FunctionDef, ast.AsyncFunctionDef)):
        return set()
    parents = _parent_map(caller)
    n = call
    while id(n) in parents:
        n = parents[id(n)]
        if isinstance(n, (ast.For, ast.While, ast.AsyncFor, ast.Lambda, ast.ListComp, ast.SetComp, ast.DictComp, ast.GeneratorExp)):
            return set()
        if n is not caller and isinstance(n, (ast.FunctionDef, ast.AsyncFunctionDef)):
            return set()
    order = _seq(caller)
    inside = {id(x) for x in ast.walk(call)}
    pos = max(order[i] for i in inside if i in order)
    later_loads = {x.id for x in ast.walk(caller) if isinstance(x, ast.Name) and isinstance(x.ctx, ast.Load) and id(x) not in inside and order.get(id(x), 0) > pos}
    return _all_names(caller) - later_loads


def _identity_binding(h: Helper, call: ast.Call, receiver: ast.expr | None) -> bool:
    b = _bind_args(h, call, receiver)
    return b is not None and all(isinstance(v, ast.Name) and v.id == p for p, v in b.items())


def _instantiate(h: Helper, call: ast.Call, receiver: ast.expr | None, caller: ast.AST, uid: int, target_name: str | None = None, allow_paths: bool = False, caller_dead_after: bool = False) -> tuple[list[ast.stmt], list[ast.stmt]] | None:
    """(prelude statements binding complex arguments, helper body with names substituted); returns kept as Return."""
    binding = _bind_args(h, call, receiver)
    if binding is None:
        return None
    body = copy.deepcopy(h.body)
    holder = ast.Module(body=body, type_ignores=[])
    # every inlined instance gets its own source positions (same line, shifted column): analyses that name allocation
    # or call sites by position must not merge the instances of one helper
    for n in ast.walk(holder):
        if hasattr(n, "col_offset"):
            n.col_offset += 10000 * uid
            if getattr(n, "end_col_offset", None) is not None:
                n.end_col_offset += 10000 * uid
    caller_names = _all_names(caller)
    assigned_in_helper = set(_bound_names(h.node))
    # locals of the helper that clash with names of the caller are renamed
    # (a helper local that has the very name the call's result is assigned to may simply be that variable; so may one whose
    # namesake in the caller is dead from the call on: never read after it, and the call is not inside a loop)
    dead = _dead_after(caller, call)
    ren = {n: f"{n}__{h.node.name.strip('_')}{uid}" for n in assigned_in_helper if n in caller_names and n not in binding and n != target_name and n not in dead}
    prelude: list[ast.stmt] = []
    subst: dict[str, ast.expr] = {}
    name_args = [v.id for v in binding.values() if isinstance(v, ast.Name)]
    for p, v in binding.items():
        direct = isinstance(v, (ast.Name, ast.Constant)) or ((h.is_expr or allow_paths) and _simple_arg(v)) or (allow_paths and isinstance(v, ast.Call))
        if direct and p not in assigned_in_helper:
            subst[p] = v
        elif caller_dead_after and isinstance(v, ast.Name) and name_args.count(v.id) == 1 and (v.id == p or v.id not in assigned_in_helper):
            # `return helper(x)`: the caller's x is dead once the helper's body has run, so the helper may use (and re-bind)
            # the caller's variable itself
            if v.id != p:
                ren[p] = v.id
        else:
            # bound to a fresh local (unknown to every table, so C5 sees through it whenever that is exact)
            nm = f"{p}__{h.node.name.strip('_')}{uid}"
            ren[p] = nm
            prelude.append(ast.copy_location(ast.Assign(targets=[ast.Name(id=nm, ctx=ast.Store())], value=copy.deepcopy(v), lineno=call.lineno), call))
    if ren:
        holder = _Rename(ren).visit(holder)
    if subst:
        holder = _Subst(subst).visit(holder)
    for st in prelude:
        ast.fix_missing_locations(st)
    return prelude, holder.body


def _retarget(body: list[ast.stmt], make) -> list[ast.stmt]:
    """Replace tail-position returns by make(value) statements (in place on a copied body)."""
    if not body:
        return body
    last = body[-1]
    if isinstance(last, ast.Return):
        rep = make(last)
        body[-1:] = rep
    elif isinstance(last, ast.If):
        last.body = _retarget(last.body, make) or [ast.copy_location(ast.Pass(), last)]
        if last.orelse:
            last.orelse = _retarget(last.orelse, make)
    elif isinstance(last, ast.With):
        last.body = _retarget(last.body, make) or [ast.copy_location(ast.Pass(), last)]
    return body


class _Inliner:
    def __init__(self, trees: dict[str, ast.Module], known_funcs: set[str]) -> None:
        self.trees = trees
        self.known = known_funcs
        self.uid = 0
        self.inlined: list[str] = []

    # -- enumerate defs with qualnames (top-level functions and methods only)
    def defs(self):
        for mod, tree in self.trees.items():
            for st in tree.body:
                if isinstance(st, (ast.FunctionDef, ast.AsyncFunctionDef)):
                    yield f"{mod}:{st.name}", st, None, mod, tree.body
                elif isinstance(st, ast.ClassDef):
                    for s2 in st.body:
                        if isinstance(s2, (ast.FunctionDef, ast.AsyncFunctionDef)):
                            yield f"{mod}:{st.name}.{s2.name}", s2, st, mod, st.body

    def run(self) -> None:
        for _ in range(4):
            all_defs = list(self.defs())
            # a method name must be unique among all methods (an attribute call could reach any class); a module-level
            # function only within its own module (it is referenced by bare name there; imports elsewhere block inlining)
            names: dict[tuple, int] = {}
            for q, n, c, m, holder in all_defs:
                key = ("method", n.name) if c is not None else (m, n.name)
                names[key] = names.get(key, 0) + 1
                if c is None:
                    names[("method", n.name)] = names.get(("method", n.name), 0)
            # a function the tables know *by name* that merely moved (to a base class, to another module) is still known
            known_names = {q.rsplit(":", 1)[1].split(".")[-1] for q in self.known if ".<" not in q}
            cands = [Helper(q, n, c, m) for q, n, c, m, holder in all_defs if q not in self.known and n.name not in known_names and names[("method", n.name) if c is not None else (m, n.name)] == 1 and not (n.name.startswith("__") and n.name.endswith("__"))]
            cands = [h for h in cands if h.inlinable]
            progress = False
            for h in cands:
                if self._inline_everywhere(h):
                    progress = True
            if not progress:
                break

    def _refs(self, h: Helper):
        """(module tree, reference node) for every mention of the helper's name outside its own body."""
        nm = h.node.name
        for mod, tree in self.trees.items():
            for n in ast.walk(tree):
                if isinstance(n, ast.Name) and n.id == nm and h.cls is None:
                    if mod == h.module:
                        yield mod, n
                elif isinstance(n, ast.Attribute) and n.attr == nm:
                    if h.cls is not None or (isinstance(n.value, ast.Name) and n.value.id == h.module.split(".")[-1]):
                        yield mod, n
                elif isinstance(n, ast.ImportFrom) and h.cls is None and any(a.name == nm for a in n.names) and (n.module or "").split(".")[-1] == h.module.split(".")[-1]:
                    yield mod, n  # imported elsewhere: not a call -> blocks inlining
                elif isinstance(n, ast.alias) and n.name == nm and h.cls is not None:
                    yield mod, n
                elif isinstance(n, ast.Constant) and n.value == nm:
                    yield mod, n  # getattr(self, "name") / __all__

    def _inline_property(self, h: Helper) -> bool:
        """An unknown read-only @property whose body is one `return <expr>`: every `obj._prop` read becomes that expression with
        `self` replaced by `obj` (a plain name)."""
        own = {id(n) for n in ast.walk(h.node)}
        refs = [(m, n) for m, n in self._refs(h) if id(n) not in own]
        if not refs or not h.is_expr or len(_params(h.node)) != 1:
            return False
        selfname = _params(h.node)[0]
        if any(not (isinstance(n, ast.Attribute) and isinstance(n.ctx, ast.Load) and isinstance(n.value, ast.Name)) for _, n in refs):
            return False
        expr = h.body[0].value
        targets = {id(n): n for _, n in refs}

        class R(ast.NodeTransformer):
            def visit_Attribute(self, node):
                if id(node) in targets:
                    new = _Subst({selfname: node.value}).visit(ast.Expression(body=copy.deepcopy(expr))).body
                    return ast.copy_location(new, node)
                self.generic_visit(node)
                return node

        for mod in {m for m, _ in refs}:
            self.trees[mod] = R().visit(self.trees[mod])
        for q, n, c, m, holder in list(self.defs()):
            if n is h.node:
                holder.remove(n)
                if not holder:
                    holder.append(ast.Pass())
        self.inlined.append(h.qual + " (property)")
        return True

    def _inline_contextmanager(self, h: Helper) -> bool:
        """An unknown `@contextmanager` helper of the shape  PRE ; try: yield  finally: FIN  used as `with helper(args):` (no
        `as`): the with-statement becomes  PRE ; try: BODY finally: FIN  with the arguments in place of the parameters."""
        body = h.body
        if not body or not isinstance(body[-1], ast.Try):
            return False
        t = body[-1]
        if t.handlers or t.orelse or not t.finalbody or len(t.body) != 1 or not (isinstance(t.body[0], ast.Expr) and isinstance(t.body[0].value, ast.Yield) and t.body[0].value.value is None):
            return False
        if any(isinstance(x, (ast.Yield, ast.YieldFrom)) for st in body[:-1] + t.finalbody for x in ast.walk(st)):
            return False
        own = {id(n) for n in ast.walk(h.node)}
        refs = [(m, n) for m, n in self._refs(h) if id(n) not in own]
        if not refs:
            return False
        staged = []
        for mod, ref in refs:
            tree = self.trees[mod]
            parents = _parent_map(tree)
            call = parents.get(id(ref))
            item = parents.get(id(call)) if isinstance(call, ast.Call) and call.func is ref else None
            w = parents.get(id(item)) if isinstance(item, ast.withitem) else None
            if not (isinstance(w, ast.With) and len(w.items) == 1 and item.optional_vars is None and item.context_expr is call):
                return False
            fn = w
            while fn is not None and not isinstance(fn, (ast.FunctionDef, ast.AsyncFunctionDef)):
                fn = parents.get(id(fn))
            block = _find_block(fn, w) if fn is not None else None
            if block is None:
                return False
            self.uid += 1
            inst = _instantiate(h, call, None, fn, self.uid, allow_paths=False)
            if inst is None:
                return False
            prelude, hb = inst
            t2 = hb[-1]
            new_try = ast.copy_location(ast.Try(body=w.body, handlers=[], orelse=[], finalbody=t2.finalbody), w)
            staged.append((block, w, prelude + hb[:-1] + [new_try]))
        for block, w, new in staged:
            i = next(k for k, s_ in enumerate(block) if s_ is w)
            block[i : i + 1] = new
        for q, n, c, m, holder in list(self.defs()):
            if n is h.node:
                holder.remove(n)
                if not holder:
                    holder.append(ast.Pass())
        self.inlined.append(h.qual + " (context manager)")
        return True

    def _inline_everywhere(self, h: Helper) -> bool:
        if h.other_decorators == ["property"]:
            return self._inline_property(h)
        if h.other_decorators in (["contextmanager"], ["contextlib.contextmanager"]):
            return self._inline_contextmanager(h)
        own = {id(n) for n in ast.walk(h.node)}
        refs = [(m, n) for m, n in self._refs(h) if id(n) not in own]
        if not refs:
            return False  # unused new function: nothing to see through, leave it (its own body is analysed as is)
        # every reference must be the func of a Call that is the whole value of a simple statement; a call of a statement
        # helper sitting inside a larger expression (`xs.append(self._h(a))`) is first given a statement of its own
        # (`t = self._h(a); xs.append(t)`) when everything the statement evaluates before it is pure
        plans = []
        for mod, ref in refs:
            site = self._site(mod, ref, h)
            if site is None and not h.is_expr and self._hoist(mod, ref):
                site = self._site(mod, ref, h)
            if site is None:
                return False
            plans.append(site)
        # apply on copies of the blocks so a failure leaves everything unchanged
        staged = []
        for block, idx, stmt, call, receiver, fn in plans:
            new = self._expand(h, stmt, call, receiver, fn)
            if new is None:
                return False
            staged.append((block, stmt, new))
        for block, stmt, new in staged:
            i = next(k for k, s in enumerate(block) if s is stmt)
            block[i : i + 1] = new
        # drop the helper
        for q, n, c, m, holder in list(self.defs()):
            if n is h.node:
                holder.remove(n)
                if not holder:
                    holder.append(ast.Pass())
        self.inlined.append(h.qual)
        return True

    def _hoist(self, mod: str, ref: ast.AST) -> bool:
        tree = self.trees[mod]
        parents: dict[int, ast.AST] = {}
        for p in ast.walk(tree):
            for c in ast.iter_child_nodes(p):
                parents[id(c)] = p
        call = parents.get(id(ref))
        if not (isinstance(call, ast.Call) and call.func is ref):
            return False
        # climb to the statement; everything evaluated before the call on the way must be pure
        node: ast.AST = call
        while True:
            par = parents.get(id(node))
            if par is None or isinstance(par, (ast.Lambda, ast.GeneratorExp, ast.ListComp, ast.SetComp, ast.DictComp, ast.IfExp, ast.BoolOp, ast.comprehension, ast.NamedExpr)):
                return False
            if isinstance(par, ast.stmt):
                stmt = par
                break
            earlier: list[ast.AST] = []
            if isinstance(par, ast.Call):
                seq = [par.func] + list(par.args) + [k.value for k in par.keywords]
                earlier = seq[: next(i for i, x in enumerate(seq) if x is node)] if any(x is node for x in seq) else [None]
            elif isinstance(par, ast.keyword) or isinstance(par, ast.Starred):
                earlier = []
            elif isinstance(par, (ast.Tuple, ast.List)):
                earlier = par.elts[: next(i for i, x in enumerate(par.elts) if x is node)]
            elif isinstance(par, ast.BinOp):
                earlier = [par.left] if node is par.right else []
            elif isinstance(par, ast.Attribute):
                earlier = []
            elif isinstance(par, ast.Subscript):
                earlier = [par.value] if node is par.slice else []
            else:
                return False
            if any(e is None or not _is_pure(e) for e in earlier):
                return False
            node = par
        if not (isinstance(stmt, (ast.Expr, ast.Assign, ast.AnnAssign, ast.AugAssign, ast.Return)) and getattr(stmt, "value", None) is not None and any(x is call for x in ast.walk(stmt.value))):
            return False
        if isinstance(stmt, (ast.Assign, ast.AnnAssign, ast.AugAssign)) and not all(isinstance(t, ast.Name) for t in (stmt.targets if isinstance(stmt, ast.Assign) else [stmt.target])):
            return False  # a subscript / attribute target is evaluated before the value only partly: keep out
        fn = stmt
        while fn is not None and not isinstance(fn, (ast.FunctionDef, ast.AsyncFunctionDef, ast.Module)):
            fn = parents.get(id(fn))
        if not isinstance(fn, (ast.FunctionDef, ast.AsyncFunctionDef)):
            return False
        block = _find_block(fn, stmt)
        if block is None:
            return False
        self.uid += 1
        tmp = f"_hoisted{self.uid}"
        asg = ast.fix_missing_locations(ast.copy_location(ast.Assign(targets=[ast.Name(id=tmp, ctx=ast.Store())], value=call, lineno=stmt.lineno), stmt))

        class R(ast.NodeTransformer):
            def visit_Call(self, n):
                if n is call:
                    return ast.copy_location(ast.Name(id=tmp, ctx=ast.Load()), n)
                self.generic_visit(n)
                return n

        stmt.value = R().visit(stmt.value)
        i = next(k for k, s_ in enumerate(block) if s_ is stmt)
        block.insert(i, asg)
        return True

    def _site(self, mod: str, ref: ast.AST, h: Helper):
        tree = self.trees[mod]
        if not isinstance(ref, (ast.Name, ast.Attribute)):
            return None
        # find the enclosing function, statement and block
        parents: dict[int, ast.AST] = {}
        for p in ast.walk(tree):
            for c in ast.iter_child_nodes(p):
                parents[id(c)] = p
        call = parents.get(id(ref))
        if not (isinstance(call, ast.Call) and call.func is ref):
            return None
        receiver = None
        if isinstance(ref, ast.Attribute):
            if h.cls is None:
                # module.func(...) form
                receiver = None
            elif h.static or h.classmethod:
                receiver = ref.value
                if h.static:
                    receiver = None
            else:
                receiver = ref.value
                if not (isinstance(receiver, ast.Name)):
                    return None  # receiver must be a plain name (self / obj) to be substituted safely
        elif h.cls is not None:
            return None
        if h.classmethod:
            return None
        stmt = parents.get(id(call))
        value_holder = stmt
        if isinstance(stmt, (ast.Assign, ast.AnnAssign, ast.Return, ast.Expr, ast.AugAssign)) and stmt.value is call:
            pass
        elif h.is_expr:
            # pure expression helper: substitute anywhere inside a statement
            while stmt is not None and not isinstance(stmt, ast.stmt):
                stmt = parents.get(id(stmt))
            if stmt is None:
                return None
        else:
            return None
        fn = stmt
        while fn is not None and not isinstance(fn, (ast.FunctionDef, ast.AsyncFunctionDef, ast.Module)):
            fn = parents.get(id(fn))
        if not isinstance(fn, (ast.FunctionDef, ast.AsyncFunctionDef)):
            return None
        # expression-position sites inside lambdas / comprehensions are fine only for expression helpers
        block = _find_block(fn, stmt)
        if block is None:
            for hnd in ast.walk(fn):
                if isinstance(hnd, ast.ExceptHandler) and any(s is stmt for s in hnd.body):
                    block = hnd.body
        if block is None:
            return None
        return block, None, stmt, call, receiver, fn

    def _expand(self, h: Helper, stmt: ast.stmt, call: ast.Call, receiver, fn) -> list[ast.stmt] | None:
        self.uid += 1
        tname = None
        if isinstance(stmt, ast.Assign) and len(stmt.targets) == 1 and isinstance(stmt.targets[0], ast.Name) and stmt.value is call:
            tname = stmt.targets[0].id
            # only when the helper never reads that name before binding it itself (it is not one of its parameters)
            if tname in _params(h.node):
                tname = None
        # a `return helper(...)` site keeps the helper's returns as returns wherever they are; any other site turns them
        # into assignments, which is exact only for returns in tail position
        if not (isinstance(stmt, ast.Return) and stmt.value is call) and not h.returns_in_tail_position:
            return None
        # a context decorator of the helper (torch.no_grad()) must already be in force in the caller
        if h.other_decorators and not set(h.other_decorators) <= {ast.unparse(d) for d in getattr(fn, "decorator_list", [])}:
            return None
        inst = _instantiate(h, call, receiver, fn, self.uid, tname, caller_dead_after=isinstance(stmt, ast.Return) and stmt.value is call)
        if inst is None:
            return None
        prelude, body = inst
        if h.has_nested_defs and (prelude or not _identity_binding(h, call, receiver)):
            return None  # closures inside the helper capture its variables: only a name-for-name call is inlined
        direct = isinstance(stmt, (ast.Assign, ast.AnnAssign, ast.Return, ast.Expr, ast.AugAssign)) and stmt.value is call
        if h.is_expr and not prelude:
            expr = body[0].value

            class R(ast.NodeTransformer):
                def visit_Call(self, node):
                    if node is call:
                        return ast.copy_location(expr, node)
                    self.generic_visit(node)
                    return node

            return [R().visit(stmt)]
        if not direct:
            return None
        if isinstance(stmt, ast.Return):
            return prelude + body + ([] if _terminates(body) else [ast.copy_location(ast.Return(value=None), stmt)])
        if isinstance(stmt, ast.Expr):
            def make(r: ast.Return):
                if r.value is None or isinstance(r.value, ast.Constant):
                    return []
                return [ast.copy_location(ast.Expr(value=r.value), r)]
        elif isinstance(stmt, ast.Assign):
            def make(r: ast.Return):
                v = r.value if r.value is not None else ast.Constant(value=None)
                return [ast.fix_missing_locations(ast.copy_location(ast.Assign(targets=copy.deepcopy(stmt.targets), value=v, lineno=r.lineno), r))]
        elif isinstance(stmt, ast.AnnAssign):
            def make(r: ast.Return):
                v = r.value if r.value is not None else ast.Constant(value=None)
                return [ast.fix_missing_locations(ast.copy_location(ast.AnnAssign(target=copy.deepcopy(stmt.target), annotation=stmt.annotation, value=v, simple=stmt.simple), r))]
        else:  # AugAssign
            def make(r: ast.Return):
                v = r.value if r.value is not None else ast.Constant(value=None)
                return [ast.fix_missing_locations(ast.copy_location(ast.AugAssign(target=copy.deepcopy(stmt.target), op=stmt.op, value=v), r))]
        if not _tail_returns(body) and not isinstance(stmt, ast.Expr):
            # procedure used as a value: x = None
            body = body + [ast.copy_location(ast.Return(value=None), stmt)]
        body = _retarget(body, make)
        body = [b for b in body if not (isinstance(b, ast.Assign) and len(b.targets) == 1 and isinstance(b.targets[0], ast.Name) and isinstance(b.value, ast.Name) and b.targets[0].id == b.value.id)]
        out = prelude + body
        return out or [ast.copy_location(ast.Pass(), stmt)]


def composed_call(helper_node: ast.FunctionDef, is_method: bool, call: ast.Call, caller: ast.AST) -> list[ast.stmt] | None:
    """Analysis view (not a rewrite): the body of a known helper with its parameters replaced by the argument expressions
    of one call site, so that a rule can check caller and callee *together* and does not depend on where the interface
    between them was drawn (which side translates an index, which names the parameters have)."""
    cls = ast.ClassDef(name="_", bases=[], keywords=[], body=[], decorator_list=[]) if is_method else None
    h = Helper("view", helper_node, cls, "")
    receiver = call.func.value if isinstance(call.func, ast.Attribute) else None
    if h.static:
        receiver = None
    inst = _instantiate(h, call, receiver, caller, 990, allow_paths=True)
    if inst is None:
        return None
    prelude, body = inst
    return prelude + body


# ------------------------------------------------------------------------------------------------ C6 nested def -> lambda
def _ladder_expr(body: list[ast.stmt]) -> ast.expr | None:
    """`if c: return a` ; `return b`  (any depth)  ->  `a if c else b`."""
    body = _strip_doc(body)
    if len(body) == 1 and isinstance(body[0], ast.Return) and body[0].value is not None:
        return body[0].value
    if body and isinstance(body[0], ast.If):
        st = body[0]
        rest = st.orelse if st.orelse else body[1:]
        if st.orelse and body[1:]:
            return None
        a, b = _ladder_expr(st.body), _ladder_expr(rest)
        if a is not None and b is not None:
            return ast.copy_location(ast.IfExp(test=st.test, body=a, orelse=b), st)
    return None


def reduce_local_lambdas(fn: ast.AST, known_locals) -> int:
    """C6b: a local bound once to a lambda (`f = lambda x: E`, incl. a nested def already turned into one) whose every use is a
    direct positional call `f(a)` with pure arguments is beta-reduced — `f(a)` becomes `E[x := a]` — and the binding dropped,
    provided the tables do not know the name and nothing E reads freely is bound after the lambda is made."""
    done = 0
    bound = _bound_names(fn)
    for holder in list(ast.walk(fn)):
        for fld in ("body", "orelse", "finalbody"):
            block = getattr(holder, fld, None)
            if not (isinstance(block, list) and block and isinstance(block[0], ast.stmt)):
                continue
            for st in list(block):
                if isinstance(st, ast.FunctionDef) and st is not fn and not st.decorator_list and _ladder_expr(st.body) is not None:
                    # a nested `def f(x): return E` used several times is the lambda as well
                    args_ = copy.deepcopy(st.args)
                    for x_ in args_.posonlyargs + args_.args:
                        x_.annotation = None
                    name, lam = st.name, ast.Lambda(args=args_, body=_ladder_expr(st.body))
                elif isinstance(st, ast.Assign) and len(st.targets) == 1 and isinstance(st.targets[0], ast.Name) and isinstance(st.value, ast.Lambda):
                    name, lam = st.targets[0].id, st.value
                else:
                    continue
                if (known_locals is not None and name in known_locals) or len(bound.get(name, [])) != 1:
                    continue
                a = lam.args
                if a.vararg or a.kwarg or a.kwonlyargs or a.defaults or a.posonlyargs:
                    continue
                params = [x.arg for x in a.args]
                uses = [n for n in ast.walk(fn) if isinstance(n, ast.Name) and n.id == name and isinstance(n.ctx, ast.Load)]
                parents = {id(c): p for p in ast.walk(fn) for c in ast.iter_child_nodes(p)}
                calls = [parents.get(id(u)) for u in uses]
                # arguments are pure, or E is a call `g(p1, …, pn, <pure…>)` that evaluates exactly the parameters, once each, in order
                # (then substituting even an impure argument keeps what is evaluated and in which order)
                e_ = lam.body
                in_order = isinstance(e_, ast.Call) and _is_pure(e_.func) and not e_.keywords and [x.id for x in e_.args if isinstance(x, ast.Name) and x.id in params] == params and all((isinstance(x, ast.Name) and x.id in params) or _is_pure(x) for x in e_.args)
                uses = [u for u in uses if not any(u is x for x in ast.walk(st))] if isinstance(st, ast.FunctionDef) else uses
                calls = [parents.get(id(u)) for u in uses]
                if not uses or not all(isinstance(c, ast.Call) and c.func is u and len(c.args) == len(params) and not c.keywords and (in_order or all(_is_pure(x) for x in c.args)) for c, u in zip(calls, uses)):
                    continue
                free = {x.id for x in ast.walk(lam.body) if isinstance(x, ast.Name) and isinstance(x.ctx, ast.Load)} - set(params)
                order = _seq(fn)
                later_store = any(isinstance(x, ast.Name) and isinstance(x.ctx, (ast.Store, ast.Del)) and x.id in free and order.get(id(x), 0) > order.get(id(st), 0) for x in ast.walk(fn))
                if later_store or any(order.get(id(u), 0) < order.get(id(st), 0) for u in uses):
                    continue
                # each parameter must be used at most once in E, or the argument duplicated is pure anyway (it is: checked above)
                for c in calls:
                    sub = dict(zip(params, c.args))
                    new = _Subst({k: v for k, v in sub.items()}).visit(copy.deepcopy(lam.body))
                    par = parents.get(id(c))
                    for f_, v_ in ast.iter_fields(par):
                        if v_ is c:
                            setattr(par, f_, ast.copy_location(new, c))
                        elif isinstance(v_, list):
                            for i_, x_ in enumerate(v_):
                                if x_ is c:
                                    v_[i_] = ast.copy_location(new, c)
                block.remove(st)
                if not block:
                    block.append(ast.Pass())
                done += 1
                bound = _bound_names(fn)
    return done


def nested_defs_to_lambdas(fn: ast.AST, known_inner: set[str]) -> int:
    done = 0
    for blk_owner in list(ast.walk(fn)):
        for fld in ("body", "orelse", "finalbody"):
            block = getattr(blk_owner, fld, None)
            if not (isinstance(block, list) and block and isinstance(block[0], ast.stmt)):
                continue
            for st in list(block):
                if not (isinstance(st, ast.FunctionDef) and st is not fn and st.name not in known_inner and not st.decorator_list):
                    continue
                a = st.args
                if a.vararg or a.kwarg or a.kwonlyargs or a.defaults:
                    continue
                expr = _ladder_expr(st.body)
                if expr is None:
                    continue
                uses = [n for n in ast.walk(fn) if isinstance(n, ast.Name) and n.id == st.name and isinstance(n.ctx, ast.Load)]
                inside = {id(n) for n in ast.walk(st)}
                uses = [u for u in uses if id(u) not in inside]
                rebinds = [n for n in ast.walk(fn) if isinstance(n, ast.Name) and n.id == st.name and isinstance(n.ctx, ast.Store)]
                if len(uses) != 1 or rebinds:
                    continue
                args = copy.deepcopy(a)
                for x in args.posonlyargs + args.args:
                    x.annotation = None
                lam = ast.copy_location(ast.Lambda(args=args, body=expr), st)
                ast.fix_missing_locations(lam)

                class R(ast.NodeTransformer):
                    def visit_Name(self, node):
                        return lam if node is uses[0] else node

                for i, s in enumerate(block):
                    if s is not st:
                        block[i] = R().visit(s)
                # the use may sit in a sibling block (rare): search the whole function if not replaced
                if not any(n is lam for n in ast.walk(fn)):
                    R().visit(fn)
                block.remove(st)
                if not block:
                    block.append(ast.copy_location(ast.Pass(), st))
                done += 1
    return done


# ------------------------------------------------------------------------------------------------ C8 canonical local names
class ScopedRename(ast.NodeTransformer):
    """Simultaneous renaming of function-scope names; nested scopes that re-bind a name keep their own variable."""

    def __init__(self, mapping: dict[str, str]) -> None:
        self.mapping = dict(mapping)

    def visit_Name(self, node: ast.Name):
        if node.id in self.mapping:
            node.id = self.mapping[node.id]
        return node

    def visit_FunctionDef(self, node: ast.FunctionDef):
        if node.name in self.mapping:
            node.name = self.mapping[node.name]
        rebound = set(_params(node)) | set(_bound_names(node))
        node.decorator_list = [self.visit(d) for d in node.decorator_list]
        node.args.defaults = [self.visit(d) for d in node.args.defaults]
        node.args.kw_defaults = [self.visit(d) if d is not None else None for d in node.args.kw_defaults]
        saved = self.mapping
        self.mapping = {k: v for k, v in saved.items() if k not in rebound}
        node.body = [self.visit(s) for s in node.body]
        self.mapping = saved
        return node

    def visit_Lambda(self, node: ast.Lambda):
        saved = self.mapping
        self.mapping = {k: v for k, v in saved.items() if k not in set(_params(node))}
        node.body = self.visit(node.body)
        self.mapping = saved
        return node

    def _comp(self, node):
        own = {x.id for g in node.generators for x in ast.walk(g.target) if isinstance(x, ast.Name)}
        node.generators[0].iter = self.visit(node.generators[0].iter)  # evaluated in the enclosing scope
        saved = self.mapping
        self.mapping = {k: v for k, v in saved.items() if k not in own}
        for fld in ("elt", "key", "value"):
            if hasattr(node, fld):
                setattr(node, fld, self.visit(getattr(node, fld)))
        for i, g in enumerate(node.generators):
            g.target = self.visit(g.target)
            if i > 0:
                g.iter = self.visit(g.iter)
            g.ifs = [self.visit(c) for c in g.ifs]
        self.mapping = saved
        return node

    visit_ListComp = visit_SetComp = visit_DictComp = visit_GeneratorExp = _comp

    def visit_ExceptHandler(self, node: ast.ExceptHandler):
        if node.name in self.mapping:
            node.name = self.mapping[node.name]
        self.generic_visit(node)
        return node

    def visit_keyword(self, node: ast.keyword):
        node.value = self.visit(node.value)
        return node


def _preorder(node: ast.AST, into_defs: bool = False):
    yield node
    for c in ast.iter_child_nodes(node):
        if not into_defs and isinstance(c, (ast.FunctionDef, ast.AsyncFunctionDef, ast.ClassDef)):
            yield c  # the definition is a binder of the enclosing scope; its inside is another function
            continue
        yield from _preorder(c, into_defs)


def ordered_binders(fn: ast.AST) -> tuple[list[str], list[tuple[ast.AST, list[str]]]]:
    """(function-scope locals in order of first binding, [(lambda / comprehension node, its binder names)] in order)."""
    params = set(_params(fn))
    comp_targets: set[int] = set()
    scopes: list[tuple[ast.AST, list[str]]] = []
    nodes = [n for st in fn.body for n in _preorder(st)]
    for n in nodes:
        if isinstance(n, (ast.ListComp, ast.SetComp, ast.DictComp, ast.GeneratorExp)):
            names = []
            for g in n.generators:
                for t in _preorder(g.target):
                    comp_targets.add(id(t))
                    if isinstance(t, ast.Name):
                        names.append(t.id)
            scopes.append((n, names))
        elif isinstance(n, ast.Lambda):
            scopes.append((n, _params(n)))
    locals_: list[str] = []
    for n in nodes:
        nm = None
        if isinstance(n, ast.Name) and isinstance(n.ctx, (ast.Store, ast.Del)) and id(n) not in comp_targets:
            nm = n.id
        elif isinstance(n, (ast.FunctionDef, ast.AsyncFunctionDef, ast.ClassDef)):
            nm = n.name
        elif isinstance(n, ast.ExceptHandler) and n.name:
            nm = n.name
        if nm is not None and nm not in params and nm not in locals_:
            # names bound inside a lambda body cannot exist; inside comprehensions walrus only (ignored)
            locals_.append(nm)
    return locals_, scopes


def _align(known: list, current: list) -> dict[int, int]:
    """current index -> known index for entries that correspond: equal entries anchor the alignment, and a run of differing
    entries between two anchors corresponds pairwise when both runs have the same length."""
    import difflib

    out: dict[int, int] = {}
    sm = difflib.SequenceMatcher(a=[str(k) for k in known], b=[str(c) for c in current], autojunk=False)
    for tag, i1, i2, j1, j2 in sm.get_opcodes():
        if tag == "equal" or (tag == "replace" and i2 - i1 == j2 - j1):
            for d in range(i2 - i1):
                out[j1 + d] = i1 + d
    return out


def canonical_names(fn: ast.AST, known: dict) -> int:
    """C8: give the locals (and comprehension / lambda variables) of a known function the names the tables know, when the
    correspondence is unambiguous.  Any consistent renaming preserves behaviour, so a wrong guess cannot hide anything: it
    can only leave a rule looking at names it does not recognise."""
    done = 0
    locals_, scopes = ordered_binders(fn)
    k_locals, k_scopes = known.get("locals", []), known.get("scopes", [])
    all_names = _all_names(fn)
    if locals_ != k_locals:
        al = _align(k_locals, locals_)
        mapping = {}
        for j, i in al.items():
            if locals_[j] != k_locals[i]:
                mapping[locals_[j]] = k_locals[i]
        # a target name still in use by something that is not being renamed away would capture it
        staying = _scope_names(fn) - set(mapping)
        mapping = {a: b for a, b in mapping.items() if b not in staying and not _printed_by_fstring(fn, a)}
        if mapping and len(set(mapping.values())) == len(mapping):
            r = ScopedRename(mapping)
            fn.body = [r.visit(st) for st in fn.body]
            done += len(mapping)
            locals_, scopes = ordered_binders(fn)
    cur_sig = [tuple(n) for _, n in scopes]
    k_sig = [tuple(n) for n in k_scopes]
    if cur_sig != k_sig:
        if len(cur_sig) == len(k_sig):
            al = {i: i for i in range(len(cur_sig))}
        else:
            # scopes that already carry a known scope's names are that scope (in order); only the rest is aligned by arity
            al, used = {}, set()
            for j, c in enumerate(cur_sig):
                for i, k in enumerate(k_sig):
                    if i not in used and k == c and (not al or i > max(al.values())):
                        al[j] = i
                        used.add(i)
                        break
            rest_c = [j for j in range(len(cur_sig)) if j not in al]
            rest_k = [i for i in range(len(k_sig)) if i not in used]
            sub = _align([len(k_sig[i]) for i in rest_k], [len(cur_sig[j]) for j in rest_c])
            for jj, ii in sub.items():
                al[rest_c[jj]] = rest_k[ii]
        for j, i in al.items():
            node, names = scopes[j]
            want = list(k_sig[i])
            if names == want or len(names) != len(want) or len(set(names)) != len(names) or len(set(want)) != len(want):
                continue
            mapping = {a: b for a, b in zip(names, want) if a != b}
            inner_names = {x.id for x in ast.walk(node) if isinstance(x, ast.Name)} | {a.arg for x in ast.walk(node) if isinstance(x, ast.Lambda) for a in x.args.args}
            if any(b in (inner_names - set(mapping)) for b in mapping.values()):
                continue
            _rename_scope(node, mapping)
            done += len(mapping)
    return done


def _rename_scope(node: ast.AST, mapping: dict[str, str]) -> None:
    """Rename the binders of one lambda / comprehension inside that node (nested scopes re-binding a name keep theirs)."""

    class R(ScopedRename):
        top = True

    r = R(mapping)
    if isinstance(node, ast.Lambda):
        for a in node.args.posonlyargs + node.args.args + node.args.kwonlyargs:
            if a.arg in mapping:
                a.arg = mapping[a.arg]
        node.body = r.visit(node.body)
        return
    # comprehension: everything except the first iterable belongs to the comprehension's scope
    for fld in ("elt", "key", "value"):
        if hasattr(node, fld):
            setattr(node, fld, r.visit(getattr(node, fld)))
    for i, g in enumerate(node.generators):
        g.target = r.visit(g.target)
        if i > 0:
            g.iter = r.visit(g.iter)
        g.ifs = [r.visit(c) for c in g.ifs]


# ------------------------------------------------------------------------------------------------ C0 vanished known helpers
def _alpha_text(stmts: list[ast.stmt], free: set[str]) -> str:
    """Text of a statement list with every name that is not in `free` renamed by order of first occurrence."""
    holder = ast.Module(body=copy.deepcopy(stmts), type_ignores=[])
    order = _seq(holder)
    names: dict[str, str] = {}
    for n in sorted(ast.walk(holder), key=lambda x: order.get(id(x), 0)):
        if isinstance(n, ast.Name) and n.id not in free:
            names.setdefault(n.id, f"v{len(names)}")
    for n in ast.walk(holder):
        if isinstance(n, ast.Name) and n.id in names:
            n.id = names[n.id]
        if isinstance(n, ast.JoinedStr):
            n.values = []
    return ast.unparse(holder)


def restore_merged_helpers(trees: dict[str, ast.Module], known: dict) -> list[str]:
    """C0: a private function the tables know has vanished and the statements its known caller now has in the place of the
    call are exactly what inlining the known function there produces (up to the names of its locals): the call and the
    function are put back.  *Verified* un-inlining — a merged copy that was changed in any way is left as it is, and the
    rules anchored on the vanished function then fail as analysis errors rather than judge stale code."""
    sources: dict[str, str] = known.get("sources", {})
    if not sources:
        return []
    current = {q for mod, tree in trees.items() for q, _ in _functions_with_quals(mod, tree)}
    cur_names = {q.rsplit(":", 1)[1].split(".")[-1] for q in current}
    restored: list[str] = []
    for q, src in sources.items():
        name = q.rsplit(":", 1)[1].split(".")[-1]
        if q in current or name in cur_names or not name.startswith("_") or name.startswith("__"):
            continue
        mod, rest = q.split(":")
        if mod not in trees:
            continue
        cls_name = rest.split(".")[0] if "." in rest else None
        x_def = ast.parse(src).body[0]
        # known callers present in the current tree
        for cq, csrc in sources.items():
            if cq == q or cq not in current or (name + "(") not in csrc:
                continue
            cmod, crest = cq.split(":")
            f_known = ast.parse(csrc).body[0]
            f_cur = next((fn for qq, fn in _functions_with_quals(cmod, trees[cmod]) if qq == cq), None)
            if f_cur is None:
                continue
            # the statement of the known caller that calls X, and its path
            site = None
            for blk_path, block in _blocks_with_paths(f_known):
                for i, st in enumerate(block):
                    calls = [c for c in ast.walk(st) if isinstance(c, ast.Call) and ((isinstance(c.func, ast.Attribute) and c.func.attr == name) or (isinstance(c.func, ast.Name) and c.func.id == name))]
                    if calls and isinstance(st, (ast.Assign, ast.AnnAssign, ast.Return, ast.Expr, ast.AugAssign)) and st.value is calls[0] and len(calls) == 1:
                        site = (blk_path, i, st, calls[0])
            if site is None:
                continue
            blk_path, i, st, call = site
            is_method = cls_name is not None
            h = Helper(q, x_def, ast.ClassDef(name=cls_name or "_", bases=[], keywords=[], body=[], decorator_list=[]) if is_method else None, mod)
            if not h.inlinable:
                continue
            receiver = call.func.value if isinstance(call.func, ast.Attribute) and not h.static else None
            inl = _Inliner({}, set())
            expected = inl._expand(h, st, call, receiver, f_known)
            if expected is None:
                continue
            cur_block = _block_at(f_cur, blk_path)
            known_block = _block_at(f_known, blk_path)
            if cur_block is None or known_block is None:
                continue
            # the rest of the two blocks must line up: same number of statements around the site
            extra = len(cur_block) - len(known_block)
            if extra != len(expected) - 1 or extra < 0:
                continue
            got = cur_block[i : i + len(expected)]
            free = _all_names(f_known) | set(_params(f_cur))
            if _alpha_text(expected, free) != _alpha_text(got, free):
                continue
            # put the call and the function back
            new_stmt = copy.deepcopy(st)
            ast.copy_location(new_stmt, got[0])
            for n in ast.walk(new_stmt):
                if not hasattr(n, "lineno"):
                    continue
                n.lineno, n.col_offset = got[0].lineno, got[0].col_offset
                n.end_lineno, n.end_col_offset = got[0].lineno, got[0].col_offset
            cur_block[i : i + len(expected)] = [new_stmt]
            holder = trees[mod].body
            if is_method:
                cdef = next((c for c in trees[mod].body if isinstance(c, ast.ClassDef) and c.name == cls_name), None)
                if cdef is None:
                    break
                holder = cdef.body
            if not any(isinstance(d, (ast.FunctionDef, ast.AsyncFunctionDef)) and d.name == name for d in holder):
                anchor = next((d for d in holder if hasattr(d, "lineno")), None)
                for n in ast.walk(x_def):
                    if hasattr(n, "lineno"):
                        n.lineno = getattr(got[0], "lineno", 1)
                        n.end_lineno = n.lineno
                holder.append(x_def)
            restored.append(f"{q} (merged into {cq})")
            break
    return restored


def _blocks_with_paths(fn: ast.AST):
    """(path, block) for every statement list of a function; a path is a tuple of (statement index, field name) steps."""

    def rec(block, path):
        yield path, block
        for i, st in enumerate(block):
            for fld in ("body", "orelse", "finalbody"):
                sub = getattr(st, fld, None)
                if isinstance(sub, list) and sub and isinstance(sub[0], ast.stmt) and not isinstance(st, (ast.FunctionDef, ast.AsyncFunctionDef, ast.ClassDef)):
                    yield from rec(sub, path + ((i, fld),))
            for hi, hnd in enumerate(getattr(st, "handlers", []) or []):
                yield from rec(hnd.body, path + ((i, f"handler{hi}"),))

    yield from rec(fn.body, ())


def _block_at(fn: ast.AST, path: tuple) -> list[ast.stmt] | None:
    block = _strip_doc(fn.body) if not path else None
    block = fn.body
    # known sources have their docstring stripped: align the first index
    offset = len(fn.body) - len(_strip_doc(fn.body))
    first = True
    for i, fld in path:
        idx = i + (offset if first else 0)
        first = False
        if idx >= len(block):
            return None
        st = block[idx]
        if fld.startswith("handler"):
            hs = getattr(st, "handlers", None)
            k = int(fld[7:])
            if not hs or k >= len(hs):
                return None
            block = hs[k].body
        else:
            block = getattr(st, fld, None)
        if not isinstance(block, list):
            return None
    return block if path else fn.body[offset:] if False else block


# ------------------------------------------------------------------------------------------------ C12 canonical private names
def _name_tables(trees: dict[str, ast.Module]) -> dict:
    """classes: qual -> {methods: {name: n_params}, attrs: {attr: usage signature}}; funcs: module -> {name: n_params};
    a usage signature is the sorted list of (enclosing function name, Store/Load) over all `<obj>.attr` occurrences."""
    classes: dict[str, dict] = {}
    funcs: dict[str, dict[str, int]] = {}
    attr_use: dict[str, list[str]] = {}
    for mod, tree in trees.items():
        funcs[mod] = {st.name: len(st.args.args) for st in tree.body if isinstance(st, (ast.FunctionDef, ast.AsyncFunctionDef))}
        for st in tree.body:
            if isinstance(st, ast.ClassDef):
                classes[f"{mod}:{st.name}"] = {"methods": {s2.name: len(s2.args.args) for s2 in st.body if isinstance(s2, (ast.FunctionDef, ast.AsyncFunctionDef))}}
        for fn in ast.walk(tree):
            if isinstance(fn, (ast.FunctionDef, ast.AsyncFunctionDef)):
                for n in _own_nodes(fn):
                    if isinstance(n, ast.Attribute) and n.attr.startswith("_") and not n.attr.startswith("__"):
                        attr_use.setdefault(n.attr, []).append(f"{fn.name}/{'S' if isinstance(n.ctx, (ast.Store, ast.Del)) else 'L'}")
    consts = {mod: sorted({t.id for st in tree.body if isinstance(st, (ast.Assign, ast.AnnAssign)) for t in (st.targets if isinstance(st, ast.Assign) else [st.target]) if isinstance(t, ast.Name)}) for mod, tree in trees.items()}
    return {"classes": classes, "funcs": funcs, "attrs": {a: sorted(v) for a, v in attr_use.items()}, "consts": consts}


def _similar(a: ast.AST, b: ast.AST) -> float:
    import difflib

    return difflib.SequenceMatcher(a=ast.unparse(a).split(), b=ast.unparse(b).split(), autojunk=False).ratio()


class _RenameAttrs(ast.NodeTransformer):
    def __init__(self, attrs: dict[str, str], names: dict[str, str]) -> None:
        self.attrs, self.names = attrs, names

    def visit_Attribute(self, node: ast.Attribute):
        self.generic_visit(node)
        if node.attr in self.attrs:
            node.attr = self.attrs[node.attr]
        return node

    def visit_Name(self, node: ast.Name):
        if node.id in self.names:
            node.id = self.names[node.id]
        return node

    def visit_FunctionDef(self, node: ast.FunctionDef):
        if node.name in self.attrs:
            node.name = self.attrs[node.name]
        elif node.name in self.names:
            node.name = self.names[node.name]
        self.generic_visit(node)
        return node

    def visit_ImportFrom(self, node: ast.ImportFrom):
        for a in node.names:
            if a.name in self.names and a.asname is None:
                a.name = self.names[a.name]
        return node


def canonical_private_names(trees: dict[str, ast.Module], known: dict, known_trees_funcs: dict[str, str] | None = None) -> list[str]:
    """C12: a private method / module-level function / attribute that the tables know and that has disappeared, while an
    unknown private name of the same kind has appeared with the same shape (parameter count and similar body; for attributes
    the same pattern of uses), is the same thing renamed: the new name is renamed back everywhere.  A consistent renaming of
    a private name preserves behaviour, so a wrong pairing cannot hide anything; pairings must be unambiguous."""
    kt = known.get("name_tables")
    if not kt:
        return []
    cur = _name_tables(trees)
    renamed: list[str] = []
    all_cur_methods = {m for c in cur["classes"].values() for m in c["methods"]}
    all_cur_funcs = {f for d in cur["funcs"].values() for f in d}
    all_known_methods = {m for c in kt["classes"].values() for m in c["methods"]}
    all_known_funcs = {f for d in kt["funcs"].values() for f in d}
    attr_map: dict[str, str] = {}
    name_map: dict[str, str] = {}
    # methods: per class
    bodies_known: dict[str, str] = known.get("bodies", {})
    for cq, kc in kt["classes"].items():
        cc = cur["classes"].get(cq)
        if cc is None:
            continue
        missing = [m for m in kc["methods"] if m not in all_cur_methods and m not in all_cur_funcs and m.startswith("_") and not m.startswith("__")]
        new = [m for m in cc["methods"] if m not in all_known_methods and m not in all_known_funcs and m.startswith("_") and not m.startswith("__")]
        if not missing or not new:
            continue
        mod, cname = cq.split(":")
        cdef = next(st for st in trees[mod].body if isinstance(st, ast.ClassDef) and st.name == cname)
        ndefs = {s2.name: s2 for s2 in cdef.body if isinstance(s2, (ast.FunctionDef, ast.AsyncFunctionDef))}
        import difflib

        scores = {}
        for k in missing:
            kb = bodies_known.get(f"{cq}.{k}", "")
            for n in new:
                if kc["methods"][k] != cc["methods"][n] and abs(kc["methods"][k] - cc["methods"][n]) > 1:
                    continue
                body_txt = ast.unparse(ast.Module(body=_strip_doc(ndefs[n].body), type_ignores=[]))
                scores[(k, n)] = difflib.SequenceMatcher(a=kb.split(), b=body_txt.replace(n, k).split(), autojunk=False).ratio()
        for (k, n), sc in sorted(scores.items(), key=lambda kv: -kv[1]):
            if sc < 0.5 or k in attr_map.values() or n in attr_map:
                continue
            rivals = [v for (k2, n2), v in scores.items() if (k2 == k) != (n2 == n) and v >= sc - 0.15]
            if rivals:
                continue
            attr_map[n] = k
            renamed.append(f"method {cq}.{n} -> {k}")
    # module-level functions
    for mod, kfun in kt["funcs"].items():
        cfun = cur["funcs"].get(mod, {})
        missing = [f for f in kfun if f not in all_cur_funcs and f not in all_cur_methods and f.startswith("_")]
        new = [f for f in cfun if f not in all_known_funcs and f not in all_known_methods and f.startswith("_")]
        if not missing or not new:
            continue
        import difflib

        ndefs = {st.name: st for st in trees[mod].body if isinstance(st, (ast.FunctionDef, ast.AsyncFunctionDef))}
        scores = {}
        for k in missing:
            kb = bodies_known.get(f"{mod}:{k}", "")
            for n in new:
                if abs(kfun[k] - cfun[n]) > 1:
                    continue
                body_txt = ast.unparse(ast.Module(body=_strip_doc(ndefs[n].body), type_ignores=[]))
                scores[(k, n)] = difflib.SequenceMatcher(a=kb.split(), b=body_txt.replace(n, k).split(), autojunk=False).ratio()
        for (k, n), sc in sorted(scores.items(), key=lambda kv: -kv[1]):
            if sc < 0.5 or k in name_map.values() or n in name_map:
                continue
            rivals = [v for (k2, n2), v in scores.items() if (k2 == k) != (n2 == n) and v >= sc - 0.15]
            if rivals:
                continue
            name_map[n] = k
            renamed.append(f"function {mod}:{n} -> {k}")
    # private attributes: same usage pattern (after the method renamings above)
    cur_attrs = cur["attrs"]
    # only attributes the repository itself defines (assigned somewhere: `self._x = ...`) can be renamed by a refactoring of the
    # repository; names that are only ever read belong to somebody else's API (torch._foreach_*, dist._*): never touched
    stored = lambda sig: any(x.endswith("/S") for x in sig)  # noqa: E731
    missing = {a: sig for a, sig in kt["attrs"].items() if a not in cur_attrs and a not in all_known_methods and stored(sig)}
    new = {a: [x.split("/")[0] for x in sig] for a, sig in cur_attrs.items() if a not in kt["attrs"] and a not in all_cur_methods and a not in attr_map and stored(sig)}
    def norm_sig(sig):
        return sorted(f"{attr_map.get(x.split('/')[0], x.split('/')[0])}/{x.split('/')[1]}" for x in sig)
    for n, _ in sorted(new.items()):
        nsig = norm_sig(cur_attrs[n])
        cands = [k for k, ksig in missing.items() if sorted(ksig) == nsig and k not in attr_map.values()]
        if len(cands) == 1 and sum(1 for n2 in new if norm_sig(cur_attrs[n2]) == nsig) == 1:
            attr_map[n] = cands[0]
            renamed.append(f"attribute {n} -> {cands[0]}")
    if attr_map or name_map:
        for mod in list(trees):
            trees[mod] = _RenameAttrs(attr_map, name_map).visit(trees[mod])
    return renamed


# ------------------------------------------------------------------------------------------------ C11 argument style of internal calls
def _signatures(trees: dict[str, ast.Module]) -> tuple[dict[tuple, list[list[str] | None]], set[str]]:
    sigs: dict[tuple, list[list[str] | None]] = {}

    def params_of(fn: ast.AST, is_method: bool) -> list[str] | None:
        a = fn.args
        if a.posonlyargs or a.vararg:
            return None
        names = [x.arg for x in a.args]
        decos = [ast.unparse(d) for d in fn.decorator_list]
        if "property" in decos:
            return None
        if is_method and "staticmethod" not in decos:
            names = names[1:]
        return names

    for tree in trees.values():
        for st in tree.body:
            if isinstance(st, (ast.FunctionDef, ast.AsyncFunctionDef)):
                sigs.setdefault(("func", st.name), []).append(params_of(st, False))
                for sub in ast.walk(st):
                    if sub is not st and isinstance(sub, (ast.FunctionDef, ast.AsyncFunctionDef)):
                        sigs.setdefault(("func", sub.name), []).append(params_of(sub, False))
            elif isinstance(st, ast.ClassDef):
                for s2 in st.body:
                    if isinstance(s2, (ast.FunctionDef, ast.AsyncFunctionDef)):
                        sigs.setdefault(("method", s2.name), []).append(params_of(s2, True))
                        for sub in ast.walk(s2):
                            if sub is not s2 and isinstance(sub, (ast.FunctionDef, ast.AsyncFunctionDef)):
                                sigs.setdefault(("func", sub.name), []).append(params_of(sub, False))
    class_names = {st.name for tree in trees.values() for st in tree.body if isinstance(st, ast.ClassDef)}
    return sigs, class_names


def _internal_calls(trees: dict[str, ast.Module]):
    """(call, callee key, positional parameter list) for calls whose repository callee is determined: `self.m(...)` and
    `Class.m(...)` resolve through the class hierarchy (by class name); other calls only when every definition of that name
    has one and the same positional parameter list."""
    sigs, class_names = _signatures(trees)
    classes: dict[str, ast.ClassDef] = {st.name: st for tree in trees.values() for st in tree.body if isinstance(st, ast.ClassDef)}

    def method_in(cname: str, mname: str, seen: frozenset = frozenset()) -> tuple[str, ast.AST] | None:
        c = classes.get(cname)
        if c is None or cname in seen:
            return None
        for st in c.body:
            if isinstance(st, (ast.FunctionDef, ast.AsyncFunctionDef)) and st.name == mname:
                return cname, st
        for bexpr in c.bases:
            bname = bexpr.id if isinstance(bexpr, ast.Name) else (bexpr.value.id if isinstance(bexpr, ast.Subscript) and isinstance(bexpr.value, ast.Name) else None)
            if bname:
                r = method_in(bname, mname, seen | {cname})
                if r is not None:
                    return r
        return None

    def sig_of(fn: ast.AST, bound: bool) -> list[str] | None:
        a = fn.args
        if a.posonlyargs or a.vararg:
            return None
        decos = [ast.unparse(d) for d in fn.decorator_list]
        if "property" in decos:
            return None
        names = [x.arg for x in a.args]
        return names[1:] if bound and "staticmethod" not in decos else names

    def enclosing_classes():
        for tree in trees.values():
            for st in tree.body:
                if isinstance(st, ast.ClassDef):
                    yield st.name, st
                else:
                    yield None, st

    for cname, holder in enclosing_classes():
        for call in ast.walk(holder):
            if not isinstance(call, ast.Call) or any(isinstance(a, ast.Starred) for a in call.args) or any(k.arg is None for k in call.keywords):
                continue
            f = call.func
            key = params = None
            if isinstance(f, ast.Attribute) and isinstance(f.value, ast.Name) and not f.attr.startswith("__"):
                owner = cname if f.value.id in ("self", "cls") else (f.value.id if f.value.id in classes else None)
                if owner is not None:
                    r = method_in(owner, f.attr)
                    if r is not None:
                        params = sig_of(r[1], True)
                        # the style table is per method *name and defining hierarchy root*: siblings overriding one abstract
                        # method share their call sites' style
                        key = f"method:{f.attr}"
            if params is None:
                if isinstance(f, ast.Name):
                    k2 = ("func", f.id)
                elif isinstance(f, ast.Attribute):
                    k2 = ("method", f.attr)
                    if k2 not in sigs and ("func", f.attr) in sigs:
                        k2 = ("func", f.attr)
                else:
                    continue
                name = k2[1]
                if name.startswith("__") or name in class_names:
                    continue
                cands = sigs.get(k2)
                if not cands or any(c is None for c in cands) or any(c != cands[0] for c in cands):
                    continue
                params, key = cands[0], f"{k2[0]}:{k2[1]}"
            if params is None or len(call.args) > len(params) or any(k.arg not in params for k in call.keywords):
                continue
            yield call, key, params


def call_styles(trees: dict[str, ast.Module]) -> dict[str, int]:
    """For each internally called function whose call sites agree: how many leading parameters are passed positionally
    (the rest by keyword).  Callees whose sites disagree are absent.  Styles are kept per parameter *position* (sibling
    implementations of one method may name a parameter differently)."""
    seen: dict[str, dict[int, set[str]]] = {}
    arity: dict[str, int] = {}
    for call, key, params in _internal_calls(trees):
        arity[key] = max(arity.get(key, 0), len(params))
        d = seen.setdefault(key, {})
        for i, _ in enumerate(call.args):
            d.setdefault(i, set()).add("pos")
        for k in call.keywords:
            d.setdefault(params.index(k.arg), set()).add("kw")
    out: dict[str, int] = {}
    for key, d in seen.items():
        if any(len(v) != 1 for v in d.values()):
            continue
        styles = [next(iter(d[i])) if i in d else None for i in range(arity[key])]
        npos = 0
        while npos < len(styles) and styles[npos] == "pos":
            npos += 1
        if any(st == "pos" for st in styles[npos:]):
            continue
        out[key] = npos
    return out


def restyle_internal_calls(trees: dict[str, ast.Module], styles: dict[str, int]) -> int:
    """C11: a call of a repository function is brought into the argument style (how many leading parameters positional, the
    rest by keyword) that all call sites of that function have in the calibrated tree."""
    done = 0
    for call, key, params in _internal_calls(trees):
        if key not in styles:
            continue
        want_pos = styles[key]
        provided = {params[i]: a for i, a in enumerate(call.args)}
        provided.update({k.arg: k.value for k in call.keywords})
        new_args: list[ast.expr] = []
        i = 0
        while i < want_pos and i < len(params) and params[i] in provided:
            new_args.append(provided[params[i]])
            i += 1
        rest = [p for p in provided if p not in params[:i]]
        order = [params[j] for j in range(len(call.args)) if params[j] in rest] + [k.arg for k in call.keywords if k.arg in rest]
        new_kw = [ast.keyword(arg=p, value=provided[p]) for p in order]
        if len(new_args) != len(call.args) or [k.arg for k in new_kw] != [k.arg for k in call.keywords]:
            call.args, call.keywords = new_args, new_kw
            done += 1
    return done


# ------------------------------------------------------------------------------------------------ driver
def _direct_nested_defs(node: ast.AST):
    stack = list(ast.iter_child_nodes(node))
    while stack:
        n = stack.pop()
        if isinstance(n, (ast.FunctionDef, ast.AsyncFunctionDef)):
            yield n
            continue
        if isinstance(n, (ast.ClassDef, ast.Lambda)):
            continue
        stack.extend(ast.iter_child_nodes(n))


def _functions_with_quals(mod: str, tree: ast.Module):
    """(qualified name, def node) exactly as the loader names them."""

    def nested(fn, qual):
        for sub in _direct_nested_defs(fn):
            q = f"{qual}.<{sub.name}>"
            yield q, sub
            yield from nested(sub, q)

    for st in tree.body:
        if isinstance(st, (ast.FunctionDef, ast.AsyncFunctionDef)):
            yield f"{mod}:{st.name}", st
            yield from nested(st, f"{mod}:{st.name}")
        elif isinstance(st, ast.ClassDef):
            for s2 in st.body:
                if isinstance(s2, (ast.FunctionDef, ast.AsyncFunctionDef)):
                    yield f"{mod}:{st.name}.{s2.name}", s2
                    yield from nested(s2, f"{mod}:{st.name}.{s2.name}")


def function_locals(fn: ast.AST) -> list[str]:
    return sorted(set(_bound_names(fn)) - set(_params(fn)))


def snapshot(trees: dict[str, ast.Module]) -> dict:
    """The name tables of a tree: run on the calibrated checkout after the local rewrites C1-C3 only."""
    funcs: dict[str, dict] = {}
    for mod, tree in trees.items():
        tree = local_canon(copy.deepcopy(tree))
        for q, fn in _functions_with_quals(mod, tree):
            locals_, scopes = ordered_binders(fn)
            funcs[q] = {"locals": locals_, "scopes": [n for _, n in scopes]}
    canon_trees = {mod: local_canon(copy.deepcopy(tree)) for mod, tree in trees.items()}
    bodies: dict[str, str] = {}
    for mod, tree in canon_trees.items():
        for q, fn in _functions_with_quals(mod, tree):
            if ".<" not in q:
                bodies[q] = ast.unparse(ast.Module(body=_strip_doc(fn.body), type_ignores=[]))
    sources: dict[str, str] = {}
    for mod, tree in canon_trees.items():
        for q, fn in _functions_with_quals(mod, tree):
            if ".<" not in q:
                f2 = copy.deepcopy(fn)
                f2.body = _strip_doc(f2.body) or [ast.Pass()]
                sources[q] = ast.unparse(f2)
    return {"functions": funcs, "call_styles": call_styles(trees), "name_tables": _name_tables(canon_trees), "bodies": bodies, "sources": sources}


_TORCH_DTYPES = {"float32", "float64", "float16", "bfloat16", "float", "double", "half", "int8", "int16", "int32", "int64", "uint8", "long", "int", "short", "bool", "complex64", "complex128"}


def _immutable_literal(e: ast.AST) -> bool:
    if isinstance(e, ast.Constant):
        return True
    if isinstance(e, ast.UnaryOp) and isinstance(e.op, (ast.USub, ast.UAdd)) and isinstance(e.operand, ast.Constant) and isinstance(e.operand.value, (int, float)):
        return True
    if isinstance(e, ast.Tuple):
        return all(_immutable_literal(x) for x in e.elts)
    if isinstance(e, ast.Attribute) and isinstance(e.value, ast.Name) and e.value.id == "torch" and e.attr in _TORCH_DTYPES:
        return True
    return False


def see_through_module_constants(trees: dict[str, ast.Module], known: dict) -> list[str]:
    """C13: a module-level name the rule tables do not know (absent from the calibrated tree), bound exactly once at module
    level to an immutable literal (number, string, None, tuple of those, a torch dtype) and never re-bound anywhere in its
    module, is replaced by the literal at every read in that module — a named constant is the constant.  Names the tables know
    (e.g. the state-dict keys) are kept: rules anchor on them."""
    kc = known.get("name_tables", {}).get("consts")
    if kc is None:
        return []
    out: list[str] = []
    for mod, tree in trees.items():
        known_here = set(kc.get(mod, ()))
        cands: dict[str, ast.expr] = {}
        counts: dict[str, int] = {}
        for st in tree.body:
            tgts = st.targets if isinstance(st, ast.Assign) else ([st.target] if isinstance(st, ast.AnnAssign) and st.value is not None else [])
            for t in tgts:
                for nm in [x.id for x in ast.walk(t) if isinstance(x, ast.Name)]:
                    counts[nm] = counts.get(nm, 0) + 1
            if len(tgts) == 1 and isinstance(tgts[0], ast.Name) and _immutable_literal(st.value):
                cands[tgts[0].id] = st.value
        cands = {k: v for k, v in cands.items() if counts.get(k) == 1 and k not in known_here}
        if not cands:
            continue
        # any other binding of the name anywhere in the module (local, parameter, global statement, import, loop target) disqualifies it
        rebound: set[str] = set()
        module_level = {id(t) for st in tree.body if isinstance(st, (ast.Assign, ast.AnnAssign)) for t in (st.targets if isinstance(st, ast.Assign) else [st.target])}
        for n in ast.walk(tree):
            if isinstance(n, ast.Name) and isinstance(n.ctx, (ast.Store, ast.Del)) and n.id in cands:
                if id(n) not in module_level:
                    rebound.add(n.id)
            elif isinstance(n, ast.arg) and n.arg in cands:
                rebound.add(n.arg)
            elif isinstance(n, (ast.Global, ast.Nonlocal)):
                rebound.update(set(n.names) & set(cands))
            elif isinstance(n, ast.alias) and (n.asname or n.name.split(".")[0]) in cands:
                rebound.add(n.asname or n.name.split(".")[0])
            elif isinstance(n, (ast.FunctionDef, ast.AsyncFunctionDef, ast.ClassDef)) and n.name in cands:
                rebound.add(n.name)
        cands = {k: v for k, v in cands.items() if k not in rebound}
        if not cands:
            continue

        class T(ast.NodeTransformer):
            def visit_Name(self, n: ast.Name):
                if isinstance(n.ctx, ast.Load) and n.id in cands:
                    return ast.copy_location(copy.deepcopy(cands[n.id]), n)
                return n

        trees[mod] = T().visit(tree)
        out.extend(f"{mod}:{k}" for k in sorted(cands))
    return out


def see_through_namedtuples(trees: dict[str, ast.Module], known: dict) -> list[str]:
    """C16: a module-level class the tables do not know that derives from NamedTuple and declares nothing but fields is a tuple
    with names: `Cls(a, b, c)` (positional, or keywords in any order) is replaced by the tuple display `(a, b, c)` in field
    order.  What is lost is attribute access by field name on the result — an analysis that meets `.field` on a tuple does
    not recognise it and ends as un-analysable, never as a verdict."""
    kc = known.get("name_tables", {}).get("classes", {})
    out: list[str] = []
    for mod, tree in trees.items():
        nts: dict[str, list[str]] = {}
        for st in tree.body:
            if isinstance(st, ast.ClassDef) and f"{mod}:{st.name}" not in kc and any((isinstance(b, ast.Name) and b.id == "NamedTuple") or (isinstance(b, ast.Attribute) and b.attr == "NamedTuple") for b in st.bases):
                body = [x for x in st.body if not (isinstance(x, ast.Expr) and isinstance(x.value, ast.Constant))]
                if body and all(isinstance(x, ast.AnnAssign) and isinstance(x.target, ast.Name) and x.value is None for x in body):
                    nts[st.name] = [x.target.id for x in body]
        if not nts:
            continue

        class T(ast.NodeTransformer):
            def visit_Call(self, n: ast.Call):
                self.generic_visit(n)
                if isinstance(n.func, ast.Name) and n.func.id in nts and not any(isinstance(a, ast.Starred) for a in n.args) and not any(k.arg is None for k in n.keywords):
                    fields = nts[n.func.id]
                    vals: dict[str, ast.expr] = dict(zip(fields, n.args))
                    for k in n.keywords:
                        vals[k.arg] = k.value
                    if list(vals) and set(vals) == set(fields) and len(n.args) + len(n.keywords) == len(fields):
                        # keyword arguments are evaluated in call order; keep that order only if it is the field order
                        order = [f for f in fields[: len(n.args)]] + [k.arg for k in n.keywords]
                        if order == fields or all(_is_pure(v) for v in vals.values()):
                            return ast.copy_location(ast.Tuple(elts=[vals[f] for f in fields], ctx=ast.Load()), n)
                return n

        trees[mod] = T().visit(tree)
        out.extend(f"{mod}:{k}" for k in sorted(nts))
    return out


def dict_dispatch_to_chains(trees: dict[str, ast.Module]) -> int:
    """C17: exact-type dispatch through a table,

        T = {K1: V1, …, Kn: Vn}            (a dict display bound once: a local of the function or a module-level name)
        f = T.get(type(S))                  (S a pure name / attribute path / subscript)
        if f is None: <raise …>
        REST                                (uses f, never re-binds it)

    is the chain  `if type(S) is K1: REST[f := V1] elif … else: <raise …>`  (`dict.get` on classes compares by identity);
    `(lambda: E)()` left behind by the substitution is E.  The table's binding is dropped when nothing else reads it."""
    n_done = 0

    def subst(stmts, name, val):
        class R(ast.NodeTransformer):
            def visit_Name(self, n):
                return ast.copy_location(copy.deepcopy(val), n) if n.id == name and isinstance(n.ctx, ast.Load) else n

            def visit_Call(self, n):
                self.generic_visit(n)
                if isinstance(n.func, ast.Lambda) and not n.args and not n.keywords and not n.func.args.args and not n.func.args.kwonlyargs and n.func.args.vararg is None and n.func.args.kwarg is None:
                    return ast.copy_location(n.func.body, n)
                return n

        return [ast.fix_missing_locations(R().visit(copy.deepcopy(s_))) for s_ in stmts]

    for mod, tree in trees.items():
        module_dicts = {}
        counts: dict[str, int] = {}
        for st in tree.body:
            tg = st.targets if isinstance(st, ast.Assign) else ([st.target] if isinstance(st, ast.AnnAssign) and st.value is not None else [])
            for t in tg:
                if isinstance(t, ast.Name):
                    counts[t.id] = counts.get(t.id, 0) + 1
                    if isinstance(st.value, ast.Dict):
                        module_dicts[t.id] = (st, st.value)
        module_dicts = {k: v for k, v in module_dicts.items() if counts.get(k) == 1}
        for fn in [f for f in ast.walk(tree) if isinstance(f, (ast.FunctionDef, ast.AsyncFunctionDef))]:
            changed = True
            while changed:
                changed = False
                for holder in ast.walk(fn):
                    for fld in ("body", "orelse", "finalbody"):
                        block = getattr(holder, fld, None)
                        if not (isinstance(block, list) and block and isinstance(block[0], ast.stmt)):
                            continue
                        for i, st in enumerate(block[:-1]):
                            if not (isinstance(st, ast.Assign) and len(st.targets) == 1 and isinstance(st.targets[0], ast.Name) and isinstance(st.value, ast.Call)):
                                continue
                            c = st.value
                            if not (isinstance(c.func, ast.Attribute) and c.func.attr == "get" and isinstance(c.func.value, ast.Name) and 1 <= len(c.args) <= 2 and not c.keywords):
                                continue
                            if len(c.args) == 2 and not (isinstance(c.args[1], ast.Constant) and c.args[1].value is None):
                                continue
                            key = c.args[0]
                            if not (isinstance(key, ast.Call) and isinstance(key.func, ast.Name) and key.func.id == "type" and len(key.args) == 1 and _is_pure(key.args[0])):
                                continue
                            tname, fname = c.func.value.id, st.targets[0].id
                            local_defs = [(j, b) for j, b in enumerate(block[:i]) if isinstance(b, (ast.Assign, ast.AnnAssign)) and b.value is not None and isinstance(b.value, ast.Dict) and any(isinstance(t, ast.Name) and t.id == tname for t in (b.targets if isinstance(b, ast.Assign) else [b.target]))]
                            if local_defs:
                                table_stmt, table, is_local = local_defs[-1][1], local_defs[-1][1].value, True
                            elif tname in module_dicts and tname not in _bound_names(fn):
                                table_stmt, table, is_local = module_dicts[tname][0], module_dicts[tname][1], False
                            else:
                                continue
                            if not table.keys or any(k is None or not isinstance(k, (ast.Name, ast.Attribute)) for k in table.keys):
                                continue
                            guard = block[i + 1]
                            if not (isinstance(guard, ast.If) and not guard.orelse and _terminates(guard.body) and isinstance(guard.test, ast.Compare) and len(guard.test.ops) == 1 and isinstance(guard.test.ops[0], ast.Is) and isinstance(guard.test.left, ast.Name) and guard.test.left.id == fname and isinstance(guard.test.comparators[0], ast.Constant) and guard.test.comparators[0].value is None):
                                continue
                            rest = block[i + 2:]
                            if any(isinstance(x, ast.Name) and x.id == fname and isinstance(x.ctx, (ast.Store, ast.Del)) for r in rest for x in ast.walk(r)):
                                continue
                            node: list[ast.stmt] = guard.body
                            for k, v in reversed(list(zip(table.keys, table.values))):
                                test = ast.Compare(left=copy.deepcopy(key), ops=[ast.Is()], comparators=[copy.deepcopy(k)])
                                node = [ast.fix_missing_locations(ast.copy_location(ast.If(test=test, body=subst(rest, fname, v) or [ast.Pass()], orelse=node), st))]
                            block[i:] = node
                            # the table binding goes when nothing reads it any more
                            readers = [x for x in ast.walk(tree) if isinstance(x, ast.Name) and x.id == tname and isinstance(x.ctx, ast.Load)]
                            if is_local and not any(x.id == tname for r in [fn] for x in ast.walk(r) if isinstance(x, ast.Name) and isinstance(x.ctx, ast.Load)):
                                block.remove(table_stmt)
                            elif not is_local and not readers:
                                tree.body.remove(table_stmt)
                            n_done += 1
                            changed = True
                            break
                        if changed:
                            break
                    if changed:
                        break
    return n_done


class _SpliceStars(ast.NodeTransformer):
    """`f(x, *(a, b))` is `f(x, a, b)`."""

    def visit_Call(self, n: ast.Call):
        self.generic_visit(n)
        if any(isinstance(a, ast.Starred) and isinstance(a.value, (ast.Tuple, ast.List)) and not any(isinstance(e, ast.Starred) for e in a.value.elts) for a in n.args):
            args: list[ast.expr] = []
            for a in n.args:
                if isinstance(a, ast.Starred) and isinstance(a.value, (ast.Tuple, ast.List)) and not any(isinstance(e, ast.Starred) for e in a.value.elts):
                    args.extend(a.value.elts)
                else:
                    args.append(a)
            n.args = args
        return n


def canonicalize(trees: dict[str, ast.Module], known: dict | None) -> dict:
    """In-place canonicalisation of all module trees; returns a log of what was rewritten."""
    log = {"inlined_helpers": [], "propagated_locals": 0, "lambdas_from_defs": 0, "loops_to_comprehensions": 0, "renamed_binders": 0}
    for mod in list(trees):
        trees[mod] = local_canon(trees[mod])
    if known is not None:
        log["module_constants"] = see_through_module_constants(trees, known)
        log["namedtuples"] = see_through_namedtuples(trees, known)
        log["dict_dispatch"] = dict_dispatch_to_chains(trees)
        if log["dict_dispatch"]:
            for mod in list(trees):
                trees[mod] = local_canon(trees[mod])
        kf = known["functions"]
        # names first: a known private function that was merely renamed must not be mistaken for a new helper
        log["renamed_private"] = canonical_private_names(trees, known)
        log["restored_helpers"] = restore_merged_helpers(trees, known)
        inl = _Inliner(trees, set(kf))
        inl.run()
        log["inlined_helpers"] = inl.inlined
        for mod, tree in trees.items():
            for q, fn in list(_functions_with_quals(mod, tree)):
                inner_known = {k.rsplit(".<", 1)[1][:-1] for k in kf if k.startswith(q + ".<")}
                entry = kf.get(q)
                if entry is None and ".<" not in q:
                    # a known function that moved (to a base class / another module) keeps its name tables
                    same = [v for k, v in kf.items() if ".<" not in k and k.rsplit(":", 1)[1].split(".")[-1] == q.rsplit(":", 1)[1].split(".")[-1]]
                    if same:
                        entry = {"locals": same[0]["locals"], "scopes": same[0]["scopes"], "_all_locals": set().union(*[set(v["locals"]) for v in same])}
                kl = (entry.get("_all_locals") or set(entry["locals"])) if entry is not None else None
                for _ in range(6):
                    if entry is not None:  # names first: a renamed known local must not be mistaken for an unknown one
                        log["renamed_binders"] += canonical_names(fn, entry)
                    n = nested_defs_to_lambdas(fn, inner_known)
                    log["lambdas_from_defs"] += n
                    n += reduce_local_lambdas(fn, (set(kl) | inner_known) if kl is not None else inner_known)
                    k = propagate_locals(fn, kl) + forward_temporaries(fn, kl)
                    log["propagated_locals"] += k
                    c = loops_to_comprehensions(fn, kl)
                    log["loops_to_comprehensions"] += c
                    if not (n or k or c):
                        break
                if entry is not None:
                    log["renamed_binders"] += canonical_names(fn, entry)
            trees[mod] = _SpliceStars().visit(_SliceCalls().visit(tree))
        # inlining / propagation can expose new guard / polarity forms
        for mod in list(trees):
            trees[mod] = local_canon(trees[mod])
    log["restyled_calls"] = restyle_internal_calls(trees, known.get("call_styles", {})) if known is not None else 0
    for tree in trees.values():
        ast.fix_missing_locations(tree)
    return log
