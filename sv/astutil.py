"""Small AST helpers shared by the rules (resolved-name based; no text matching)."""

from __future__ import annotations

import ast
from typing import Iterator

from .loader import FuncInfo, ModuleInfo, Repo


def parents(root: ast.AST) -> dict[int, ast.AST]:
    out: dict[int, ast.AST] = {}
    for n in ast.walk(root):
        for c in ast.iter_child_nodes(n):
            out[id(c)] = n
    return out


def walk_no_nested(node: ast.AST) -> Iterator[ast.AST]:
    """ast.walk that does not descend into nested function / class definitions (lambdas are included)."""
    stack = list(ast.iter_child_nodes(node))
    while stack:
        n = stack.pop()
        yield n
        if isinstance(n, (ast.FunctionDef, ast.AsyncFunctionDef, ast.ClassDef)):
            continue
        stack.extend(ast.iter_child_nodes(n))


def calls(node: ast.AST, nested: bool = False) -> list[ast.Call]:
    it = ast.walk(node) if nested else walk_no_nested(node)
    out = [n for n in it if isinstance(n, ast.Call)]
    out.sort(key=lambda c: (getattr(c, "lineno", 0), getattr(c, "col_offset", 0)))
    return out


def callee_name(repo: Repo, m: ModuleInfo, call: ast.Call) -> str:
    """Import-resolved dotted name of the callee, or '.method' for a method call on a non-import receiver."""
    f = call.func
    d = repo.dotted_of(m, f)
    if isinstance(f, ast.Attribute):
        base = f
        while isinstance(base, ast.Attribute):
            base = base.value
        if isinstance(base, ast.Name) and base.id in m.imports and d:
            return d
        return "." + f.attr
    return d or "?"


def is_call_to(repo: Repo, m: ModuleInfo, call: ast.AST, *names: str) -> bool:
    if not isinstance(call, ast.Call):
        return False
    n = callee_name(repo, m, call)
    return any(n == x or (x.startswith(".") and n == x) or n.endswith("." + x.lstrip(".")) and not x.startswith(".") for x in names)


def const_key(repo: Repo, m: ModuleInfo, sl: ast.AST) -> str | int | None:
    if isinstance(sl, ast.Constant) and isinstance(sl.value, (str, int)) and not isinstance(sl.value, bool):
        return sl.value
    return repo.const_str(m, sl)


def subscript_key(repo: Repo, m: ModuleInfo, e: ast.AST) -> tuple[str | None, str | int | None]:
    """For `name[KEY]` return (name, key value) with KEY resolved through module constants."""
    if isinstance(e, ast.Subscript) and isinstance(e.value, ast.Name):
        return e.value.id, const_key(repo, m, e.slice)
    return None, None


def names_in(node: ast.AST) -> set[str]:
    return {n.id for n in ast.walk(node) if isinstance(n, ast.Name)}


def enclosing_loops(func: ast.AST, target: ast.AST) -> list[ast.AST]:
    """Loops (For/While) of `func` that contain `target`, outermost first."""
    par = parents(func)
    out = []
    n = target
    while id(n) in par:
        n = par[id(n)]
        if isinstance(n, (ast.For, ast.While, ast.AsyncFor)):
            out.append(n)
    return list(reversed(out))


def stmt_of(func: ast.AST, node: ast.AST) -> ast.stmt | None:
    par = parents(func)
    n = node
    while n is not None and not isinstance(n, ast.stmt):
        n = par.get(id(n))
    return n


def norm(node: ast.AST) -> str:
    """Normalised source of an expression (stable under formatting)."""
    return ast.unparse(node)


def keyword(call: ast.Call, name: str) -> ast.AST | None:
    for k in call.keywords:
        if k.arg == name:
            return k.value
    return None


def arg_of(call: ast.Call, fi: FuncInfo | None, name: str, pos_offset: int = 0) -> ast.AST | None:
    """Actual argument bound to formal `name` of callee `fi` at `call` (positional or keyword)."""
    v = keyword(call, name)
    if v is not None:
        return v
    if fi is None:
        return None
    params = fi.params
    if fi.cls is not None and not fi.is_static and params and params[0] in ("self", "cls"):
        params = params[1:]
    if name in params:
        i = params.index(name) - pos_offset
        if 0 <= i < len(call.args) and not any(isinstance(a, ast.Starred) for a in call.args[: i + 1]):
            return call.args[i]
    return None


def assignments_to(func: ast.AST, name: str) -> list[ast.AST]:
    """Value expressions assigned to local `name` anywhere in func (Assign / AnnAssign / walrus / for-target excluded)."""
    out = []
    for n in walk_no_nested(func):
        if isinstance(n, ast.Assign):
            for t in n.targets:
                if isinstance(t, ast.Name) and t.id == name:
                    out.append(n.value)
        elif isinstance(n, ast.AnnAssign) and isinstance(n.target, ast.Name) and n.target.id == name and n.value is not None:
            out.append(n.value)
        elif isinstance(n, ast.NamedExpr) and n.target.id == name:
            out.append(n.value)
    return out
