"""Small AST helpers shared by the rules (resolved-name based; no text matching)."""

from __future__ import annotations

import ast
from typing import Iterator

from .loader import AnalysisError, FuncInfo, ModuleInfo, Repo


def parents(root: ast.AST) -> dict[int, ast.AST]:
    out: dict[int, ast.AST] = {}
    for n in ast.walk(root):
        for c in ast.iter_child_nodes(n):
            out[id(c)] = n
    return out


def walk_no_nested(node: ast.AST) -> Iterator[ast.AST]:
    """ast.walk that does not descend into nested function / class definitions (lambdas are included)."""
    stack = list(ast.iter_child_nodes(node))
    while stack:
        n = stack.pop()
        yield n
        if isinstance(n, (ast.FunctionDef, ast.AsyncFunctionDef, ast.ClassDef)):
            continue
        stack.extend(ast.iter_child_nodes(n))


def calls(node: ast.AST, nested: bool = False) -> list[ast.Call]:
    it = ast.walk(node) if nested else walk_no_nested(node)
    out = [n for n in it if isinstance(n, ast.Call)]
    out.sort(key=lambda c: (getattr(c, "lineno", 0), getattr(c, "col_offset", 0)))
    return out


def callee_name(repo: Repo, m: ModuleInfo, call: ast.Call) -> str:
    """Import-resolved dotted name of the callee, or '.method' for a method call on a non-import receiver."""
    f = call.func
    d = repo.dotted_of(m, f)
    if isinstance(f, ast.Attribute):
        base = f
        while isinstance(base, ast.Attribute):
            base = base.value
        if isinstance(base, ast.Name) and base.id in m.imports and d:
            return d
        return "." + f.attr
    return d or "?"


def is_call_to(repo: Repo, m: ModuleInfo, call: ast.AST, *names: str) -> bool:
    if not isinstance(call, ast.Call):
        return False
    n = callee_name(repo, m, call)
    return any(n == x or (x.startswith(".") and n == x) or n.endswith("." + x.lstrip(".")) and not x.startswith(".") for x in names)


def const_key(repo: Repo, m: ModuleInfo, sl: ast.AST) -> str | int | None:
    if isinstance(sl, ast.Constant) and isinstance(sl.value, (str, int)) and not isinstance(sl.value, bool):
        return sl.value
    return repo.const_str(m, sl)


def subscript_key(repo: Repo, m: ModuleInfo, e: ast.AST) -> tuple[str | None, str | int | None]:
    """For `name[KEY]` return (name, key value) with KEY resolved through module constants."""
    if isinstance(e, ast.Subscript) and isinstance(e.value, ast.Name):
        return e.value.id, const_key(repo, m, e.slice)
    return None, None


def names_in(node: ast.AST) -> set[str]:
    return {n.id for n in ast.walk(node) if isinstance(n, ast.Name)}


def enclosing_loops(func: ast.AST, target: ast.AST) -> list[ast.AST]:
    """Loops (For/While) of `func` that contain `target`, outermost first."""
    par = parents(func)
    out = []
    n = target
    while id(n) in par:
        n = par[id(n)]
        if isinstance(n, (ast.For, ast.While, ast.AsyncFor)):
            out.append(n)
    return list(reversed(out))


def stmt_of(func: ast.AST, node: ast.AST) -> ast.stmt | None:
    par = parents(func)
    n = node
    while n is not None and not isinstance(n, ast.stmt):
        n = par.get(id(n))
    return n


def norm(node: ast.AST) -> str:
    """Normalised source of an expression (stable under formatting)."""
    return ast.unparse(node)


def keyword(call: ast.Call, name: str) -> ast.AST | None:
    for k in call.keywords:
        if k.arg == name:
            return k.value
    return None


def arg_of(call: ast.Call, fi: FuncInfo | None, name: str, pos_offset: int = 0) -> ast.AST | None:
    """Actual argument bound to formal `name` of callee `fi` at `call` (positional or keyword)."""
    v = keyword(call, name)
    if v is not None:
        return v
    if fi is None:
        return None
    params = fi.params
    if fi.cls is not None and not fi.is_static and params and params[0] in ("self", "cls"):
        params = params[1:]
    if name in params:
        i = params.index(name) - pos_offset
        if 0 <= i < len(call.args) and not any(isinstance(a, ast.Starred) for a in call.args[: i + 1]):
            return call.args[i]
    return None


def assignments_to(func: ast.AST, name: str) -> list[ast.AST]:
    """Value expressions assigned to local `name` anywhere in func (Assign / AnnAssign / walrus / for-target excluded)."""
    out = []
    for n in walk_no_nested(func):
        if isinstance(n, ast.Assign):
            for t in n.targets:
                if isinstance(t, ast.Name) and t.id == name:
                    out.append(n.value)
        elif isinstance(n, ast.AnnAssign) and isinstance(n.target, ast.Name) and n.target.id == name and n.value is not None:
            out.append(n.value)
        elif isinstance(n, ast.NamedExpr) and n.target.id == name:
            out.append(n.value)
    return out


# ---------------------------------------------------------------------------------------------- truth-table path walk
def atom_key(e: ast.AST) -> tuple[str, bool]:
    """(atom text, polarity) of a leaf of a boolean test: `a != b` is the atom `a == b` negated, `x is not y` likewise."""
    if isinstance(e, ast.UnaryOp) and isinstance(e.op, ast.Not):
        k, p = atom_key(e.operand)
        return k, not p
    if isinstance(e, ast.Compare) and len(e.ops) == 1:
        op = e.ops[0]
        l, r = ast.unparse(e.left), ast.unparse(e.comparators[0])
        if isinstance(op, (ast.Eq, ast.NotEq)):
            a, b = sorted((l, r))
            return f"{a} == {b}", isinstance(op, ast.Eq)
        if isinstance(op, (ast.Is, ast.IsNot)):
            a, b = sorted((l, r))
            return f"{a} is {b}", isinstance(op, ast.Is)
        if isinstance(op, (ast.In, ast.NotIn)):
            return f"{l} in {r}", isinstance(op, ast.In)
    return ast.unparse(e), True


def test_atoms(test: ast.AST) -> set[str]:
    if isinstance(test, ast.BoolOp):
        return set().union(*(test_atoms(v) for v in test.values))
    if isinstance(test, ast.UnaryOp) and isinstance(test.op, ast.Not):
        return test_atoms(test.operand)
    return {atom_key(test)[0]}


def eval_test(test: ast.AST, valuation: dict[str, bool]) -> bool | None:
    """Truth value of a test under a valuation of its atoms (None when an atom is not valued)."""
    if isinstance(test, ast.BoolOp):
        vals = [eval_test(v, valuation) for v in test.values]
        if isinstance(test.op, ast.And):
            if any(v is False for v in vals):
                return False
            return None if any(v is None for v in vals) else True
        if any(v is True for v in vals):
            return True
        return None if any(v is None for v in vals) else False
    if isinstance(test, ast.UnaryOp) and isinstance(test.op, ast.Not):
        v = eval_test(test.operand, valuation)
        return None if v is None else not v
    if isinstance(test, ast.Constant):
        return bool(test.value)
    k, pol = atom_key(test)
    if k not in valuation:
        return None
    return valuation[k] if pol else not valuation[k]


def walk_path(body: list[ast.stmt], valuation: dict[str, bool]) -> tuple[list[ast.stmt], str]:
    """The straight-line statements executed from `body` under the valuation, and how the walk ends:
    'raise' | 'return' | 'continue' | 'break' | 'end' | 'unknown:<test>' (an `if` whose test the valuation does not decide)."""
    out: list[ast.stmt] = []

    def go(stmts: list[ast.stmt]) -> str | None:
        for st in stmts:
            if isinstance(st, ast.If):
                v = eval_test(st.test, valuation)
                if v is None:
                    return "unknown:" + ast.unparse(st.test)
                r = go(st.body if v else st.orelse)
                if r is not None:
                    return r
                continue
            out.append(st)
            if isinstance(st, ast.Raise):
                return "raise"
            if isinstance(st, ast.Return):
                return "return"
            if isinstance(st, ast.Continue):
                return "continue"
            if isinstance(st, ast.Break):
                return "break"
        return None

    end = go(body)
    return out, end or "end"


# ---------------------------------------------------------------------------------------------- alias-insensitive views
def _pure_with_displays(e: ast.AST) -> bool:
    """_is_pure, additionally accepting list displays of pure elements (a rule that only READS the expression does not care
    that each evaluation builds a new list; the program rewrite of the front-end does, and never uses this)."""
    from . import canon

    if isinstance(e, ast.List):
        return all(_pure_with_displays(x) for x in e.elts)
    if isinstance(e, ast.Starred):
        return _pure_with_displays(e.value)
    if isinstance(e, (ast.ListComp, ast.GeneratorExp, ast.SetComp)):
        return _pure_with_displays(e.elt) and all(isinstance(g.target, (ast.Name, ast.Tuple)) and _pure_with_displays(g.iter) and all(_pure_with_displays(c) for c in g.ifs) for g in e.generators)
    if isinstance(e, ast.Set):
        return all(_pure_with_displays(x) for x in e.elts)
    if isinstance(e, ast.Call) and isinstance(e.func, ast.Name) and e.func.id in ("range", "chain", "list", "tuple", "len", "set", "frozenset", "zip", "enumerate", "sorted") and all(isinstance(k.value, ast.Constant) for k in e.keywords):
        return all(_pure_with_displays(a) for a in e.args)
    if isinstance(e, ast.Compare):
        return _pure_with_displays(e.left) and all(_pure_with_displays(c) for c in e.comparators)
    if isinstance(e, ast.BinOp):
        return _pure_with_displays(e.left) and _pure_with_displays(e.right)
    if isinstance(e, ast.Tuple):
        return all(_pure_with_displays(x) for x in e.elts)
    return canon._is_pure(e)


def pure_locals(func: ast.AST, displays: bool = False) -> dict[str, ast.expr]:
    """Locals of `func` bound exactly once, by a plain assignment, to a pure expression (names, attributes, subscripts,
    constants, operators, type()/len()/slice()/isinstance())."""
    from . import canon

    out: dict[str, ast.expr] = {}
    bound = canon._bound_names(func)
    params = set(canon._params(func))
    for n in walk_no_nested(func):
        tgt = canon._single_name_target(n) if isinstance(n, ast.stmt) else None
        if tgt is not None and tgt.id not in params and len(bound.get(tgt.id, [])) == 1 and (_pure_with_displays(n.value) if displays else canon._is_pure(n.value)):
            out[tgt.id] = n.value
    return out


def expanded(func: ast.AST, e: ast.AST, depth: int = 6, displays: bool = False) -> str:
    """Normalised text of `e` with the pure single-assignment locals of `func` replaced by their definitions, so that a rule
    comparing it against an expected expression does not depend on which sub-expressions happen to be named."""
    import copy as _copy

    from . import canon

    pl = pure_locals(func, displays)
    cur = _copy.deepcopy(e)
    for _ in range(depth):
        names = {n.id for n in ast.walk(cur) if isinstance(n, ast.Name) and isinstance(n.ctx, ast.Load)} & set(pl)
        if not names:
            break
        holder = ast.Expression(body=cur) if isinstance(cur, ast.expr) else ast.Module(body=[cur], type_ignores=[])
        holder = canon._Subst({k: pl[k] for k in names}).visit(holder)
        cur = holder.body if isinstance(holder, ast.Expression) else holder.body[0]
    return ast.unparse(cur)


def local_callees(repo: Repo, fi: FuncInfo) -> list[FuncInfo]:
    """Nested functions of `fi` plus repository functions of the same module that `fi` (or a nested function) calls by name."""
    out: list[FuncInfo] = []

    def inner(f: FuncInfo):
        for g in f.inner.values():
            out.append(g)
            inner(g)

    inner(fi)
    for c in calls(fi.node, nested=True):
        g = None
        if isinstance(c.func, ast.Name) and c.func.id in fi.module.functions:
            g = fi.module.functions[c.func.id]
        elif isinstance(c.func, ast.Attribute) and isinstance(c.func.value, ast.Name) and fi.cls is not None and c.func.value.id in ("self", "cls", fi.cls.name):
            g = repo.lookup_method(fi.cls, c.func.attr)
        if g is not None and g not in out and g is not fi:
            out.append(g)
            inner(g)
    return out


def worker(repo: Repo, fi: FuncInfo) -> FuncInfo:
    """The helper that does the work of `fi`: its nested function, or — when that has been hoisted — the function of the
    same module / class it delegates to."""
    cs = local_callees(repo, fi)
    if not cs:
        raise AnalysisError(f"{fi.qual}: no nested or delegated helper found")
    return cs[0]


class Fold:
    """One left fold: acc = init; for item in iter: acc = step(acc, item) — from functools.reduce or an explicit loop.
    `step` is normalised text with the accumulator spelled $acc and the item variables $0, $1, ..."""

    def __init__(self, init: ast.AST, iter_: ast.AST, step: str, node: ast.AST, form: str, result: str | None) -> None:
        self.init, self.iter, self.step, self.node, self.form, self.result = init, iter_, step, node, form, result


def _rename_text(e: ast.AST, mapping: dict[str, str]) -> str:
    import copy as _copy

    e = _copy.deepcopy(e)
    for n in ast.walk(e):
        if isinstance(n, ast.Name) and n.id in mapping:
            n.id = mapping[n.id]
    return ast.unparse(e)


def folds(repo: Repo, m: ModuleInfo, func: ast.AST) -> list[Fold]:
    out: list[Fold] = []

    def item_map(target: ast.AST) -> dict[str, str]:
        names = [n.id for n in ast.walk(target) if isinstance(n, ast.Name)]
        return {n: f"${i}" for i, n in enumerate(names)}

    for n in walk_no_nested(func):
        # reduce(f, iterable, init)
        if isinstance(n, ast.Call) and callee_name(repo, m, n) == "functools.reduce" and len(n.args) == 3 and not n.keywords:
            f, it, init = n.args
            if isinstance(f, ast.Lambda) and len(f.args.args) == 2:
                a, b = f.args.args[0].arg, f.args.args[1].arg
                step_e, imap = f.body, {b: "$0"}
                acc = a
            else:
                d = repo.dotted_of(m, f) or ast.unparse(f)
                ops = {"operator.or_": ast.BitOr, "operator.add": ast.Add, "operator.mul": ast.Mult, "operator.and_": ast.BitAnd}
                if d not in ops:
                    continue
                step_e = ast.BinOp(left=ast.Name(id="$acc", ctx=ast.Load()), op=ops[d](), right=ast.Name(id="$0", ctx=ast.Load()))
                imap, acc = {}, "$acc"
            # a generator argument `(E for T in IT)` is folded into the step: item := E
            if isinstance(it, ast.GeneratorExp) and len(it.generators) == 1 and not it.generators[0].ifs:
                g = it.generators[0]
                import copy as _copy

                from . import canon

                elt = _copy.deepcopy(it.elt)
                for x in ast.walk(elt):
                    if isinstance(x, ast.Name) and x.id in (im := item_map(g.target)):
                        x.id = im[x.id]
                step_c = _copy.deepcopy(step_e)
                for x in ast.walk(step_c):
                    if isinstance(x, ast.Name):
                        if x.id == acc:
                            x.id = "$acc"
                        elif x.id in imap or x.id == "$0":
                            x.id = "__item__"
                step_c = canon._Subst({"__item__": elt}).visit(ast.Expression(body=step_c)).body
                out.append(Fold(init, g.iter, ast.unparse(step_c), n, "reduce", None))
            else:
                out.append(Fold(init, it, _rename_text(step_e, {acc: "$acc", **imap}), n, "reduce", None))
    # explicit loops: `acc = INIT` ; `for T in IT: acc = STEP`
    for block_owner in ast.walk(func):
        for fld in ("body", "orelse", "finalbody"):
            block = getattr(block_owner, fld, None)
            if not (isinstance(block, list) and block and isinstance(block[0], ast.stmt)):
                continue
            for i in range(1, len(block)):
                loop, prev = block[i], block[i - 1]
                if not (isinstance(loop, ast.For) and not loop.orelse and len(loop.body) == 1):
                    continue
                s = loop.body[0]

                def single_assign(st):
                    if isinstance(st, ast.Assign) and len(st.targets) == 1 and isinstance(st.targets[0], ast.Name):
                        return st.targets[0].id, st.value
                    if isinstance(st, ast.AugAssign) and isinstance(st.target, ast.Name):
                        return st.target.id, ast.BinOp(left=ast.Name(id=st.target.id, ctx=ast.Load()), op=st.op, right=st.value)
                    return None

                one = single_assign(s)
                if one is not None:
                    acc, step_e = one
                elif isinstance(s, ast.If) and len(s.body) == 1 and len(s.orelse) == 1 and single_assign(s.body[0]) and single_assign(s.orelse[0]) and single_assign(s.body[0])[0] == single_assign(s.orelse[0])[0]:
                    # `if c: acc = A else: acc = B`  ==  acc = A if c else B
                    acc = single_assign(s.body[0])[0]
                    step_e = ast.IfExp(test=s.test, body=single_assign(s.body[0])[1], orelse=single_assign(s.orelse[0])[1])
                else:
                    continue
                init = None
                if isinstance(prev, ast.Assign) and len(prev.targets) == 1 and isinstance(prev.targets[0], ast.Name) and prev.targets[0].id == acc:
                    init = prev.value
                elif isinstance(prev, ast.AnnAssign) and isinstance(prev.target, ast.Name) and prev.target.id == acc and prev.value is not None:
                    init = prev.value
                elif isinstance(func, (ast.FunctionDef, ast.AsyncFunctionDef)) and acc in [a.arg for a in func.args.posonlyargs + func.args.args + func.args.kwonlyargs]:
                    # the accumulator is a parameter updated in place of a fresh name: it starts from the argument
                    before = [x for x in walk_no_nested(func) if isinstance(x, ast.Name) and x.id == acc and isinstance(x.ctx, ast.Store) and (x.lineno, x.col_offset) < (loop.lineno, loop.col_offset)]
                    if not before:
                        init = ast.Name(id=acc, ctx=ast.Load())
                if init is None or acc not in {x.id for x in ast.walk(step_e) if isinstance(x, ast.Name)}:
                    continue
                out.append(Fold(init, loop.iter, _rename_text(step_e, {acc: "$acc", **item_map(loop.target)}), loop, "loop", acc))
    return out


def returned_component(stmts: list[ast.stmt]) -> tuple[ast.Call | None, int | None]:
    """For a statement list that ends by returning one component of a call's tuple result — `return CALL[k]`, or
    `a, b = CALL` ; `return b` — the call and the component index; (None, None) otherwise."""
    body = [s for s in stmts if not (isinstance(s, ast.Expr) and isinstance(s.value, ast.Constant))]
    if not body or not isinstance(body[-1], ast.Return) or body[-1].value is None:
        return None, None
    v = body[-1].value
    if len(body) == 1 and isinstance(v, ast.Subscript) and isinstance(v.value, ast.Call) and isinstance(v.slice, ast.Constant) and isinstance(v.slice.value, int):
        return v.value, v.slice.value
    if len(body) == 2 and isinstance(v, ast.Name) and isinstance(body[0], ast.Assign) and len(body[0].targets) == 1 and isinstance(body[0].targets[0], ast.Tuple) and isinstance(body[0].value, ast.Call):
        names = [x.id if isinstance(x, ast.Name) else None for x in body[0].targets[0].elts]
        if names.count(v.id) == 1:
            return body[0].value, names.index(v.id)
    return None, None


def argument_sources(repo: Repo, fi: FuncInfo, param: str, depth: int = 2) -> set[str]:
    """What the callers of `fi` pass for `param` (normalised text, callers' pure locals expanded; a caller that forwards its
    own parameter is followed up to `depth` levels).  Empty if no call site is found."""
    out: set[str] = set()
    for g in repo.funcs.values():
        for c in calls(g.node):
            f = c.func
            nm = f.attr if isinstance(f, ast.Attribute) else (f.id if isinstance(f, ast.Name) else None)
            if nm != fi.name or repo.owner(c) is not g:
                continue
            a = arg_of(c, fi, param)
            if a is None:
                continue
            txt = expanded(g.node, a)
            if depth > 0 and isinstance(a, ast.Name) and a.id in g.params:
                deeper = argument_sources(repo, g, a.id, depth - 1)
                out |= deeper if deeper else {txt}
            else:
                out.add(txt)
    return out


def emptiness_normal(test: ast.AST) -> ast.AST:
    """`len(E) == 0` / `0 == len(E)` / `not len(E)` / `len(E) < 1` -> `not E`; `len(E) != 0` / `> 0` / `>= 1` -> `E`.  For a
    container the two spellings are the same test; NOT a program rewrite (a tensor's truth value is not its length) — used
    where a rule compares or keys a test whose subject it knows to be a tuple / list / dict."""
    import copy as _copy

    class T(ast.NodeTransformer):
        def visit_Compare(self, n):
            self.generic_visit(n)
            if len(n.ops) != 1:
                return n
            l, op, r = n.left, n.ops[0], n.comparators[0]
            is_len = lambda x: isinstance(x, ast.Call) and isinstance(x.func, ast.Name) and x.func.id == "len" and len(x.args) == 1 and not x.keywords
            const = lambda x, v: isinstance(x, ast.Constant) and type(x.value) is int and x.value == v
            if is_len(r) and not is_len(l):  # mirror: c OP len(E)  ->  len(E) OP' c
                mirror = {ast.Eq: ast.Eq, ast.NotEq: ast.NotEq, ast.Lt: ast.Gt, ast.Gt: ast.Lt, ast.LtE: ast.GtE, ast.GtE: ast.LtE}
                if type(op) in mirror:
                    l, r, op = r, l, mirror[type(op)]()
            if not is_len(l):
                return n
            e = l.args[0]
            empty = (isinstance(op, ast.Eq) and const(r, 0)) or (isinstance(op, ast.Lt) and const(r, 1)) or (isinstance(op, ast.LtE) and const(r, 0))
            nonempty = (isinstance(op, ast.NotEq) and const(r, 0)) or (isinstance(op, ast.Gt) and const(r, 0)) or (isinstance(op, ast.GtE) and const(r, 1))
            if empty:
                return ast.UnaryOp(op=ast.Not(), operand=e)
            if nonempty:
                return e
            return n

        def visit_UnaryOp(self, n):
            self.generic_visit(n)
            if isinstance(n.op, ast.Not) and isinstance(n.operand, ast.Call) and isinstance(n.operand.func, ast.Name) and n.operand.func.id == "len" and len(n.operand.args) == 1:
                return ast.UnaryOp(op=ast.Not(), operand=n.operand.args[0])
            if isinstance(n.op, ast.Not) and isinstance(n.operand, ast.UnaryOp) and isinstance(n.operand.op, ast.Not):
                return n.operand.operand
            return n

    return ast.fix_missing_locations(T().visit(_copy.deepcopy(test)))


_DTYPE_METHODS = {"double": "float64", "float": "float32", "half": "float16", "bfloat16": "bfloat16"}


def tensor_normal(e: ast.AST) -> ast.AST:
    """Spelling-independent form of an expression whose `.size/.dim/.to` receivers are TENSORS (the caller knows; not a program
    rewrite — a DeviceMesh also has `.size(dim)`): `x.size()` -> `x.shape`, `x.size(i)` / `x.size(dim=i)` -> `x.shape[i]`,
    `x.dim()` / `x.ndimension()` / `len(x.shape)` -> `x.ndim`, `x.double()` -> `x.to(dtype=torch.float64)` (float / half /
    bfloat16 alike), `x.to(D)` -> `x.to(dtype=D)` for a dtype-valued D, `type(x) == C` -> `type(x) is C`,
    `torch.zeros((n,), …)` -> `torch.zeros(n, …)`."""
    import copy as _copy

    def dtype_like(a: ast.AST) -> bool:
        t = ast.unparse(a)
        return t.endswith(".dtype") or t.endswith("_dtype") or t == "dtype" or (t.startswith("torch.") and t.split(".")[-1] in {"float64", "float32", "float16", "bfloat16", "double", "float", "half", "int8", "int32", "int64", "long", "bool"})

    class T(ast.NodeTransformer):
        def visit_Call(self, n: ast.Call):
            self.generic_visit(n)
            f = n.func
            if isinstance(f, ast.Attribute):
                if f.attr == "size" and not n.args and not n.keywords:
                    return ast.Attribute(value=f.value, attr="shape", ctx=ast.Load())
                if f.attr == "size" and ((len(n.args) == 1 and not n.keywords) or (not n.args and len(n.keywords) == 1 and n.keywords[0].arg == "dim")):
                    idx = n.args[0] if n.args else n.keywords[0].value
                    return ast.Subscript(value=ast.Attribute(value=f.value, attr="shape", ctx=ast.Load()), slice=idx, ctx=ast.Load())
                if f.attr in ("dim", "ndimension") and not n.args and not n.keywords:
                    return ast.Attribute(value=f.value, attr="ndim", ctx=ast.Load())
                if f.attr in _DTYPE_METHODS and not n.args and not n.keywords:
                    d = ast.Attribute(value=ast.Name(id="torch", ctx=ast.Load()), attr=_DTYPE_METHODS[f.attr], ctx=ast.Load())
                    return ast.Call(func=ast.Attribute(value=f.value, attr="to", ctx=ast.Load()), args=[], keywords=[ast.keyword(arg="dtype", value=d)])
                if f.attr == "to" and len(n.args) == 1 and not n.keywords and dtype_like(n.args[0]):
                    return ast.Call(func=f, args=[], keywords=[ast.keyword(arg="dtype", value=n.args[0])])
                if isinstance(f.value, ast.Name) and f.value.id == "torch" and f.attr in ("zeros", "ones", "empty") and n.args and isinstance(n.args[0], ast.Tuple) and len(n.args[0].elts) == 1:
                    n.args[0] = n.args[0].elts[0]
            if isinstance(f, ast.Name) and f.id == "len" and len(n.args) == 1 and isinstance(n.args[0], ast.Attribute) and n.args[0].attr == "shape":
                return ast.Attribute(value=n.args[0].value, attr="ndim", ctx=ast.Load())
            return n

        def visit_Attribute(self, n: ast.Attribute):
            self.generic_visit(n)
            if n.attr == "double" and isinstance(n.value, ast.Name) and n.value.id == "torch":
                n.attr = "float64"
            elif n.attr == "float" and isinstance(n.value, ast.Name) and n.value.id == "torch":
                n.attr = "float32"
            return n

        def visit_Compare(self, n: ast.Compare):
            self.generic_visit(n)
            if len(n.ops) == 1 and isinstance(n.ops[0], (ast.Eq, ast.NotEq)):
                is_type = lambda x: isinstance(x, ast.Call) and isinstance(x.func, ast.Name) and x.func.id == "type" and len(x.args) == 1
                if is_type(n.left) or is_type(n.comparators[0]):
                    n.ops = [ast.Is() if isinstance(n.ops[0], ast.Eq) else ast.IsNot()]
            return n

    return ast.fix_missing_locations(T().visit(_copy.deepcopy(e)))


def tnorm(e: ast.AST | str) -> str:
    """Whitespace-normalised text of tensor_normal(e)."""
    if isinstance(e, str):
        e = ast.parse(e, mode="eval").body
    return " ".join(ast.unparse(tensor_normal(e)).split())
