"""E8 — sibling differ: canonical form of a function and first structural difference between two copies.

Canonical form: docstrings / bare string statements dropped, assert messages dropped, f-string text dropped,
type annotations dropped, locals alpha-renamed in order of first binding, own-class references replaced by <Self>,
plus a per-pair declared renaming of attributes / names.
"""

from __future__ import annotations

import ast
import copy

from .loader import FuncInfo


class _Canon(ast.NodeTransformer):
    def __init__(self, fi: FuncInfo, renames: dict[str, str], self_names: set[str]) -> None:
        self.renames = renames
        self.self_names = self_names
        self.locals: dict[str, str] = {}
        self.params = set()

    def _local(self, name: str) -> str:
        if name not in self.locals:
            self.locals[name] = f"v{len(self.locals)}"
        return self.locals[name]

    def visit_FunctionDef(self, node: ast.FunctionDef):
        node.decorator_list = [d for d in node.decorator_list]
        node.returns = None
        for a in node.args.posonlyargs + node.args.args + node.args.kwonlyargs:
            a.annotation = None
            a.arg = self.renames.get(a.arg, a.arg)
        node.body = self._strip(node.body)
        self.generic_visit(node)
        return node

    def _strip(self, body):
        out = [s for s in body if not (isinstance(s, ast.Expr) and isinstance(s.value, ast.Constant) and isinstance(s.value.value, str))]
        return out or [ast.Pass()]

    def visit_AnnAssign(self, node: ast.AnnAssign):
        if node.value is None:
            return ast.Pass()
        new = ast.Assign(targets=[node.target], value=node.value)
        return self.visit(new)

    def visit_Assert(self, node: ast.Assert):
        node.msg = None
        self.generic_visit(node)
        return node

    def visit_Raise(self, node: ast.Raise):
        # exception *type* matters, the message text does not
        if isinstance(node.exc, ast.Call):
            node.exc.args = []
            node.exc.keywords = []
        self.generic_visit(node)
        return node

    def visit_Expr(self, node: ast.Expr):
        v = node.value
        if isinstance(v, ast.Call) and isinstance(v.func, ast.Attribute) and isinstance(v.func.value, ast.Name) and v.func.value.id in ("logger", "logging"):
            v.args = []
            v.keywords = []
            return node
        self.generic_visit(node)
        return node

    def visit_JoinedStr(self, node: ast.JoinedStr):
        return ast.Constant(value="<fstring>")

    def visit_Constant(self, node: ast.Constant):
        return node

    def visit_Name(self, node: ast.Name):
        if node.id in self.self_names:
            node.id = "<Self>"
        elif node.id in self.renames:
            node.id = self.renames[node.id]
        return node

    def visit_Attribute(self, node: ast.Attribute):
        self.generic_visit(node)
        node.attr = self.renames.get(node.attr, node.attr)
        return node

    def visit_keyword(self, node: ast.keyword):
        self.generic_visit(node)
        if node.arg is not None:
            node.arg = self.renames.get(node.arg, node.arg)
        return node

    def visit_If(self, node):
        node.body = self._strip(node.body)
        self.generic_visit(node)
        return node

    visit_For = visit_While = visit_With = visit_If


def _alpha(tree: ast.AST) -> ast.AST:
    """Rename locals (names that are stored somewhere in the function, and parameters except self) by first occurrence."""
    bound: list[str] = []
    for n in ast.walk(tree):
        if isinstance(n, ast.arg) and n.arg not in ("self", "cls") and n.arg not in bound:
            bound.append(n.arg)
    for n in ast.walk(tree):
        if isinstance(n, ast.Name) and isinstance(n.ctx, ast.Store) and n.id not in bound:
            bound.append(n.id)
    # order of first occurrence in the tree (structural, so that it survives inlining and re-formatting)
    from .canon import _seq

    seq = _seq(tree)
    order: dict[str, int] = {}
    for n in sorted(ast.walk(tree), key=lambda x: seq.get(id(x), 0)):
        nm = n.arg if isinstance(n, ast.arg) else n.id if isinstance(n, ast.Name) else None
        if nm in bound and nm not in order:
            order[nm] = seq.get(id(n), 0)
    ranked = {nm: f"v{i}" for i, nm in enumerate(sorted(order, key=lambda k: order[k]))}
    for n in ast.walk(tree):
        if isinstance(n, ast.arg) and n.arg in ranked:
            n.arg = ranked[n.arg]
        elif isinstance(n, ast.Name) and n.id in ranked:
            n.id = ranked[n.id]
    return tree


def canonical(fi: FuncInfo, renames: dict[str, str] | None = None, self_names: set[str] | None = None, alpha: bool = True) -> ast.AST:
    tree = copy.deepcopy(fi.node)
    tree.name = "<f>"
    tree.decorator_list = sorted(tree.decorator_list, key=ast.dump)
    tree = _Canon(fi, renames or {}, self_names or set()).visit(tree)
    if alpha:
        tree = _alpha(tree)
    ast.fix_missing_locations(tree)
    return tree


def first_difference(a: ast.AST, b: ast.AST) -> tuple[str, str] | None:
    """First differing sub-tree (pre-order) of two canonical trees, as (source a, source b); None if equal."""
    if type(a) is not type(b):
        return _src(a), _src(b)
    for f in a._fields:
        if f in ("lineno", "col_offset", "end_lineno", "end_col_offset", "ctx", "type_comment", "kind"):
            continue
        va, vb = getattr(a, f, None), getattr(b, f, None)
        if isinstance(va, list) and isinstance(vb, list):
            for xa, xb in zip(va, vb):
                if isinstance(xa, ast.AST) and isinstance(xb, ast.AST):
                    d = first_difference(xa, xb)
                    if d is not None:
                        return d
                elif xa != xb:
                    return _src(a), _src(b)
            if len(va) != len(vb):
                extra = va[len(vb) :] or vb[len(va) :]
                side = "first" if len(va) > len(vb) else "second"
                return (_src(va[len(vb)]) if len(va) > len(vb) else "<nothing>"), (_src(vb[len(va)]) if len(vb) > len(va) else "<nothing>")
        elif isinstance(va, ast.AST) and isinstance(vb, ast.AST):
            d = first_difference(va, vb)
            if d is not None:
                return d
        elif va != vb:
            if isinstance(va, ast.AST) or isinstance(vb, ast.AST):
                return _src(va), _src(vb)
            return _src(a), _src(b)
    return None


def _src(n) -> str:
    if n is None:
        return "<nothing>"
    if isinstance(n, ast.AST):
        try:
            s = ast.unparse(n)
        except Exception:
            s = ast.dump(n)
        return s if len(s) <= 160 else s[:160] + "…"
    return repr(n)
