"""E5 — rank-variance of the control context of collective-effect calls.

Two-point lattice INV ⊑ VAR.  VAR sources: dist.get_rank(*), DeviceMesh.get_local_rank / get_coordinate, every
expression that the index-space typing (E4) places in the LOCAL / LOCAL-MASKED space or that is a selector into
it (which blocks a rank owns, and which of those have gradients, differs between ranks), and locals / formals
defined from such values.  Explicitly INV (premises of C06–C08, recorded as assumptions): parameter shapes,
gradient presence per parameter, hyperparameters, world size, mesh layout.

For a sink call site the *control context* is the set of branch conditions, loop / comprehension iteration
domains and conditional-expression tests that govern it inside its function, joined along every call-graph
path from an API entry point (DistributedShampoo.__init__, step).
"""

from __future__ import annotations

import ast
from collections import defaultdict
from dataclasses import dataclass

from . import astutil as A
from . import tables as T
from .cfg import CFG
from .loader import FuncInfo, Repo
from .spaces import Scope, Spaces, space_of

ENTRY = ["distributed_shampoo.distributed_shampoo:DistributedShampoo.__init__", "distributed_shampoo.distributed_shampoo:DistributedShampoo.step"]


@dataclass
class Offence:
    func: str
    node: ast.AST
    what: str  # "branch" | "loop" | "ifexp" | "arg"
    text: str
    required: bool | None = None  # for a branch: the truth value of the test on the way to the sink


class RankTaint:
    def __init__(self, repo: Repo, pts, spaces: Spaces) -> None:
        self.repo, self.pts, self.sp = repo, pts, spaces
        self.rev: dict[str, list[tuple[str, ast.Call]]] = defaultdict(list)
        for (caller, nid), callees in pts.calls.items():
            node = pts.call_nodes.get(nid)
            if node is None or not isinstance(node, ast.Call) or getattr(node, "lineno", 0) == 0:
                continue
            for c in callees:
                self.rev[c].append((caller, node))
        self._cfgs: dict[str, CFG] = {}
        self._par: dict[str, dict] = {}
        self._var_locals: dict[tuple[str, str | None], set[str]] = {}

    # ------------------------------------------------------------------ per-function helpers
    def cfg(self, fi: FuncInfo) -> CFG:
        if fi.qual not in self._cfgs:
            self._cfgs[fi.qual] = CFG(fi.node)
            self._par[fi.qual] = A.parents(fi.node)
        return self._cfgs[fi.qual]

    def classes_for(self, fi: FuncInfo):
        if fi.cls is None:
            return [None]
        cs = [c for c in self.sp.pl_classes + self.sp.dist_classes + [self.sp.ds] if self.repo.is_subclass(c, fi.cls)]
        return cs or [None]

    def scope(self, fi: FuncInfo, c) -> Scope:
        sc = Scope(fi, c)
        if c is not None:
            for p in fi.params:
                t = self.sp.formal.get((fi.qual, p))
                if t is not None:
                    sc.locals[p] = t
            for _ in range(2):
                self.sp._bind_locals(sc)
        return sc

    def var_locals(self, fi: FuncInfo, c) -> set[str]:
        key = (fi.qual, c.qual if c is not None else None)
        if key in self._var_locals:
            return self._var_locals[key]
        self._var_locals[key] = set()
        sc = self.scope(fi, c)
        var: set[str] = set()
        changed = True
        while changed:
            changed = False
            for n in A.walk_no_nested(fi.node):
                tgt, val = None, None
                if isinstance(n, ast.Assign):
                    tgt, val = n.targets[0], n.value
                elif isinstance(n, ast.AnnAssign) and n.value is not None:
                    tgt, val = n.target, n.value
                elif isinstance(n, ast.NamedExpr):
                    tgt, val = n.target, n.value
                if tgt is None:
                    continue
                if self._is_var(val, sc, var):
                    for nm in [x.id for x in ast.walk(tgt) if isinstance(x, ast.Name) and isinstance(x.ctx, ast.Store)]:
                        if nm not in var:
                            var.add(nm)
                            changed = True
        self._var_locals[key] = var
        return var

    def _is_var(self, e: ast.AST, sc: Scope, var: set[str]) -> str | None:
        """Reason string if expression e is rank-variant, else None."""
        m = sc.fi.module
        for n in ast.walk(e):
            if isinstance(n, ast.Call):
                d = A.callee_name(self.repo, m, n)
                if d in T.RANK_SOURCES:
                    return f"`{ast.unparse(n)}` is {T.RANK_SOURCES[d]}"
                if isinstance(n.func, ast.Attribute) and n.func.attr in T.RANK_SOURCE_METHODS and d.startswith("."):
                    return f"`{ast.unparse(n)}` ({T.RANK_SOURCE_METHODS[n.func.attr]})"
            if isinstance(n, ast.Name) and isinstance(n.ctx, ast.Load) and n.id in var:
                return f"`{n.id}` is derived from a rank-variant value"
            if isinstance(n, (ast.Attribute, ast.Subscript, ast.Name, ast.Call)):
                t = self.sp.ty(n, sc)
                if t is not None:
                    if t[0] in ("list", "alltrue", "idx") and t[1] in ("L", "LM"):
                        return f"`{ast.unparse(n)[:70]}` lives in the rank-local index space {t[1]}"
                    if t[0] == "sel" and ("L" in (t[1], t[2]) or "LM" in (t[1], t[2])) and t[1] != t[2]:
                        return f"`{ast.unparse(n)[:70]}` is the rank-local selector {t[1]}->{t[2]}"
        return None

    # ------------------------------------------------------------------ control context of a node inside its function
    def local_context(self, fi: FuncInfo, node: ast.AST) -> list[Offence]:
        out: list[Offence] = []
        cfg = self.cfg(fi)
        par = self._par[fi.qual]
        cn = cfg.node_of(node)
        for c in self.classes_for(fi):
            # identity-distribution classes have no rank-local lists
            if c is not None and c.qual in self.sp.identity_cls:
                continue
            sc = self.scope(fi, c)
            var = self.var_locals(fi, c)
            if cn is not None:
                for t, lab in cfg.branch_conditions(cn):
                    if t.kind == "test" and not isinstance(t.ast, ast.Assert):
                        why = self._is_var(t.ast.test, sc, var)
                        if why:
                            out.append(Offence(fi.qual, t.ast, "branch", f"reached only when `{ast.unparse(t.ast.test)[:80]}` is {'true' if lab == 'T' else 'false'}: {why}", required=(lab == "T")))
            n = node
            while id(n) in par:
                p = par[id(n)]
                if isinstance(p, (ast.For, ast.AsyncFor)) and n is not p.iter:
                    why = self._is_var(p.iter, sc, var)
                    if why:
                        out.append(Offence(fi.qual, p, "loop", f"inside a loop over `{ast.unparse(p.iter)[:80]}`: {why}"))
                elif isinstance(p, (ast.GeneratorExp, ast.ListComp, ast.SetComp, ast.DictComp)):
                    for g in p.generators:
                        if n is g:
                            continue
                        why = self._is_var(g.iter, sc, var)
                        if why:
                            out.append(Offence(fi.qual, p, "loop", f"inside a comprehension over `{ast.unparse(g.iter)[:80]}`: {why}"))
                        for cond in g.ifs:
                            why = self._is_var(cond, sc, var)
                            if why:
                                out.append(Offence(fi.qual, p, "branch", f"under comprehension filter `{ast.unparse(cond)[:80]}`: {why}"))
                elif isinstance(p, ast.IfExp) and n is not p.test:
                    why = self._is_var(p.test, sc, var)
                    if why:
                        out.append(Offence(fi.qual, p, "ifexp", f"under conditional `{ast.unparse(p.test)[:80]}`: {why}"))
                n = p
        # dedupe
        seen, uniq = set(), []
        for o in out:
            k = (o.func, o.what, o.text)
            if k not in seen:
                seen.add(k)
                uniq.append(o)
        return uniq

    def arg_offences(self, fi: FuncInfo, call: ast.Call, arg_names: tuple[str, ...] | None = None) -> list[Offence]:
        out = []
        for c in self.classes_for(fi):
            if c is not None and c.qual in self.sp.identity_cls:
                continue
            sc = self.scope(fi, c)
            var = self.var_locals(fi, c)
            for a in list(call.args) + [k.value for k in call.keywords if arg_names is None or k.arg in arg_names]:
                why = self._is_var(a, sc, var)
                if why:
                    out.append(Offence(fi.qual, a, "arg", f"argument `{ast.unparse(a)[:70]}` is rank-variant: {why}"))
        seen, uniq = set(), []
        for o in out:
            if o.text not in seen:
                seen.add(o.text)
                uniq.append(o)
        return uniq

    # ------------------------------------------------------------------ inter-procedural context
    def chains(self, func: str, limit: int = 400) -> list[list[tuple[str, ast.Call]]]:
        """Call chains [(caller, call node), ...] from an entry point down to `func` (acyclic, bounded)."""
        out: list[list[tuple[str, ast.Call]]] = []

        def rec(f: str, suffix: list, seen: frozenset):
            if len(out) >= limit:
                return
            if f in ENTRY:
                out.append(list(suffix))
                return
            callers = self.rev.get(f, [])
            for caller, node in callers:
                if caller in seen:
                    continue
                rec(caller, [(caller, node)] + suffix, seen | {caller})

        rec(func, [], frozenset({func}))
        return out

    def context_offences(self, func: str, node: ast.AST) -> tuple[int, list[tuple[list[str], list[Offence]]]]:
        """For the statement `node` in `func`: (#entry-to-site chains, [(chain as function names, offences on it)] for offending chains)."""
        fi = self.repo.funcs[func]
        base = self.local_context(fi, node)
        chains = self.chains(func)
        bad = []
        if func in ENTRY:
            chains = [[]] + chains
        for ch in chains:
            offs = list(base)
            for caller, cnode in ch:
                cfi = self.repo.funcs.get(caller)
                if cfi is None:
                    continue
                offs += self.local_context(cfi, cnode)
            if offs:
                bad.append(([c for c, _ in ch] + [func], offs))
        return len(chains), bad
