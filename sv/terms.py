"""E11a — exact term algebra: rational functions over Q in atoms, with uninterpreted applications.

A value is a Rat = num/den with num, den multivariate "polynomials" whose monomials may carry rational exponents
(so that sqrt distributes over products/quotients).  Atoms are symbols or uninterpreted applications f(args) whose
arguments are themselves Rats; two applications are the same atom iff all arguments are equal as rational functions
(decided by cross-multiplication).  Equality of Rats is exact: a/b == c/d  iff  a*d == c*b as polynomials.
No floating point is involved: Python floats in the analysed code are converted to exact Fractions.
"""

from __future__ import annotations

from fractions import Fraction
from typing import Iterable

Mono = tuple  # sorted tuple of (atom_id, Fraction exponent)


class Atoms:
    """Atom table shared by all terms of one comparison."""

    def __init__(self) -> None:
        self.items: list[tuple] = []  # ("sym", name) | ("app", fname, (Rat, ...), key)
        self.names: dict[str, int] = {}

    def sym(self, name: str) -> int:
        if name not in self.names:
            self.names[name] = len(self.items)
            self.items.append(("sym", name))
        return self.names[name]

    def app(self, fname: str, args: tuple, key: str = "") -> int:
        for i, it in enumerate(self.items):
            if it[0] == "app" and it[1] == fname and it[3] == key and len(it[2]) == len(args) and all(a == b for a, b in zip(it[2], args)):
                return i
        self.items.append(("app", fname, args, key))
        return len(self.items) - 1

    def show(self, i: int) -> str:
        it = self.items[i]
        if it[0] == "sym":
            return it[1]
        return f"{it[1]}({', '.join(str(a) for a in it[2])}{'; ' + it[3] if it[3] else ''})"


class Poly:
    __slots__ = ("terms", "atoms")

    def __init__(self, atoms: Atoms, terms: dict[Mono, Fraction] | None = None) -> None:
        self.atoms = atoms
        self.terms = {m: c for m, c in (terms or {}).items() if c != 0}

    @staticmethod
    def const(atoms: Atoms, c) -> "Poly":
        return Poly(atoms, {(): Fraction(c)})

    def __add__(self, o: "Poly") -> "Poly":
        t = dict(self.terms)
        for m, c in o.terms.items():
            t[m] = t.get(m, Fraction(0)) + c
        return Poly(self.atoms, t)

    def __neg__(self) -> "Poly":
        return Poly(self.atoms, {m: -c for m, c in self.terms.items()})

    def __mul__(self, o: "Poly") -> "Poly":
        t: dict[Mono, Fraction] = {}
        for m1, c1 in self.terms.items():
            for m2, c2 in o.terms.items():
                m = _mono_mul(m1, m2)
                t[m] = t.get(m, Fraction(0)) + c1 * c2
        return Poly(self.atoms, t)

    def __eq__(self, o: object) -> bool:
        return isinstance(o, Poly) and self.terms == o.terms

    def is_zero(self) -> bool:
        return not self.terms

    def single(self) -> tuple[Mono, Fraction] | None:
        if len(self.terms) == 1:
            return next(iter(self.terms.items()))
        return None

    def __str__(self) -> str:
        if not self.terms:
            return "0"
        parts = []
        for m, c in sorted(self.terms.items(), key=lambda kv: str(kv[0])):
            ms = "*".join(self.atoms.show(a) + ("" if e == 1 else f"^{e}") for a, e in m)
            if not ms:
                parts.append(str(c))
            elif c == 1:
                parts.append(ms)
            elif c == -1:
                parts.append("-" + ms)
            else:
                parts.append(f"{c}*{ms}")
        return " + ".join(parts).replace("+ -", "- ")


def _mono_mul(a: Mono, b: Mono) -> Mono:
    d: dict[int, Fraction] = {}
    for k, e in a + b:
        d[k] = d.get(k, Fraction(0)) + e
    return tuple(sorted((k, e) for k, e in d.items() if e != 0))


class Rat:
    __slots__ = ("num", "den", "atoms")

    def __init__(self, num: Poly, den: Poly | None = None) -> None:
        self.atoms = num.atoms
        self.num = num
        self.den = den if den is not None else Poly.const(num.atoms, 1)
        # normalise monomial denominators (keeps terms small and makes sqrt distribution possible)
        s = self.den.single()
        if s is not None:
            m, c = s
            inv = tuple((k, -e) for k, e in m)
            self.num = self.num * Poly(self.atoms, {inv: 1 / c})
            self.den = Poly.const(self.atoms, 1)

    # ---- construction helpers
    @staticmethod
    def const(atoms: Atoms, c) -> "Rat":
        if isinstance(c, float):
            c = Fraction(str(c))
        return Rat(Poly.const(atoms, c))

    @staticmethod
    def sym(atoms: Atoms, name: str) -> "Rat":
        return Rat(Poly(atoms, {((atoms.sym(name), Fraction(1)),): Fraction(1)}))

    @staticmethod
    def app(atoms: Atoms, fname: str, args: Iterable["Rat"], key: str = "") -> "Rat":
        return Rat(Poly(atoms, {((atoms.app(fname, tuple(args), key), Fraction(1)),): Fraction(1)}))

    def _coerce(self, o) -> "Rat":
        if isinstance(o, Rat):
            return o
        if isinstance(o, (int, Fraction)):
            return Rat.const(self.atoms, o)
        if isinstance(o, float):
            return Rat.const(self.atoms, o)
        raise TypeError(f"cannot combine a term with {type(o).__name__}")

    # ---- field operations
    def __add__(self, o):
        o = self._coerce(o)
        return Rat(self.num * o.den + o.num * self.den, self.den * o.den)

    __radd__ = __add__

    def __neg__(self):
        return Rat(-self.num, self.den)

    def __sub__(self, o):
        return self + (-self._coerce(o))

    def __rsub__(self, o):
        return self._coerce(o) - self

    def __mul__(self, o):
        o = self._coerce(o)
        return Rat(self.num * o.num, self.den * o.den)

    __rmul__ = __mul__

    def __truediv__(self, o):
        o = self._coerce(o)
        if o.num.is_zero():
            raise ZeroDivisionError("division by the zero term")
        return Rat(self.num * o.den, self.den * o.num)

    def __rtruediv__(self, o):
        return self._coerce(o) / self

    def __pow__(self, e):
        if isinstance(e, Rat):
            c = e.as_const()
            if c is None:
                return Rat.app(self.atoms, "pow", (self, e))
            e = c
        if isinstance(e, float):
            e = Fraction(str(e))
        e = Fraction(e)
        if e.denominator == 1:
            n = int(e)
            base = self if n >= 0 else 1 / self
            out = Rat.const(self.atoms, 1)
            for _ in range(abs(n)):
                out = out * base
            return out
        # rational exponent: (p/q)^e = p^e / q^e (quantities under roots are positive in the modelled algorithms);
        # monomials distribute the exponent over their atoms, genuine sums become one opaque atom pow(sum, e)
        if not _is_unit(self.den):
            return Rat(self.num) ** e / Rat(self.den) ** e
        sn = self.num.single()
        if sn is None:
            return Rat.app(self.atoms, "pow", (self, Rat.const(self.atoms, e)))
        mn, cn = sn
        mono = tuple((k, ex * e) for k, ex in mn)
        coef = Rat.const(self.atoms, 1)
        if cn != 1:
            root = _exact_root(cn, e)
            coef = Rat.const(self.atoms, root) if root is not None else Rat.app(self.atoms, "pow", (Rat.const(self.atoms, cn), Rat.const(self.atoms, e)))
        return coef * Rat(Poly(self.atoms, {_mono_mul(mono, ()): Fraction(1)}))

    def sqrt(self) -> "Rat":
        return self ** Fraction(1, 2)

    def as_const(self) -> Fraction | None:
        if self.den.terms == {(): Fraction(1)}:
            if not self.num.terms:
                return Fraction(0)
            if set(self.num.terms) == {()}:
                return self.num.terms[()]
        return None

    def __eq__(self, o: object) -> bool:
        if not isinstance(o, Rat):
            try:
                o = self._coerce(o)
            except TypeError:
                return False
        return (self.num * o.den) == (o.num * self.den)

    def __hash__(self) -> int:  # pragma: no cover - identity hashing is enough (terms are compared, never used as keys)
        return id(self)

    def __str__(self) -> str:
        d = str(self.den)
        n = str(self.num)
        return n if d == "1" else f"({n}) / ({d})"

    __repr__ = __str__


def _is_unit(p: Poly) -> bool:
    return p.terms == {(): Fraction(1)}


def _exact_root(c: Fraction, e: Fraction) -> Fraction | None:
    """c ** e if it is rational (only tried for small denominators)."""
    if c <= 0:
        return None
    try:
        num = round(c.numerator ** float(e))
        den = round(c.denominator ** float(e))
        cand = Fraction(num, den)
        if cand ** e.denominator == c ** e.numerator:
            return cand
    except (OverflowError, ZeroDivisionError):
        return None
    return None
