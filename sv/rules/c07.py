"""C07 — FSDP/HSDP Shampoo on the shard's recovered tensor blocks (agreement part).

C07.1 parameter/gradient recovery agreement: gradients are recovered with the metadata of the same parameter and
      blocked with the merged dims / block counts *stored* by the parameter path, sliced by the stored split counts;
C07.2 FSDP <-> HSDP sibling agreement of the recovery / blocking code (and FSDP <-> default Distributor update path);
C07.3 HSDP distribution: collective uniformity, buffer protocol, index spaces, re-masking, agreement with DDP/HybridShard;
C07.4 block keys carry the shard rank.
"""

from __future__ import annotations

import ast

from .. import astutil as A
from ..loader import AnalysisError
from .c04 import typing_sites
from .c06 import _dist_remask, _norm, allocation_forwards_request, buffer_protocol, collective_uniformity, comm_dtype_table, mesh_dimension_roles
from .c15 import recovery_rules
from .sib import DDP, DIST, FSDP, FULLY, HSDP, HYB, dist_pairs, sibling_pairs


def recovery_agreement(ctx, rep, rule: str, classes: list[str]) -> None:
    repo = ctx.repo
    for cq in classes:
        ci = repo.cls(cq)
        mp, mg = ci.methods.get("_merge_and_block_parameters"), ci.methods.get("_merge_and_block_gradients")
        if mp is None or mg is None:
            raise AnalysisError(f"{rule}: {ci.name} lacks _merge_and_block_parameters/_merge_and_block_gradients")
        def rec_calls(fi):
            return [c for c in A.calls(fi.node) if isinstance(c.func, ast.Attribute) and c.func.attr == "_split_tensor_block_recovery"]
        cp, cg = rec_calls(mp), rec_calls(mg)
        ok = len(cp) == 1 and len(cg) == 1
        detail = f"{len(cp)} recovery call(s) for parameters, {len(cg)} for gradients"
        if ok:
            ap, ag = [_norm(a) for a in cp[0].args], [_norm(a) for a in cg[0].args]
            meta_ok = ap[1:] == ag[1:] and len(ap) == 4
            fields = [a.rsplit(".", 1)[-1] for a in ap[1:]]
            fields_ok = fields == ["shape", "start_idx", "end_idx"]
            # the gradient is the .grad of the parameter whose metadata is used
            pvar = ap[0]
            gdefs = A.assignments_to(mg.node, cg[0].args[0].id) if isinstance(cg[0].args[0], ast.Name) else []
            grad_ok = any(_norm(d) == f"{pvar}.grad" for d in gdefs) and all(pvar in a for a in ag[1:])
            ok = meta_ok and fields_ok and grad_ok
            detail = f"parameters: _split_tensor_block_recovery({', '.join(ap)}); gradients: ({', '.join(ag)}); same metadata expressions: {meta_ok}; fields shape/start_idx/end_idx in order: {fields_ok}; gradient is `{pvar}.grad`: {grad_ok}"
        rep.ob(rule, f"recovery-agreement:{ci.name}", ok, mg.loc(cg[0]) if cg else mg.loc(), detail, sample=True)
        # stored bookkeeping is what the gradient path uses
        stored = {"_global_merged_dims_list", "_global_num_blocks_per_split_param", "_global_num_splits_per_param", "_global_num_blocks_per_param"}
        assigned = {n.targets[0].attr for n in A.walk_no_nested(mp.node) if isinstance(n, ast.Assign) and isinstance(n.targets[0], ast.Attribute) and isinstance(n.targets[0].value, ast.Name) and n.targets[0].value.id == "self"}
        used = {n.attr for n in ast.walk(mg.node) if isinstance(n, ast.Attribute) and isinstance(n.value, ast.Name) and n.value.id == "self" and n.attr in stored}
        recomputed = [c for c in A.calls(mg.node) if A.callee_name(repo, mg.module, c).endswith("shampoo_utils.merge_small_dims")]
        ok = stored <= assigned and stored <= used and not recomputed
        rep.ob(rule, f"stored-bookkeeping:{ci.name}", ok, mg.loc(), f"the parameter path stores {sorted(stored & assigned)}; the gradient path reads {sorted(used)} and recomputes merged dims {len(recomputed)} time(s) (it must reuse the stored ones so that gradient blocks cover the same index sets)", sample=True)
        # slices by pairwise indices of the stored split counts
        gp = [c for c in A.calls(mg.node) if A.callee_name(repo, mg.module, c).endswith("shampoo_utils.generate_pairwise_indices")]
        srcs = sorted({_norm(c.args[0]) for c in gp if c.args})
        want = {"self._global_num_blocks_per_param", "self._global_num_splits_per_param", "num_blocks_within_split_grads"}
        rep.ob(rule, f"slicing:{ci.name}", set(srcs) == want, mg.loc(), f"index ranges come from generate_pairwise_indices over {srcs}")
        # same split size key for parameters and gradients
        def split_sizes(fi):
            return sorted({_norm(c.args[1]) for c in A.calls(fi.node) if A.callee_name(repo, fi.module, c).endswith("shampoo_utils.multi_dim_split") and len(c.args) > 1})
        sp_, sg_ = split_sizes(mp), split_sizes(mg)
        rep.ob(rule, f"split-size:{ci.name}", sp_ == sg_ and len(sp_) == 1, mg.loc(), f"multi_dim_split size for parameters {sp_} and gradients {sg_} must be the same expression")


def block_keys(ctx, rep, rule: str) -> None:
    repo = ctx.repo
    for cq in (FSDP, HSDP, FULLY, HYB):
        ci = repo.cls(cq)
        fi = ci.methods.get("_construct_composable_block_ids")
        ok = False
        if fi is not None:
            rets = [n for n in A.walk_no_nested(fi.node) if isinstance(n, ast.Return)]
            ok = len(rets) == 1 and isinstance(rets[0].value, ast.Tuple) and len(rets[0].value.elts) == 2 and isinstance(rets[0].value.elts[1], ast.JoinedStr) and {"rank", "block_index"} <= {n.id for n in ast.walk(rets[0].value.elts[1]) if isinstance(n, ast.Name)} and isinstance(rets[0].value.elts[0], ast.Name) and rets[0].value.elts[0].id == "param_index"
        rep.ob(rule, f"block-key:{ci.name}:includes-rank", ok, fi.loc() if fi else ci.module.relpath, "the block key is (param_index, f\"...{rank}...{block_index}...\") so that states of different shards do not collide in a gathered checkpoint", sample=True)
        # every caller passes a rank
        n = 0
        for meth in ci.methods.values():
            for c in A.calls(meth.node, nested=True):
                if isinstance(c.func, ast.Attribute) and c.func.attr == "_construct_composable_block_ids":
                    n += 1
                    r = A.keyword(c, "rank")
                    ok = r is not None and not (isinstance(r, ast.Constant) and r.value is None)
                    src = None
                    if isinstance(r, ast.Name):
                        defs = A.assignments_to(meth.node, r.id)
                        src = _norm(defs[0]) if defs else None
                        ok = ok and src is not None and ("get_rank" in src or "get_local_rank" in src)
                    rep.ob(rule, f"block-key:{ci.name}.{meth.name}:passes-rank", ok, meth.loc(c), f"caller passes rank=`{_norm(r)}`" + (f" = {src}" if src else ""))
        rep.floor(rule, f"{ci.name} callers of _construct_composable_block_ids", n, 1)


def metadata_extraction(ctx, rep, rule: str) -> None:
    """compile_fsdp_parameter_metadata: every metadata field is taken from the flat-parameter table of the same name, in one
    strict zip; start = FSDP's inclusive intra-param start (0 for an empty shard), end = inclusive end + 1 (exclusive; 0 if empty)."""
    from types import SimpleNamespace

    from ..guards import Interp, Unsupported

    repo = ctx.repo
    fi = repo.func("distributed_shampoo.utils.shampoo_fsdp_utils:compile_fsdp_parameter_metadata")
    ctor = [c for c in A.calls(fi.node, nested=True) if isinstance(c.func, ast.Name) and c.func.id == "FSDPParameterMetadata"]
    if len(ctor) != 1:
        raise AnalysisError(f"{rule}: expected one FSDPParameterMetadata(...) construction, found {len(ctor)}")
    c = ctor[0]
    comp = next((n for n in ast.walk(fi.node) if isinstance(n, ast.DictComp) and any(x is c for x in ast.walk(n))), None)
    ok = comp is not None and len(comp.generators) == 1
    detail = "metadata built in one dict comprehension"
    if ok:
        g = comp.generators[0]
        z = g.iter
        strict = isinstance(z, ast.Call) and isinstance(z.func, ast.Name) and z.func.id == "zip" and isinstance(A.keyword(z, "strict"), ast.Constant) and A.keyword(z, "strict").value is True
        tgt = [t.id for t in g.target.elts] if isinstance(g.target, ast.Tuple) else []
        srcs = []
        for a in (z.args if strict else []):
            d = A.assignments_to(fi.node, a.id) if isinstance(a, ast.Name) else []
            srcs.append(_norm(d[0]).split(".")[-1] if len(d) == 1 else _norm(a))
        want_src = {"param": "_params", "fqn": "_fqns", "shape": "_shapes", "numel": "_numels"}
        pairing = dict(zip(tgt, srcs))
        table_ok = all(pairing.get(k) == v for k, v in want_src.items()) and any(v == "_shard_param_infos" for v in pairing.values()) and _norm(comp.key) == "param"
        info = next((k for k, v in pairing.items() if v == "_shard_param_infos"), None)
        fields_ok = all(_norm(A.keyword(c, k)) == k for k in ("fqn", "shape", "numel")) and _norm(A.keyword(c, "sharding_strategy")) == "sharding_strategy"
        bad = []
        if info:
            for st, en in [(None, None), (0, 0), (0, 4), (3, 9), (5, 5)]:
                env = {info: SimpleNamespace(intra_param_start_idx=st, intra_param_end_idx=en)}
                try:
                    gs, ge = Interp(env).ev(A.keyword(c, "start_idx")), Interp(env).ev(A.keyword(c, "end_idx"))
                except Unsupported as u:
                    raise AnalysisError(f"{rule}: start/end expressions outside the sub-language: {u}") from u
                ws, we = (st or 0), (en + 1 if en is not None else 0)
                if (gs, ge) != (ws, we):
                    bad.append((st, en, gs, ge))
        ok = strict and table_ok and fields_ok and info is not None and not bad
        detail = f"strict zip: {strict}; each loop variable comes from the flat-parameter table of the same name {pairing}: {table_ok}; fields passed under their own names: {fields_ok}; start = inclusive start or 0, end = inclusive end + 1 (exclusive) or 0 for an empty shard" + (f" — disagreement for (start, end)={bad[0][:2]}: got {bad[0][2:]}" if bad else "")
    rep.ob(rule, "fsdp-metadata-extraction", ok, fi.loc(c), detail, sample=True)


def metadata_is_a_record(ctx, rep, rule: str) -> None:
    """The recovery reads `shape`, `start_idx`, `end_idx` of FSDPParameterMetadata as the user's description of the original
    tensor: the record class hands back what it was given — no method of the class (a `__post_init__`, a property setter, a
    `__setattr__`) stores into its declared fields, and no declared field is shadowed by a property."""
    repo = ctx.repo
    ci = repo.cls("distributed_shampoo.shampoo_types:FSDPParameterMetadata")
    names = {f[0] for f in ci.fields}
    rep.floor(rule, "declared fields of FSDPParameterMetadata", len(names & {"shape", "start_idx", "end_idx"}), 3)
    bad = []
    for mname, fi in ci.methods.items():
        if mname in names or mname == "__setattr__" or mname == "__getattribute__":
            bad.append(f"{mname} (shadows / intercepts a field)")
        for n in ast.walk(fi.node):
            tg = n.targets if isinstance(n, ast.Assign) else ([n.target] if isinstance(n, (ast.AugAssign, ast.AnnAssign)) else [])
            for t in tg:
                for x in ast.walk(t):
                    if isinstance(x, ast.Attribute) and isinstance(x.value, ast.Name) and x.value.id == "self" and x.attr in names:
                        bad.append(f"{mname} stores self.{x.attr}")
            if isinstance(n, ast.Call) and ((isinstance(n.func, ast.Name) and n.func.id == "setattr") or (isinstance(n.func, ast.Attribute) and n.func.attr == "__setattr__")):
                bad.append(f"{mname} calls setattr")
    rep.ob(rule, "metadata-is-a-record", not bad, f"{ci.module.relpath}:{ci.node.lineno}", "FSDPParameterMetadata returns the shape / start / end it was constructed with (the split recovery interprets them as the original tensor's)" + (f": {bad[:3]}" if bad else ""), sample=True)


def run(ctx, rep) -> None:
    rep.rule("C07.5", "compile_fsdp_parameter_metadata pairs every field with its flat-parameter table and converts FSDP's inclusive end index to the exclusive one the recovery expects")
    rep.attempt("metadata_extraction", metadata_extraction, ctx, rep, "C07.5")
    rep.rule("C07.1", "gradients are recovered with the same parameter's metadata and blocked with the stored merged dims / counts")
    rep.rule("C07.2", "FSDP and HSDP copies of recovery/blocking agree; recovery yields views with the documented guards")
    rep.rule("C07.3", "HSDP distribution: collective uniformity, buffer protocol, index spaces, re-masking, agreement with the DDP / HybridShard copies")
    rep.rule("C07.4", "block keys carry the shard rank and every caller passes one")
    for sub, text in (("1", "recovered blocks are views of the shard"), ("2", "recovery guards"), ("4", "recursion of the recovery is well-founded and three-way")):
        rep.rule(f"C07.2.{sub}", text + " (same rule as C15." + sub + ")")
    rep.attempt("recovery_agreement", recovery_agreement, ctx, rep, "C07.1", [FSDP, HSDP])
    rep.attempt("metadata_is_a_record", metadata_is_a_record, ctx, rep, "C07.1")
    from .c05 import merged_dims_of_the_viewed_tensor

    rep.attempt("merged_dims_of_the_viewed_tensor", merged_dims_of_the_viewed_tensor, ctx, rep, "C07.1")
    # the FSDP / HSDP copies of the blocking and recovery code are each decided directly (merged dims of the viewed tensor, same
    # recipe for parameters and gradients, selector rules, view rules, recovery semantics by interpretation); of the text
    # comparison only the small id helper and the two step-path methods remain
    rep.attempt("sibling_pairs", sibling_pairs, ctx, rep, "C07.2", [(FSDP, HSDP, "_construct_composable_block_ids"), (DIST, FSDP, "update_params"), (DIST, FSDP, "merge_and_block_gradients")])
    from .c15 import recovery_semantics

    rep.attempt("recovery_semantics", recovery_semantics, ctx, rep, "C07.2", [FSDP, HSDP])
    rep.attempt("recovery_rules", recovery_rules, ctx, rep, "C07.2", [FSDP, HSDP])
    from .c15 import slab_arithmetic

    rep.rule("C07.2.5", "integer arithmetic of one split of the recovery (same rule as C15.5)")
    rep.attempt("slab_arithmetic", slab_arithmetic, ctx, rep, "C07.2.5", [FSDP, HSDP])
    from .c04 import _change_guards

    rep.attempt("_change_guards", _change_guards, ctx, rep, "C07.3")
    from .c04 import global_selector_is_ownership_independent, selector_construction

    rep.attempt("selector_construction", selector_construction, ctx, rep, "C07.3")
    from .common import working_lists_hold_local_tensors

    rep.attempt("working_lists_hold_local_tensors", working_lists_hold_local_tensors, ctx, rep, "C07.3")
    rep.attempt("global_selector_is_ownership_independent", global_selector_is_ownership_independent, ctx, rep, "C07.3")
    from .c03 import _Proxy
    from .c17 import _dispatch_tables

    rep.attempt("distributor_dispatch", _dispatch_tables, ctx, _Proxy(rep, "C17.4", "C07.3"), only=("_instantiate_distributor",))
    rep.attempt("collective_uniformity", collective_uniformity, ctx, rep, "C07.3", {"HSDPDistributor"})
    rep.attempt("buffer_protocol", buffer_protocol, ctx, rep, "C07.3", HSDP)
    from .common import utility_semantics

    rep.rule("C07.7", "the pure utilities this property is built on compute what they document (concrete interpretation on small cases)")
    rep.attempt("utility_semantics", utility_semantics, ctx, rep, "C07.7", ("get_dtype_size", "compress_list", "generate_pairwise_indices"))
    from .common import cached_functions_are_functions_of_their_key, late_binding_closures

    rep.attempt("cached_functions", cached_functions_are_functions_of_their_key, ctx, rep, "C07.7")
    rep.attempt("late_binding_closures", late_binding_closures, ctx, rep, "C07.7")
    rep.rule("C07.6", "communication dtype table, allocation forwarding and mesh-dimension roles of the HSDP distributor")
    rep.attempt("comm_dtype_table", comm_dtype_table, ctx, rep, "C07.6", HSDP)
    rep.attempt("allocation_forwards_request", allocation_forwards_request, ctx, rep, "C07.6", HSDP)
    rep.attempt("mesh_dimension_roles", mesh_dimension_roles, ctx, rep, "C07.6", HSDP, "_hsdp_device_mesh")
    from .c14 import assignment_determinism, buffer_views, ownership

    rep.attempt("ownership", ownership, ctx, rep, "C07.3", [HSDP])
    rep.attempt("assignment_determinism", assignment_determinism, ctx, rep, "C07.3", [HSDP])
    rep.attempt("buffer_views", buffer_views, ctx, rep, "C07.3", [HSDP])
    rep.attempt("typing_sites", typing_sites, ctx, rep, "C07.3", {"distributed_shampoo.utils.shampoo_hsdp_distributor", "distributed_shampoo.utils.shampoo_fsdp_distributor"}, {"distributed_shampoo.utils.shampoo_hsdp_distributor": 8, "distributed_shampoo.utils.shampoo_fsdp_distributor": 2})
    rep.attempt("_dist_remask", _dist_remask, ctx, rep, "C07.3", HSDP)
    from .c04 import stateful_cursors_advance

    rep.attempt("stateful_cursors_advance", stateful_cursors_advance, ctx, rep, "C07.3")
    rep.attempt("_dist_remask", _dist_remask, ctx, rep, "C07.3", FSDP, 2)
    rep.attempt("sibling_pairs", sibling_pairs, ctx, rep, "C07.3", [p for p in dist_pairs() if HSDP in p[:2]])
    from .c14 import buffer_layout_semantics, split_semantics

    rep.attempt("split_semantics", split_semantics, ctx, rep, "C07.3", [HSDP])
    rep.attempt("buffer_layout_semantics", buffer_layout_semantics, ctx, rep, "C07.3", [HSDP])
    rep.attempt("block_keys", block_keys, ctx, rep, "C07.4")
    rep.assume("maximality/validity of recovered blocks (C15), exactly-once element coverage across ranks, numerical equality with the serial optimizer and the index conversion in compile_fsdp_parameter_metadata are NOT decided")
