"""C12 — eigenvector routines return orthonormal, ordered, diagonalising bases (structural part only).

Orthonormality, ascending order and diagonalisation are contracts of torch.linalg.eigh / torch.linalg.qr (trusted base);
what the repository adds around them is decidable in the shape of the code, and each clause is a necessary condition:

C12.1 the eigendecomposition method returns eigh's eigenvector output for the matrix it was given (optionally moved to
      the offload device and back), retrying in double precision only under the flag;
C12.2 fast paths: a 1-element input yields one, a diagonal-flagged input yields the identity (and the flag is exact);
C12.3 dispatch: eigh config -> eigendecomposition, QR config -> orthogonal iterations with the estimate / tolerance /
      iteration cap forwarded, unknown configs raise;
C12.4 QR method: zero estimate falls back to the eigendecomposition; one iteration is Q <- qr(A @ Q).Q with the
      relative-change stopping rule; columns are returned in ascending Rayleigh-quotient order.
"""

from __future__ import annotations

import ast

from .. import astutil as A
from ..loader import AnalysisError
from .arith import qr_iteration_arithmetic
from .c03 import eigenvector_dispatch, exact_diagonal_flag
from .c06 import _norm
from .c11 import retry_rule, shape_guards


def decomposition_structure(ctx, rep, rule: str) -> None:
    repo = ctx.repo
    fi = repo.func("matrix_functions:matrix_eigenvalue_decomposition")
    m = fi.module
    eigh = [c for c in A.calls(fi.node, nested=True) if A.callee_name(repo, m, c) == "torch.linalg.eigh"]
    args = sorted(A.tnorm(c.args[0]) for c in eigh if c.args)  # tensor-normal text: A.double() is A.to(dtype=torch.float64)
    ok = args == ["A", "A.to(dtype=torch.float64)"] and all(len(c.args) == 1 and not c.keywords for c in eigh)
    rep.ob(rule, "eigh-of-the-given-matrix", ok, fi.loc(), f"torch.linalg.eigh is applied to {args}: the matrix itself (and its double-precision copy on retry), nothing else", sample=True)
    # both outputs are bound together from the same call and returned in (eigenvalues, eigenvectors) order
    binds = [n for n in ast.walk(fi.node) if isinstance(n, ast.Assign) and isinstance(n.value, ast.Call) and n.value in eigh]
    same = all(isinstance(b.targets[0], ast.Tuple) and [x.id for x in b.targets[0].elts if isinstance(x, ast.Name)] == ["L", "Q"] for b in binds) and len(binds) == len(eigh)
    rets = [n for n in A.walk_no_nested(fi.node) if isinstance(n, ast.Return)]
    ret_ok = len(rets) == 1 and isinstance(rets[0].value, ast.Tuple) and [_norm(x) for x in rets[0].value.elts] == ["L.to(device=current_device)", "Q.to(device=current_device)"]
    rep.ob(rule, "returns-(eigenvalues,eigenvectors)-on-the-input-device", same and ret_ok, fi.loc(rets[0]) if rets else fi.loc(), "`L, Q = eigh(...)` and `return L.to(device=current_device), Q.to(device=current_device)`: ascending eigenvalues first, eigenvectors second, back on the caller's device")
    # offload only when requested, remembered device taken before the move
    cur = [n for n in A.walk_no_nested(fi.node) if isinstance(n, ast.Assign) and _norm(n.targets[0]) == "current_device"]
    off = [n for n in A.walk_no_nested(fi.node) if isinstance(n, ast.If) and "eigen_decomp_offload_device" in _norm(n.test)]
    ok = len(cur) == 1 and _norm(cur[0].value) == "A.device" and len(off) == 1 and cur[0].lineno < off[0].lineno and _norm(off[0].test) in ("eigen_decomp_offload_device != ''", 'eigen_decomp_offload_device != ""') and any(_norm(s) == "A = A.to(device=eigen_decomp_offload_device)" for s in off[0].body)
    rep.ob(rule, "offload-only-when-requested", ok, fi.loc(off[0]) if off else fi.loc(), "the matrix is moved to the offload device only for a non-empty device string; the caller's device is remembered first")


def result_in_working_precision(ctx, rep, rule: str) -> None:
    """Every dtype conversion inside the eigenvector routines converts TO the dtype of the matrix being decomposed (or to the
    double-precision retry dtype): the estimate is lifted to A's precision on entry and the orthonormal basis is handed back in
    that precision — narrowing it to the estimate's (storage) dtype inside the routine destroys orthonormality to storage
    precision, the caller copies into its own storage anyway."""
    repo = ctx.repo
    m = repo.modules["matrix_functions"]
    n = 0
    for name in ("matrix_eigenvectors", "_compute_orthogonal_iterations", "_compute_eigenvectors", "_matrix_eigenvectors_qr", "_matrix_eigenvectors_eigh"):
        fi = m.functions.get(name)
        if fi is None:
            continue
        mats = {a for a in fi.params if a == "A"} or set(fi.params[:1])
        for c in A.calls(fi.node, nested=True):
            if not (isinstance(c.func, ast.Attribute) and c.func.attr in ("to", "type", "type_as", "half", "float", "double", "bfloat16")):
                continue
            if c.func.attr == "to" and A.keyword(c, "dtype") is None and not any(_norm(a).endswith(".dtype") or "torch.float" in _norm(a) for a in c.args):
                continue  # a device move
            n += 1
            d = A.keyword(c, "dtype") if c.func.attr == "to" and A.keyword(c, "dtype") is not None else (c.args[0] if c.args else None)
            txt = _norm(d) if d is not None else c.func.attr
            ok = any(txt == f"{a}.dtype" for a in mats) or txt in ("torch.float64", "torch.double", "double")
            rep.ob(rule, f"conversion-targets-the-working-precision:{name}", ok, fi.loc(c), f"`{_norm(c)[:90]}` converts to `{txt}`; inside the eigenvector routines the only conversions are to the matrix's dtype ({', '.join(sorted(mats))}.dtype) or the double-precision retry", sample=True)
    rep.floor(rule, "dtype conversions inside the eigenvector routines", n, 1)


def ordering_is_unconditional(ctx, rep, rule: str) -> None:
    """The columns of the QR result are ALWAYS put in ascending Rayleigh-quotient order: the permutation by `argsort` of the
    estimated eigenvalues is a top-level statement of the routine after the iteration, on every path to the return — not under
    a tolerance test or any other condition."""
    repo = ctx.repo
    fi = repo.func("matrix_functions:_compute_orthogonal_iterations")
    has_sort = lambda n: any(isinstance(c.func, ast.Attribute) and c.func.attr in ("argsort", "sort") for c in A.calls(n, nested=True))
    sorts = [n for n in ast.walk(fi.node) if isinstance(n, (ast.Assign, ast.AnnAssign, ast.Return, ast.Expr, ast.AugAssign)) and has_sort(n)]
    top = [n for n in fi.node.body if any(n is s for s in sorts)]
    loops = [i for i, n in enumerate(fi.node.body) if isinstance(n, (ast.While, ast.For))]
    rets = [i for i, n in enumerate(fi.node.body) if isinstance(n, ast.Return)]
    ok = len(sorts) >= 1 and len(top) == len(sorts) and bool(loops) and bool(rets) and all(loops[-1] < fi.node.body.index(t_) <= rets[-1] for t_ in top)
    if ok:
        # what is returned is the permuted matrix: the final return's value, with top-level single-assignment names expanded,
        # is a subscript whose index comes from the argsort
        ret = fi.node.body[rets[-1]].value
        for _ in range(3):
            if isinstance(ret, ast.Name):
                ds = [s_.value for s_ in fi.node.body if isinstance(s_, ast.Assign) and any(isinstance(t, ast.Name) and t.id == ret.id for t in s_.targets)]
                if ds:
                    ret = ds[-1]
                    continue
            break
        order_names = {t.id for s_ in sorts if isinstance(s_, ast.Assign) for t in s_.targets if isinstance(t, ast.Name)}
        ok = isinstance(ret, ast.Subscript) and (has_sort(ret.slice) or any(isinstance(x, ast.Name) and x.id in order_names for x in ast.walk(ret.slice)))
    rep.ob(rule, "ordering-is-unconditional", ok, fi.loc(sorts[0]) if sorts else fi.loc(), f"{len(sorts)} argsort permutation(s), {len(top)} at the top level of the routine between the iteration and the final return: the ascending order holds for every input (no tolerance gate)", sample=True)


def defaults_agree_with_configs(ctx, rep, rule: str) -> None:
    """Duplicated defaults: a parameter of a matrix routine that has the name of a config-dataclass field (the dispatchers forward
    the config's fields as keyword arguments) must have that field's default — a caller that relies on the signature default
    (the zero-estimate fallback of the QR method calls matrix_eigenvalue_decomposition(A)) then behaves like the default config.
    Only defaults that some call site inside the repository relies on (omits the argument) are compared."""
    repo = ctx.repo
    m = repo.modules["matrix_functions"]
    tm = repo.modules.get("matrix_functions_types")
    if tm is None:
        raise AnalysisError(f"{rule}: matrix_functions_types not found")
    # who declares a field (own fields only: subclasses inherit the declaration and its default)
    owners: dict[str, list[tuple[str, ast.expr]]] = {}
    for c in tm.classes.values():
        for name, _ann, default in c.fields:
            if default is not None and isinstance(default, (ast.Constant, ast.UnaryOp)):
                owners.setdefault(name, []).append((c.name, default))
    # which routine serves which config class: the arms of the two dispatchers (`type(cfg) is C` -> call of f)
    serves: dict[str, set[str]] = {}
    for disp in ("matrix_inverse_root", "matrix_eigenvectors"):
        fi = m.functions.get(disp)
        if fi is None:
            continue
        for node in ast.walk(fi.node):
            if isinstance(node, ast.If):
                cls_names = {x.id for x in ast.walk(node.test) if isinstance(x, ast.Name) and x.id in tm.classes}
                for st in node.body:
                    for c in A.calls(st, nested=True):
                        callee = A.callee_name(repo, m, c)
                        if callee.startswith("matrix_functions.") and callee.split(".")[-1] in m.functions:
                            serves.setdefault(callee.split(".")[-1], set()).update(cls_names)
    n = 0
    for fi in m.functions.values():
        a = fi.node.args
        pos = a.posonlyargs + a.args
        for arg, d in list(zip(pos[len(pos) - len(a.defaults):], a.defaults)) + [(k, d) for k, d in zip(a.kwonlyargs, a.kw_defaults) if d is not None]:
            decl = owners.get(arg.arg, [])
            # only a default somebody relies on matters: a call site inside the repository that omits this argument
            pnames = [x.arg for x in pos]
            idx = pnames.index(arg.arg) if arg.arg in pnames else None
            sites = [c for g in repo.funcs.values() for c in A.calls(g.node, nested=True) if A.callee_name(repo, g.module, c) == f"matrix_functions.{fi.name}"]
            relying = [c for c in sites if A.keyword(c, arg.arg) is None and not any(k.arg is None for k in c.keywords) and not (idx is not None and len(c.args) > idx) and not any(isinstance(x, ast.Starred) for x in c.args)]
            if not relying:
                continue
            if len(decl) > 1:  # several configs have a field of this name: the one(s) this routine is dispatched for
                mine = serves.get(fi.name, set())
                decl = [(cn, fd) for cn, fd in decl if cn in mine or any(repo.is_subclass(tm.classes[x], tm.classes[cn]) for x in mine if x in tm.classes)]
            for cname, fd in decl:
                n += 1
                ok = _norm(d) == _norm(fd)
                rep.ob(rule, f"default-agrees-with-config:{fi.name}.{arg.arg}", ok, fi.loc(d), f"`{fi.name}({arg.arg}={_norm(d)})` and `{cname}.{arg.arg} = {_norm(fd)}`: the signature default and the config default are one piece of knowledge", sample=(n % 3 == 0))
    rep.floor(rule, "relied-upon signature defaults that mirror a config field", n, 1)


def run(ctx, rep) -> None:
    rep.rule("C12.1", "eigendecomposition method: eigh of the given matrix, (eigenvalues, eigenvectors) returned on the input device, double-precision retry only under the flag")
    rep.rule("C12.2", "fast paths: 1-element input -> one, diagonal-flagged input -> identity; the diagonal flag is exact; shape rejection first")
    rep.rule("C12.3", "dispatch of matrix_eigenvectors over the eigenvector configs")
    rep.rule("C12.4", "QR method: zero-estimate fallback, one orthogonal iteration, relative-change stopping rule, ascending Rayleigh-quotient column order")
    rep.attempt("decomposition_structure", decomposition_structure, ctx, rep, "C12.1")
    rep.attempt("retry_rule", retry_rule, ctx, rep, "C12.1")
    rep.attempt("exact_diagonal_flag", exact_diagonal_flag, ctx, rep, "C12.2")
    rep.attempt("eigenvector_dispatch", eigenvector_dispatch, ctx, rep, "C12.3")
    rep.attempt("qr_iteration_arithmetic", qr_iteration_arithmetic, ctx, rep, "C12.4")
    rep.attempt("ordering_is_unconditional", ordering_is_unconditional, ctx, rep, "C12.4")
    from .common import tensor_arguments_are_inputs

    rep.rule("C12.5", "the eigenvector routines are functions of their tensor arguments (matrix and estimate are never written in place); the basis is returned in the working precision of the matrix")
    rep.attempt("tensor_arguments_are_inputs", tensor_arguments_are_inputs, ctx, rep, "C12.5")
    rep.attempt("result_in_working_precision", result_in_working_precision, ctx, rep, "C12.5")
    rep.rule("C12.6", "signature defaults of the matrix routines equal the defaults of the config fields they mirror")
    rep.attempt("defaults_agree_with_configs", defaults_agree_with_configs, ctx, rep, "C12.6")
    from .c03 import _Proxy

    rep.attempt("shape_guards", shape_guards, ctx, _Proxy(rep, "C11.1", "C12.2"), "C12.2")
    rep.assume("orthonormality of Q, ascending order of eigenvalues and Q^T A Q diagonal are the contract of torch.linalg.eigh; Q of torch.linalg.qr is orthonormal and spans its argument's columns (torch contracts, trusted base)")
    rep.assume("that an exact eigenbasis is a fixed point up to signs, and all accuracy statements, are numerical and NOT decided")
