"""C08 — fully_shard / hybrid-shard Shampoo on local shards (agreement part).

C08.1 filter agreement: the "non-empty local shard" predicate is the same predicate of the *parameter's* shard at all
      sites (parameter sequence, gradient sequence, block-info construction), so sequences stay aligned when a gradient is absent;
C08.2 an absent DTensor gradient yields None (the `grad is None` test guards `.grad.to_local()`);
C08.3 HybridShard distribution: collective uniformity, buffer protocol, index spaces, re-masking, agreement with DDP/HSDP;
C08.4 FullyShard <-> HybridShard sibling agreement.
"""

from __future__ import annotations

import ast

from .. import astutil as A
from ..loader import AnalysisError
from .c04 import typing_sites
from .c06 import _dist_remask, _norm, allocation_forwards_request, buffer_protocol, collective_uniformity, comm_dtype_table, mesh_dimension_roles
from .sib import FULLY, HSDP, HYB, dist_pairs, sibling_pairs


def _strip_walrus(e: ast.AST) -> ast.AST:
    class T(ast.NodeTransformer):
        def visit_NamedExpr(self, n):
            return self.visit(n.value)

    import copy

    return T().visit(copy.deepcopy(e))


def filter_agreement(ctx, rep, rule: str) -> None:
    repo = ctx.repo
    want = "{v}.to_local().numel() > 0"
    forms = lambda v: {f"{v}.to_local().numel() > 0", f"{v}.to_local().numel() != 0", f"0 < {v}.to_local().numel()", f"{v}.to_local().numel() >= 1"}  # noqa: E731
    sites = 0
    for cq, info_meth in ((FULLY, "_construct_local_block_info_list"), (HYB, "_construct_global_block_info_list")):
        ci = repo.cls(cq)
        gp = ci.methods.get("_get_params_or_grads")
        if gp is None:
            raise AnalysisError(f"{rule}: {ci.name}._get_params_or_grads not found")
        gens = [n for n in ast.walk(gp.node) if isinstance(n, ast.GeneratorExp)]
        ok = len(gens) == 1
        detail = f"{len(gens)} generator(s) in _get_params_or_grads"
        sites += 1
        if ok:
            g = gens[0]
            comp = g.generators[0]
            v = comp.target.id if isinstance(comp.target, ast.Name) else "?"
            tests = [_norm(_strip_walrus(t)) for t in comp.ifs]
            ok = len(g.generators) == 1 and len(tests) == 1 and tests[0] in forms(v) and _norm(comp.iter).endswith("_param_group[PARAMS]")
            detail = f"one filter shared by the parameter and the gradient sequence: `{tests}` over `{_norm(comp.iter)}` (must be `{want.format(v=v)}` of the parameter itself, also when gradients are requested)"
            # C08.2
            elt = g.elt
            ok2 = False
            if isinstance(elt, ast.IfExp) and isinstance(elt.test, ast.Name) and elt.test.id == "get_grad":
                inner = elt.body
                if isinstance(inner, ast.IfExp):
                    t = _norm(inner.test)
                    none_first = t == f"{v}.grad is None" and isinstance(inner.body, ast.Constant) and inner.body.value is None and _norm(inner.orelse) == f"{v}.grad.to_local()"
                    none_second = t == f"{v}.grad is not None" and isinstance(inner.orelse, ast.Constant) and inner.orelse.value is None and _norm(inner.body) == f"{v}.grad.to_local()"
                    ok2 = none_first or none_second
            rep.ob("C08.2", f"absent-grad:{ci.name}", ok2, gp.loc(g), f"gradient element `{_norm(g.elt)[:100]}`: an absent gradient must yield None and `.to_local()` must only be applied to a present gradient", sample=True)
        rep.ob(rule, f"filter:{ci.name}._get_params_or_grads", ok, gp.loc(), detail, sample=True)
        # block-info construction filters the parameters with the same predicate and zips them strictly with the block counts
        bi = ci.methods.get(info_meth)
        if bi is None:
            raise AnalysisError(f"{rule}: {ci.name}.{info_meth} not found")
        filt = [c for c in A.calls(bi.node, nested=True) if isinstance(c.func, ast.Name) and c.func.id == "filter"]
        ok = len(filt) == 1
        detail = f"{len(filt)} filter(...) call(s)"
        sites += 1
        if ok:
            lam = filt[0].args[0]
            ok = isinstance(lam, ast.Lambda) and _norm(lam.body) in forms(lam.args.args[0].arg) and "super()._get_params_or_grads()" in _norm(filt[0].args[1])
            fname = [n.targets[0].id if isinstance(n, ast.Assign) else n.target.id for n in A.walk_no_nested(bi.node) if isinstance(n, (ast.Assign, ast.AnnAssign)) and n.value is filt[0]]
            zips = [c for c in A.calls(bi.node, nested=True) if isinstance(c.func, ast.Name) and c.func.id == "zip" and fname and fname[0] in _norm(c)]
            strict = bool(zips) and all(isinstance(A.keyword(z, "strict"), ast.Constant) and A.keyword(z, "strict").value is True for z in zips)
            counts = bool(zips) and all("_global_num_blocks_per_param" in _norm(z) for z in zips)
            ok = ok and strict and counts
            detail = f"block infos are built from `filter({_norm(lam)}, all params)` zipped strictly ({strict}) with the per-(non-empty)-parameter block counts ({counts})"
        rep.ob(rule, f"filter:{ci.name}.{info_meth}", ok, bi.loc(), detail, sample=True)
    rep.floor(rule, "non-empty-shard filter sites", sites, 4)


def run(ctx, rep) -> None:
    rep.rule("C08.1", "the non-empty-local-shard predicate is the same predicate of the parameter's shard at all four sites; block infos zip strictly with per-parameter block counts")
    rep.rule("C08.2", "an absent DTensor gradient yields None; to_local() is applied only to present gradients")
    rep.rule("C08.3", "HybridShard distribution: collective uniformity, buffer protocol, index spaces, re-masking, agreement with the DDP / HSDP copies")
    rep.rule("C08.4", "FullyShard and HybridShard copies agree")
    rep.attempt("filter_agreement", filter_agreement, ctx, rep, "C08.1")
    rep.attempt("collective_uniformity", collective_uniformity, ctx, rep, "C08.3", {"HybridShardDistributor"})
    rep.attempt("buffer_protocol", buffer_protocol, ctx, rep, "C08.3", HYB)
    from .common import utility_semantics

    rep.rule("C08.6", "the pure utilities this property is built on compute what they document (concrete interpretation on small cases)")
    rep.attempt("utility_semantics", utility_semantics, ctx, rep, "C08.6", ("get_dtype_size", "compress_list", "generate_pairwise_indices"))
    from .common import cached_functions_are_functions_of_their_key, late_binding_closures

    rep.attempt("cached_functions", cached_functions_are_functions_of_their_key, ctx, rep, "C08.6")
    rep.attempt("late_binding_closures", late_binding_closures, ctx, rep, "C08.6")
    rep.rule("C08.5", "communication dtype table, allocation forwarding and mesh-dimension roles of the HybridShard distributor")
    rep.attempt("comm_dtype_table", comm_dtype_table, ctx, rep, "C08.5", HYB)
    rep.attempt("allocation_forwards_request", allocation_forwards_request, ctx, rep, "C08.5", HYB)
    rep.attempt("mesh_dimension_roles", mesh_dimension_roles, ctx, rep, "C08.5", HYB, "_hybrid_shard_device_mesh")
    from .c14 import assignment_determinism, buffer_views, ownership

    rep.attempt("ownership", ownership, ctx, rep, "C08.3", [HYB])
    rep.attempt("assignment_determinism", assignment_determinism, ctx, rep, "C08.3", [HYB])
    rep.attempt("buffer_views", buffer_views, ctx, rep, "C08.3", [HYB])
    rep.attempt("typing_sites", typing_sites, ctx, rep, "C08.3", {"distributed_shampoo.utils.shampoo_hybrid_shard_distributor", "distributed_shampoo.utils.shampoo_fully_shard_distributor", "distributed_shampoo.utils.shampoo_distributor"}, {"distributed_shampoo.utils.shampoo_hybrid_shard_distributor": 8})
    rep.attempt("_dist_remask", _dist_remask, ctx, rep, "C08.3", HYB)
    from .c04 import _change_guards

    rep.attempt("_change_guards", _change_guards, ctx, rep, "C08.3")
    from .c04 import global_selector_is_ownership_independent, selector_construction

    rep.attempt("selector_construction", selector_construction, ctx, rep, "C08.3")
    from .common import working_lists_hold_local_tensors

    rep.attempt("working_lists_hold_local_tensors", working_lists_hold_local_tensors, ctx, rep, "C08.3")
    rep.attempt("global_selector_is_ownership_independent", global_selector_is_ownership_independent, ctx, rep, "C08.3")
    from .c03 import _Proxy
    from .c17 import _dispatch_tables

    rep.attempt("distributor_dispatch", _dispatch_tables, ctx, _Proxy(rep, "C17.4", "C08.3"), only=("_instantiate_distributor",))
    from .c04 import stateful_cursors_advance

    rep.attempt("stateful_cursors_advance", stateful_cursors_advance, ctx, rep, "C08.3")
    rep.attempt("_dist_remask", _dist_remask, ctx, rep, "C08.3", FULLY, 2)
    rep.attempt("sibling_pairs", sibling_pairs, ctx, rep, "C08.3", [p for p in dist_pairs() if HYB in p[:2]])
    from .c14 import buffer_layout_semantics, split_semantics

    rep.attempt("split_semantics", split_semantics, ctx, rep, "C08.3", [HYB])
    rep.attempt("buffer_layout_semantics", buffer_layout_semantics, ctx, rep, "C08.3", [HYB])
    rep.attempt("sibling_pairs", sibling_pairs, ctx, rep, "C08.4", [(FULLY, HYB, "_get_params_or_grads"), (FULLY, HYB, "_construct_composable_block_ids")])
    rep.assume("numerical equality with the serial optimizer is NOT decided")
