"""Sibling-agreement rule (E8) shared by C06/C07/C08/C14/C15."""

from __future__ import annotations

import ast
import copy

from ..loader import AnalysisError
from ..sibling import canonical, first_difference

U = "distributed_shampoo.utils."
DDP = U + "shampoo_ddp_distributor:DDPDistributor"
HSDP = U + "shampoo_hsdp_distributor:HSDPDistributor"
HYB = U + "shampoo_hybrid_shard_distributor:HybridShardDistributor"
FSDP = U + "shampoo_fsdp_distributor:FSDPDistributor"
FULLY = U + "shampoo_fully_shard_distributor:FullyShardDistributor"
DIST = U + "shampoo_distributor:Distributor"

# declared renamings between the copies (one line each, confirmed by reading the three files)
RENAMES = {
    "_group_size": "_dist_group_size",  # DDP names the communication group size _group_size, HSDP/Hybrid _dist_group_size
    "group_rank": "comms_group_rank",  # rank inside the communication group
    "_dist_group": "_comms_dist_group",  # the process group used by all_gather_into_tensor
    "_hsdp_device_mesh": "_mesh",  # the user's 2-D mesh
    "_hybrid_shard_device_mesh": "_mesh",
}
SELF_NAMES = {"DDPDistributor", "HSDPDistributor", "HybridShardDistributor", "FSDPDistributor", "FullyShardDistributor", "Distributor"}

DIST_COPIES = ["update_params", "all_gather_into_tensor", "merge_and_block_gradients"]
# _distribute_buffer_sizes, _split_local_dist_buffers and _construct_distributed_buffers are no longer compared as text: every
# copy is interpreted on concrete cases against the documented assignment / split / byte layout (c14 assignment-semantics,
# split-semantics, buffer-layout), which decides each copy on its own and stays silent when one copy is re-spelled
# _construct_global_block_info_list is NOT a sibling pair: HybridShard iterates its non-empty local shards, HSDP all parameters
# (the owner cut per parameter is checked directly: c14 `owners-cut-by-block-index-range`)


def _tail_from_super_init(fi):
    """Copy of the function whose body starts at the statement calling super().__init__ (constructor tails are siblings)."""
    node = copy.deepcopy(fi.node)
    for i, st in enumerate(node.body):
        for n in ast.walk(st):
            if isinstance(n, ast.Call) and isinstance(n.func, ast.Attribute) and n.func.attr == "__init__" and isinstance(n.func.value, ast.Call) and isinstance(n.func.value.func, ast.Name) and n.func.value.func.id == "super":
                node.body = node.body[i:]
                return node
    raise AnalysisError(f"super().__init__ not found in {fi.qual}")


def _flattened(repo, fi, cls_qual: str, other_qual: str, depth: int = 2):
    """Copy of `fi` in which calls of private helpers of its own class (`self._h(...)`, `Class._h(...)`) are replaced by the
    helper's body (the see-through of sv.canon, applied as a view): two copies then compare equal no matter on which side a
    private helper was extracted or merged back."""
    import dataclasses

    from .. import canon

    ci = repo.cls(cls_qual)
    node = copy.deepcopy(fi.node)
    inl = canon._Inliner({}, set())
    for _ in range(depth):
        changed = False
        parents = canon._parent_map(node)
        for call in [c for c in ast.walk(node) if isinstance(c, ast.Call)]:
            f = call.func
            if not (isinstance(f, ast.Attribute) and isinstance(f.value, ast.Name) and f.attr.startswith("_") and not f.attr.startswith("__")):
                continue
            if f.value.id not in ("self", "cls") and f.value.id not in SELF_NAMES:
                continue
            callee = repo.lookup_method(ci, f.attr)
            if callee is None or callee.is_property or callee.qual == fi.qual:
                continue
            if repo.lookup_method(repo.cls(other_qual), f.attr) is not None:
                continue  # both classes have a method of that name (possibly different overrides): compared as its own pair
            h = canon.Helper(callee.qual, callee.node, ast.ClassDef(name="_", bases=[], keywords=[], body=[], decorator_list=[]), "")
            if not h.inlinable:
                continue
            stmt = call
            while stmt is not None and not isinstance(stmt, ast.stmt):
                stmt = parents.get(id(stmt))
            block = canon._find_block(node, stmt) if stmt is not None else None
            if block is None:
                continue
            receiver = None if h.static else f.value
            try:
                new = inl._expand(h, stmt, call, receiver, node)
            except Exception:
                new = None
            if new is None:
                continue
            i = next(k for k, s_ in enumerate(block) if s_ is stmt)
            block[i : i + 1] = new
            changed = True
            break
        if not changed:
            break
    # the merged-in statements get the same see-through of temporaries the front-end gives a hand-merged body
    known = canon.load_known() or {}
    entry = known.get("functions", {}).get(fi.qual)
    kl = set(entry["locals"]) if entry else None
    for _ in range(4):
        k = canon.propagate_locals(node, kl) + canon.forward_temporaries(node, kl) + canon.loops_to_comprehensions(node, kl)
        if not k:
            break
    ast.fix_missing_locations(node)
    return dataclasses.replace(fi, node=node)


def sibling_pairs(ctx, rep, rule: str, pairs: list[tuple[str, str, str]], tail_init: bool = False) -> None:
    """pairs: (class A, class B, method).  Each pair must be canonically equal."""
    repo = ctx.repo
    n = 0
    import os as _os

    if _os.environ.get("SV_NO_SIBLING"):  # measurement switch only (tools/matrix.py): which seeds are reported by nothing but this proxy
        rep.ob(rule, "sibling:disabled", True, "", "sibling differ disabled by SV_NO_SIBLING (measurement run)", nontrivial=False)
        return
    for a, b, meth in pairs:
        fa = repo.lookup_method(repo.cls(a), meth)  # own or inherited: copies merged into a shared base agree trivially
        fb = repo.lookup_method(repo.cls(b), meth)
        if fa is None and fb is None:
            raise AnalysisError(f"{rule}: sibling method {meth} missing in both {a.split(':')[1]} and {b.split(':')[1]} (sibling table is out of date)")
        if fa is None or fb is None:
            # merged into its caller on one side: the callers are compared with private helpers seen through, which covers it
            n += 1
            rep.ob(rule, f"sibling:{meth}:{a.split(':')[1]}~{b.split(':')[1]}", True, (fa or fb).loc(), f"{meth} exists in only one of the two classes (merged into its caller in the other): compared through the callers", nontrivial=False)
            continue
        if fa is fb or fa.qual == fb.qual:
            n += 1
            rep.ob(rule, f"sibling:{meth}:{a.split(':')[1]}~{b.split(':')[1]}", True, fa.loc(), f"both classes use the one shared definition {fa.qual.split(':')[1]}", nontrivial=False)
            continue
        if meth == "__init__":
            import dataclasses

            fa = dataclasses.replace(fa, node=_tail_from_super_init(fa))
            fb = dataclasses.replace(fb, node=_tail_from_super_init(fb))
        fa, fb = _flattened(repo, fa, a, b), _flattened(repo, fb, b, a)
        d = first_difference(canonical(fa, RENAMES, SELF_NAMES), canonical(fb, RENAMES, SELF_NAMES))
        an, bn = a.split(":")[1], b.split(":")[1]
        n += 1
        rep.ob(
            rule,
            f"sibling:{meth}:{an}~{bn}",
            d is None,
            fa.loc(),
            f"the copies of {meth} in {an} and {bn} must agree (no runnable test covers all copies)"
            + ("" if d is None else f"; first difference — {an}: `{d[0]}`  vs  {bn}: `{d[1]}` (canonical form: locals renamed v0,v1,…; declared renamings applied)"),
            sample=(n % 4 == 0),
        )
    rep.floor(rule, "sibling pairs compared", n, max(1, len(pairs)))


def dist_pairs() -> list[tuple[str, str, str]]:
    out = []
    for m in DIST_COPIES:
        out.append((DDP, HSDP, m))
        out.append((HSDP, HYB, m))
    out.append((HSDP, HYB, "_allocate_zeros_distributed_tensor"))
    # the constructor tails of HSDP / HybridShard are no longer compared as text: a behaviour-preserving loop fission in one of
    # them (selftest/equiv/r3-dist-5) was reported as a difference, and a measurement run without the differ (SV_NO_SIBLING=1)
    # lost no seeded mutation — what the tails do (communication dtype table, mesh layout and dimension roles, uniform
    # collective context, buffer sizes) is decided by direct rules for each class
    return out
