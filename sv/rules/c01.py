"""C01 — every step follows the documented update rule (structural part).

C01.1 state isolation: who-may-write over all in-place write sites (points-to);
C01.2 effect order / dataflow of one group step (dominance in _per_group_step_impl + def-use of the direction list);
C01.3 refresh schedule == `step == start or (step > start and step % freq == 0)` on the post-increment group step;
      `_amortized_computation` runs only under that flag;
C01.4 step counter: incremented exactly once by 1 per non-empty group step, stored in optimizer state per group;
C01.5 per-step hyperparameters are read from the loop's param group and wired to the right formals.
"""

from __future__ import annotations

import ast
import itertools

from .. import astutil as A
from ..cfg import CFG
from ..guards import MISSING, Interp, Unsupported
from ..loader import AnalysisError
from .common import DS, DS_MOD, PL_MOD, loop_var_leak, per_group_fresh, short, who_may_write

ROLES = {
    "L2": f"{DS}._add_l2_regularization",
    "UPD": f"{DS}._update_preconditioners",
    "FILT": f"{DS}._compute_filtered_grad_list",
    "PRE": f"{DS}._precondition_and_grafting",
    "DWD": f"{DS}._apply_decoupled_weight_decay",
    "MOM": f"{DS}._update_momentum",
}
ORDER = [("L2", "UPD"), ("L2", "FILT"), ("UPD", "PRE"), ("FILT", "PRE"), ("PRE", "DWD"), ("DWD", "MOM"), ("MOM", "SCALE"), ("SCALE", "APPLY")]
ORDER_WHY = {
    ("L2", "UPD"): "coupled weight decay is part of the gradient that the preconditioners accumulate",
    ("L2", "FILT"): "coupled weight decay is part of the gradient that is filtered",
    ("UPD", "PRE"): "the step preconditions with the factors/accumulators updated in this step",
    ("FILT", "PRE"): "the filtered gradient is what gets preconditioned",
    ("PRE", "DWD"): "decoupled weight decay is added to the preconditioned/grafted direction",
    ("DWD", "MOM"): "the momentum buffer accumulates the direction including decoupled weight decay",
    ("MOM", "SCALE"): "momentum is applied before the direction is scaled by -lr",
    ("SCALE", "APPLY"): "parameters move by -lr times the final direction",
}


def guard_conditions(cfg: CFG, node) -> list[tuple[ast.AST, bool]]:
    out = []
    for t, lab in cfg.branch_conditions(node):
        if t.kind == "test" and lab in ("T", "F"):
            out.append((t.ast.test, lab == "T"))
    return out


def eval_conds(conds, env, hook=None, resolve=None) -> bool:
    it = Interp(env, resolve_name=resolve, call_hook=hook)
    return all(bool(it.ev(t)) == pol for t, pol in conds)


def schedule_expr_check(ctx, rep, rule: str, fi, var: str, oracle, oracle_text: str, extra_env: dict | None = None) -> None:
    """Evaluate the expression assigned to `var` in step() over a box of (step, start, freq) that covers every
    ordering/divisibility region and compare with the documented predicate."""
    repo = ctx.repo
    m = fi.module
    vals = A.assignments_to(fi.node, var)
    if len(vals) != 1:
        raise AnalysisError(f"{rule}: expected exactly one assignment to {var!r} in {fi.qual}, found {len(vals)}")
    expr = vals[0]
    # the step value must be the post-increment tensor of the group
    step_names = set()
    for n in A.walk_no_nested(fi.node):
        if isinstance(n, ast.Assign) and len(n.targets) == 1 and isinstance(n.targets[0], ast.Name):
            v = n.value
            if isinstance(v, ast.Call) and isinstance(v.func, ast.Attribute) and v.func.attr == "add_":
                nm, key = A.subscript_key(repo, m, v.func.value)
                if key == "step":
                    step_names.add(n.targets[0].id)

    def hook(interp, call):
        f = call.func
        if isinstance(f, ast.Attribute) and f.attr == "item" and isinstance(f.value, ast.Name) and f.value.id in step_names and not call.args:
            return interp.env["__S__"]
        return MISSING

    def resolve(name):
        d = repo.resolve_dotted(m, name)
        ok, v = repo.const_by_dotted(d)
        if ok:
            return v
        raise Unsupported(f"free name {name!r} in schedule expression")

    group_var = _group_loop_var(fi)
    bad = []
    n = 0
    extra = extra_env or {}
    combos = list(itertools.product(*extra.values())) if extra else [()]
    for s, a, f in itertools.product(range(1, 14), range(1, 8), range(1, 5)):
        if a < f:
            continue  # constructor guarantees start >= frequency >= 1
        for combo in combos:
            env = {group_var: {"precondition_frequency": f, "start_preconditioning_step": a, "grafting_config": combo[0] if combo else None}, "__S__": s}
            for k, v in zip(extra.keys(), combo):
                env[k] = v
            # locals the expression may use (e.g. grafting_config_not_none)
            it = Interp(env, resolve_name=resolve, call_hook=hook)
            for nm in A.names_in(expr) - set(env) - step_names:
                defs = A.assignments_to(fi.node, nm)
                if len(defs) == 1:
                    try:
                        it.env[nm] = it.ev(defs[0])
                    except Unsupported:
                        pass
            try:
                got = bool(it.ev(expr))
            except Unsupported as u:
                raise AnalysisError(f"{rule}: expression for {var} is outside the schedule sub-language: {u}") from u
            want = bool(oracle(s, a, f, env))
            n += 1
            if got != want:
                bad.append((s, a, f, combo, got, want))
    rep.ob(
        rule,
        f"schedule:{short(fi.qual)}:{var}",
        not bad,
        fi.loc(expr),
        f"`{var} = {ast.unparse(expr)}` vs documented `{oracle_text}` on {n} (step,start,freq) points covering all ordering/divisibility regions"
        + (f"; first disagreement at step={bad[0][0]}, start={bad[0][1]}, freq={bad[0][2]}{', ' + str(bad[0][3]) if bad[0][3] else ''}: code {bad[0][4]}, documented {bad[0][5]}" if bad else ""),
        sample=True,
    )
    if not step_names:
        rep.ob(rule, f"schedule:{short(fi.qual)}:post-increment-step", False, fi.loc(), "no variable bound to `state_lists[STEP].add_(1)` found: the schedule must use the incremented group step")


def _group_loop_var(fi) -> str:
    """Name of the param-group loop variable of `for state_lists, group in zip(self._per_group_state_lists, self.param_groups)`."""
    for n in A.walk_no_nested(fi.node):
        if isinstance(n, ast.For) and isinstance(n.iter, ast.Call) and isinstance(n.iter.func, ast.Name) and n.iter.func.id == "zip" and isinstance(n.target, ast.Tuple) and len(n.target.elts) == 2:
            srcs = [ast.unparse(a) for a in n.iter.args]
            if len(srcs) == 2 and srcs[1].endswith("param_groups") and isinstance(n.target.elts[1], ast.Name):
                return n.target.elts[1].id
    raise AnalysisError(f"param-group loop not found in {fi.qual}")


def _state_loop_var(fi) -> str:
    for n in A.walk_no_nested(fi.node):
        if isinstance(n, ast.For) and isinstance(n.iter, ast.Call) and isinstance(n.iter.func, ast.Name) and n.iter.func.id == "zip" and isinstance(n.target, ast.Tuple) and len(n.target.elts) == 2:
            srcs = [ast.unparse(a) for a in n.iter.args]
            if len(srcs) == 2 and srcs[0].endswith("_per_group_state_lists") and isinstance(n.target.elts[0], ast.Name):
                return n.target.elts[0].id
    raise AnalysisError(f"state-lists loop not found in {fi.qual}")


def inverse_root_selection(ctx, rep, rule: str) -> None:
    """Which root a block of tensor order k gets: override 0 -> the default rule of the list class (2k for Shampoo, 2 for the
    eigenvalue-corrected list); an integer override n -> n; a sequence l -> l[k] while k < len(l), the default rule beyond.
    The selection routine is interpreted on concrete (override, orders) cases; the two list classes must pass their documented
    default rule."""
    from ..guards import Interp, Raised, Returned, Unsupported

    repo = ctx.repo
    base_q = f"{PL_MOD}:BaseShampooPreconditionerList"
    fi = repo.method(base_q, "_get_inverse_roots_from_override_with_high_order_default")
    params = [p for p in fi.params if p not in ("self", "cls")]
    if len(params) != 3:
        raise AnalysisError(f"{fi.qual}: expected (override, order list, default rule), found {params}")
    body = [s for s in fi.node.body if not (isinstance(s, ast.Expr) and isinstance(s.value, ast.Constant))]
    overrides = [0, 1, 3, [4], [3, 1, 4, 2], [7, 7], (5, 6, 7), []]
    orders = [(0,), (1,), (2,), (0, 1, 2, 3, 4), (2, 2, 1), (), (4, 3)]
    rules_ = {"2k": lambda o: 2 * o, "2": lambda o: 2, "k+10": lambda o: o + 10}
    bad = []
    n = 0
    for ov in overrides:
        for ol in orders:
            for rn, hod in rules_.items():
                env = {params[0]: ov, params[1]: ol, params[2]: hod}
                got = None
                try:
                    Interp(env).run(body, lambda e: ast.unparse(e))
                except Returned as r:
                    got = r.value
                except Raised as r:
                    got = f"raise {r.exc_name}"
                except Unsupported as u:
                    raise AnalysisError(f"{rule}: root selection outside the scalar sub-language: {u}") from u
                if isinstance(ov, (list, tuple)):
                    want = tuple(hod(o) if o >= len(ov) else ov[o] for o in ol)
                else:
                    want = tuple(hod(o) for o in ol) if ov == 0 else (ov,) * len(ol)
                n += 1
                if not (isinstance(got, (list, tuple)) and tuple(got) == want):
                    bad.append((ov, ol, rn, got, want))
    rep.ob(rule, "root-selection:override-semantics", not bad, fi.loc(), f"{n} (override, orders, default rule) cases: 0 -> default rule per order, n -> n, sequence l -> l[order] within its length and the default rule beyond" + (f"; first disagreement: override={bad[0][0]!r}, orders={bad[0][1]}, rule {bad[0][2]}: code gives {bad[0][3]!r}, documented {bad[0][4]!r}" if bad else ""), sample=True)
    # the default rules handed in by the two list classes
    want_rule = {"ShampooPreconditionerList": {0: 0, 1: 2, 2: 4, 3: 6}, "EigenvalueCorrectedShampooPreconditionerList": {0: 2, 1: 2, 2: 2, 3: 2}}
    for cname, table in want_rule.items():
        m_ = repo.method(f"{PL_MOD}:{cname}", "_get_inverse_roots_from_override")
        calls = [c for c in A.calls(m_.node) if isinstance(c.func, ast.Attribute) and c.func.attr == fi.name or isinstance(c.func, ast.Name) and c.func.id == fi.name]
        ok = len(calls) == 1
        detail = f"{len(calls)} call(s) of the selection routine"
        if ok:
            c = calls[0]
            lam = A.arg_of(c, fi, params[2])
            a0, a1 = A.arg_of(c, fi, params[0]), A.arg_of(c, fi, params[1])
            # the override is the list's own (the method's parameter fed from self._inv_root_override by its caller, or that
            # attribute read directly); the orders are the method's order-list parameter
            def src(a):
                if a is None:
                    return set()
                if isinstance(a, ast.Name) and a.id in m_.params:
                    return A.argument_sources(repo, m_, a.id) or {a.id}
                return {A.expanded(m_.node, a)}
            fwd = src(a0) == {"self._inv_root_override"} and src(a1) == {"self._local_order_list"}
            vals = None
            if isinstance(lam, ast.Lambda) and len(lam.args.args) == 1:
                try:
                    vals = {k: Interp({lam.args.args[0].arg: k}).ev(lam.body) for k in table}
                except Unsupported:
                    vals = None
            ok = fwd and vals == table
            detail = f"forwards (override, orders): {fwd}; default rule on orders 0..3: {vals} (documented {table})"
        rep.ob(rule, f"root-selection:default-rule:{cname}", ok, m_.loc(), detail, sample=True)
    # the orders are the orders of the BLOCKS (after merging and splitting), not of the parameters they were cut from
    base = repo.cls(base_q)
    defs = [(f_, n_) for f_ in base.methods.values() for n_ in A.walk_no_nested(f_.node) if isinstance(n_, (ast.Assign, ast.AnnAssign)) and n_.value is not None and any(isinstance(t, ast.Attribute) and t.attr == "_local_order_list" for t in (n_.targets if isinstance(n_, ast.Assign) else [n_.target]))]
    ok = False
    detail = f"{len(defs)} definition(s) of self._local_order_list"
    if len(defs) == 1:
        f_, n_ = defs[0]
        v = n_.value
        while isinstance(v, ast.Call) and isinstance(v.func, ast.Name) and v.func.id in ("tuple", "list") and len(v.args) == 1:
            v = v.args[0]
        if isinstance(v, (ast.GeneratorExp, ast.ListComp)) and len(v.generators) == 1 and isinstance(v.generators[0].target, ast.Name) and not v.generators[0].ifs:
            g = v.generators[0]
            blocks = [p_ for p_ in f_.params if p_ == "block_list"]
            ok = A.tnorm(v.elt) == f"{g.target.id}.ndim" and bool(blocks) and A.expanded(f_.node, g.iter) == blocks[0]
        detail = f"self._local_order_list = `{ast.unparse(n_.value)[:80]}`; documented: the order (number of dimensions) of every block of block_list"
    rep.ob(rule, "root-selection:orders-are-block-orders", ok, defs[0][0].loc(defs[0][1]) if defs else base.module.relpath, detail, sample=True)


def run(ctx, rep) -> None:
    repo = ctx.repo
    pts = ctx.engine("pts")
    rep.rule("C01.1", "who-may-write: every in-place write that may reach a state tensor lies in that state's designated update (or the load path); parameters are written only by update_params")
    rep.rule("C01.2", "one group step: L2 < {update preconditioners, filter} < precondition+graft < decoupled decay < momentum < scale by -lr < apply; one direction list flows through")
    rep.rule("C01.3", "refresh schedule equals `step == start or (step > start and step % freq == 0)` on the incremented group step; the amortized computation runs only under it")
    rep.rule("C01.4", "group step counter incremented exactly once by 1 before the group step; per-group counter (a fresh object per group) stored in optimizer state inside the group loop; every group gets its step")
    rep.rule("C01.5", "per-step hyperparameters come from the loop's param group (scheduler changes take effect next step) and reach the matching formal")
    rep.attempt("who_may_write", who_may_write, ctx, rep, "C01.1")
    from .common import gradients_are_inputs

    rep.attempt("gradients_are_inputs", gradients_are_inputs, ctx, rep, "C01.1")
    from .c09 import bias_correction_every_step

    rep.attempt("bias_correction_every_step", bias_correction_every_step, ctx, rep, "C01.6")
    rep.attempt("_effect_order", _effect_order, ctx, rep)
    step = repo.method(DS, "step")
    rep.attempt("schedule_expr_check", schedule_expr_check, ctx, rep, "C01.3", step, "perform_amortized_computation", lambda s, a, f, env: s == a or (s > a and s % f == 0), "step == start or (step > start and step % freq == 0)")
    rep.attempt("_amortized_guard", _amortized_guard, ctx, rep)
    rep.attempt("_step_counter", _step_counter, ctx, rep)
    rep.attempt("per_group_fresh", per_group_fresh, ctx, rep, "C01.4", [f"{DS}.{n}" for n in ("_instantiate_distributor", "_instantiate_shampoo_preconditioner_list", "_instantiate_grafting", "_instantiate_steps", "_instantiate_momentum", "_instantiate_filtered_grads")])
    from .c04 import every_group_visited

    rep.attempt("every_group_visited", every_group_visited, ctx, rep, "C01.4")
    rep.rule("C01.7", "the diagonal fast path is taken only for exactly diagonal factor matrices (no tolerance in the flag)")
    from .c03 import exact_diagonal_flag

    rep.attempt("exact_diagonal_flag", exact_diagonal_flag, ctx, rep, "C01.7")
    rep.rule("C01.8", "inverse-root selection per tensor order: override 0 -> default rule (2k Shampoo / 2 eigenvalue-corrected), n -> n, sequence -> entry of that order, default rule beyond its length")
    rep.attempt("inverse_root_selection", inverse_root_selection, ctx, rep, "C01.8")
    from .c04 import _change_guards
    from .c05 import blocks_are_views

    rep.rule("C01.9", "the masked lists the step works on are re-derived whenever the set of gradients changes (guard on the selector, never on a count)")
    rep.attempt("_change_guards", _change_guards, ctx, rep, "C01.9")
    rep.rule("C01.10", "the blocks the update is applied to are views of the parameters (no possibly-copying operation between a parameter and its blocks)")
    rep.attempt("blocks_are_views", blocks_are_views, ctx, rep, "C01.10")
    rep.attempt("_wiring", _wiring, ctx, rep)
    from .common import hyperparameters_from_group

    rep.attempt("hyperparameters_from_group", hyperparameters_from_group, ctx, rep, "C01.5")
    rep.attempt("loop_var_leak", loop_var_leak, ctx, rep, "C01.4", [f"{DS}.{n}" for n in ("_instantiate_steps", "_instantiate_momentum", "_instantiate_filtered_grads", "_instantiate_grafting", "_instantiate_shampoo_preconditioner_list", "_instantiate_distributor", "step")])
    from .arith import adagrad_arithmetic, factor_arithmetic, inverse_root_wiring, step_arithmetic

    rep.rule("C01.6", "arithmetic of the recurrences: term-valued abstract interpretation of the group step, the diagonal and Kronecker-factor updates and the inverse-root refresh, compared with the documented formulas as exact rational functions over every flag case")
    rep.attempt("step_arithmetic", step_arithmetic, ctx, rep, "C01.6")
    rep.attempt("adagrad_arithmetic", adagrad_arithmetic, ctx, rep, "C01.6")
    rep.attempt("factor_arithmetic", factor_arithmetic, ctx, rep, "C01.6")
    rep.attempt("inverse_root_wiring", inverse_root_wiring, ctx, rep, "C01.6")
    rep.assume("C01.6 abstracts every per-block list by one representative element (foreach ops and per-block loops are element-wise over aligned lists: C04.1) and treats matrix routines / tensordot / norms as uninterpreted functions; the numerics inside matrix_inverse_root (C10) and the mode-wise contraction of _precondition_grad are NOT decided")


# ------------------------------------------------------------------------------------------------ C01.2
def _effect_order(ctx, rep) -> None:
    repo = ctx.repo
    pts = ctx.engine("pts")
    impl = repo.method(DS, "_per_group_step_impl")
    m = impl.module
    cfg = CFG(impl.node)
    role_calls: dict[str, list[ast.Call]] = {}
    for c in A.calls(impl.node):
        callees = pts.callees(impl.qual, c)
        for role, q in ROLES.items():
            if q in callees:
                role_calls.setdefault(role, []).append(c)
        if any(q.replace(":", ".").endswith(".update_params") for q in callees):
            role_calls.setdefault("APPLY", []).append(c)
    # the direction variable = the single name bound to PRE's result
    # a stage whose private helper no longer exists has been merged into the group step: its place in the order is then decided
    # by the term comparison of the whole group step (C01.6), which interprets the merged code where it stands
    merged = {role for role, q in ROLES.items() if q not in repo.funcs and role not in ("PRE", "FILT")}
    for role in list(ROLES) + ["APPLY"]:
        n = len(role_calls.get(role, []))
        if role in merged and n == 0:
            rep.notes.setdefault("stages merged into _per_group_step_impl (ordered by C01.6)", []).append(role)
            continue
        if n != 1:
            raise AnalysisError(f"C01.2: expected exactly one call in _per_group_step_impl resolving to role {role}, found {n}")
    def bound_name(call):
        st = A.stmt_of(impl.node, call)
        if isinstance(st, ast.Assign) and len(st.targets) == 1 and isinstance(st.targets[0], ast.Name) and st.value is call:
            return st.targets[0].id
        return None
    dirs = bound_name(role_calls["PRE"][0])
    filt = bound_name(role_calls["FILT"][0])
    if dirs is None or filt is None:
        raise AnalysisError("C01.2: results of _precondition_and_grafting / _compute_filtered_grad_list are not bound to plain locals")
    # SCALE: in-place foreach multiply of the direction list
    scale = [c for c in A.calls(impl.node) if (repo.dotted_of(m, c.func) or "") in ("torch._foreach_mul_",) and c.args and isinstance(c.args[0], ast.Name) and c.args[0].id == dirs]
    if len(scale) != 1:
        raise AnalysisError(f"C01.2: expected one in-place scaling of the direction list in _per_group_step_impl, found {len(scale)}")
    role_calls["SCALE"] = scale
    nodes = {r: cfg.node_of(cs[0]) for r, cs in role_calls.items()}
    for a, b in ORDER:
        if a not in nodes or b not in nodes:
            continue
        ok = nodes[a] is not None and nodes[b] is not None and nodes[a] is not nodes[b] and cfg.dominates(nodes[a], nodes[b])
        rep.ob("C01.2", f"order:{a}<{b}", ok, impl.loc(role_calls[b][0]), f"{a} must precede {b} on every path: {ORDER_WHY[(a, b)]}", sample=True)
    # single assignment of the direction / filtered variables
    for nm in (dirs, filt):
        stores = [n for n in A.walk_no_nested(impl.node) if isinstance(n, ast.Name) and n.id == nm and isinstance(n.ctx, ast.Store)]
        rep.ob("C01.2", f"single-def:{nm}", len(stores) == 1, impl.loc(stores[0]), f"`{nm}` is bound once ({len(stores)} binding(s)); every later stage must see the same list")
    # dataflow of formals
    def actual(role, formal):
        call = role_calls[role][0]
        callee = repo.func(ROLES[role]) if role in ROLES else None
        if role == "APPLY":
            return A.keyword(call, formal) or (call.args[0] if call.args else None)
        return A.arg_of(call, callee, formal)
    flows = [("PRE", "masked_filtered_grad_list", filt), ("DWD", "masked_blocked_search_directions", dirs), ("MOM", "masked_blocked_search_directions", dirs), ("APPLY", "masked_blocked_search_directions", dirs)]
    for role, formal, want in flows:
        if role not in role_calls:
            continue
        a = actual(role, formal)
        ok = isinstance(a, ast.Name) and a.id == want
        rep.ob("C01.2", f"flow:{role}.{formal}", ok, impl.loc(role_calls[role][0]), f"{role} must receive `{want}` as `{formal}`; it receives `{ast.unparse(a) if a is not None else '<missing>'}`", sample=True)
    # sign/scale of the step: -lr
    lr_formal = "lr"
    factor = scale[0].args[1] if len(scale[0].args) > 1 else None
    if isinstance(factor, ast.UnaryOp) and isinstance(factor.op, ast.USub) and isinstance(factor.operand, ast.Name) and factor.operand.id == lr_formal:
        rep.ob("C01.2", "scale:-lr", True, impl.loc(scale[0]), "direction is scaled in place by -lr", sample=True)
    elif isinstance(factor, ast.Name) and factor.id == lr_formal:
        rep.ob("C01.2", "scale:-lr", False, impl.loc(scale[0]), "direction is scaled by +lr: parameters would move along the gradient direction")
    else:
        # any other spelling (`lr.neg()`, `torch.neg(lr)`, `-1 * lr`, `lr * -1.0`, `lr.mul(-1)`, `0 - lr`): evaluate it at two values of lr
        from ..guards import _MISSING, Interp, Raised, Unsupported

        class Num(float):
            neg = negative = lambda self: Num(-float(self))
            mul = multiply = lambda self, o: Num(float(self) * float(o))
            sub = lambda self, o: Num(float(self) - float(o))
            add = lambda self, o: Num(float(self) + float(o))
            div = lambda self, o: Num(float(self) / float(o))
            __neg__ = lambda self: Num(-float(self))
            __mul__ = __rmul__ = lambda self, o: Num(float(self) * float(o))
            __sub__ = lambda self, o: Num(float(self) - float(o))
            __rsub__ = lambda self, o: Num(float(o) - float(self))

        def hook(it, c):
            f = c.func
            if isinstance(f, ast.Attribute):
                d = repo.dotted_of(impl.module, f)
                if d in ("torch.neg", "torch.negative") and len(c.args) == 1:
                    return Num(-float(it.ev(c.args[0])))
                if d in ("torch.mul", "torch.multiply") and len(c.args) == 2:
                    return Num(float(it.ev(c.args[0])) * float(it.ev(c.args[1])))
                if f.attr in ("neg", "negative", "mul", "multiply", "sub", "add", "div"):
                    b = it.ev(f.value)
                    if isinstance(b, Num):
                        return getattr(b, f.attr)(*[it.ev(a) for a in c.args])
            return _MISSING

        got = []
        try:
            for v in (0.25, 3.0):
                got.append(float(Interp({lr_formal: Num(v)}, call_hook=hook).ev(ast.parse(A.expanded(impl.node, factor), mode="eval").body)))
        except (Unsupported, Raised, TypeError, ValueError) as ex:
            raise AnalysisError(f"C01.2: unrecognised scaling factor `{ast.unparse(factor) if factor is not None else None}` for the direction list ({ex})") from ex
        ok = got == [-0.25, -3.0]
        rep.ob("C01.2", "scale:-lr", ok, impl.loc(scale[0]), f"direction is scaled in place by `{ast.unparse(factor)}` = {got} at lr = [0.25, 3.0]; documented: -lr", sample=True)
    # complementary guards of coupled / decoupled weight decay, and state-creation guards
    rep.attempt("_guard_tables", _guard_tables, ctx, rep)
    rep.floor("C01.2", "_per_group_step_impl roles", len(role_calls) + len(merged), 8)


def _first_write_guard(ctx, fq: str, pred) -> tuple[list, ast.AST] | None:
    pts = ctx.engine("pts")
    fi = ctx.repo.func(fq)
    cfg = CFG(fi.node)
    for w in pts.writes:
        if w.func == fq and pred(w):
            node = cfg.node_of(w.node)
            if node is not None:
                return guard_conditions(cfg, node), w.node
    return None


def _guard_tables(ctx, rep) -> None:
    pts = ctx.engine("pts")
    kinds = pts.state_kinds()
    from ..pointsto import GRAD, PARAM

    def writes_kind(k):
        return lambda w: any(k in kinds.get(t, ()) for t in w.dst)

    if ROLES["L2"] not in ctx.repo.funcs or ROLES["DWD"] not in ctx.repo.funcs:
        rep.notes["weight-decay guards"] = "helpers merged into the group step: decided by the term comparison C01.6 (weight_decay x decoupled cases)"
        l2 = dwd = None
    else:
        l2 = _first_write_guard(ctx, ROLES["L2"], lambda w: GRAD in w.dst)
        dwd = _first_write_guard(ctx, ROLES["DWD"], lambda w: True)
        if l2 is None or dwd is None:
            raise AnalysisError("C01.2: weight-decay write sites not found")
    bad = []
    for wd, dec in (itertools.product([0.0, 0.1], [True, False]) if l2 is not None else []):
        env = {"weight_decay": wd, "use_decoupled_weight_decay": dec}
        try:
            f_l2, f_dwd = eval_conds(l2[0], env), eval_conds(dwd[0], env)
        except Unsupported as u:
            raise AnalysisError(f"C01.2: weight-decay guard outside the sub-language: {u}") from u
        want_l2, want_dwd = (wd != 0 and not dec), (wd != 0 and dec)
        if (f_l2, f_dwd) != (want_l2, want_dwd):
            bad.append((wd, dec, f_l2, f_dwd))
    if l2 is not None:
      rep.ob("C01.2", "guards:weight-decay-mode", not bad, ctx.repo.func(ROLES["L2"]).loc(l2[1]), "coupled decay fires iff weight_decay != 0 and not decoupled; decoupled decay iff weight_decay != 0 and decoupled" + (f"; disagreement at (weight_decay, decoupled)={bad[0][:2]}: coupled={bad[0][2]}, decoupled={bad[0][3]}" if bad else ""), sample=True)
    for role, kind, formal in (("MOM", "momentum", "momentum_param"), ("FILT", "filtered_grad", "beta1")):
        g = _first_write_guard(ctx, ROLES[role], writes_kind(kind))
        if g is None:
            raise AnalysisError(f"C01.2: no write to {kind} found in {ROLES[role]}")
        bad = []
        for v in (0.0, 0.5):
            env = {formal: v, "use_nesterov": False, "use_bias_correction": True, "beta3": 0.3, "dampening": 0.1}
            try:
                fires = eval_conds(g[0], env)
            except Unsupported as u:
                raise AnalysisError(f"C01.2: {role} guard outside the sub-language: {u}") from u
            if fires != (v != 0.0):
                bad.append(v)
        rep.ob("C01.2", f"guards:{kind}-iff-{formal}!=0", not bad, ctx.repo.func(ROLES[role]).loc(g[1]), f"{kind} state is updated iff {formal} != 0 (the state exists exactly then)", sample=True)


# ------------------------------------------------------------------------------------------------ C01.3 (guard of the refresh)
def _amortized_guard(ctx, rep) -> None:
    repo = ctx.repo
    pts = ctx.engine("pts")
    base_up = repo.func(f"{PL_MOD}:BaseShampooPreconditionerList.update_preconditioners")
    cfg = CFG(base_up.node)
    sites = []
    for c in A.calls(base_up.node):
        if any(q.replace(":", ".").endswith("._amortized_computation") for q in pts.callees(base_up.qual, c)):
            sites.append(c)
    rep.floor("C01.3", "update_preconditioners -> _amortized_computation", len(sites), 1)
    for c in sites:
        conds = guard_conditions(cfg, cfg.node_of(c))
        names = set()
        for t, pol in conds:
            names |= A.names_in(t)
        ok = False
        if "perform_amortized_computation" in names:
            try:
                ok = eval_conds(conds, {"perform_amortized_computation": True}) and not eval_conds(conds, {"perform_amortized_computation": False})
            except Unsupported:
                ok = False
        rep.ob("C01.3", "refresh-only-under-flag", ok, base_up.loc(c), "`_amortized_computation()` must be control-dependent on exactly the `perform_amortized_computation` flag", sample=True)
    # every other caller of an _amortized_computation must be one of these sites
    others = [(q, i) for (q, i), cs in pts.calls.items() if any(x.replace(":", ".").endswith("._amortized_computation") for x in cs) and q != base_up.qual]
    rep.ob("C01.3", "refresh-single-call-site", not others, base_up.loc(), f"amortized computation is invoked only from update_preconditioners (other callers: {[short(q) for q, _ in others]})")
    # the flag is forwarded unchanged: step() -> _per_group_step_impl -> _update_preconditioners -> update_preconditioners
    chain = [(f"{DS}._per_group_step_impl", ROLES["UPD"]), (ROLES["UPD"], "update_preconditioners")]
    for caller_q, callee_suffix in chain:
        caller = repo.func(caller_q)
        found = 0
        for c in A.calls(caller.node):
            cal = pts.callees(caller.qual, c)
            targets = [q for q in cal if q == callee_suffix or q.endswith("." + callee_suffix)]
            shampoo_targets = [q for q in targets if "SGD" not in q and "Adagrad" not in q]
            if not shampoo_targets:
                continue
            fi = repo.func(shampoo_targets[0])
            a = A.arg_of(c, fi, "perform_amortized_computation")
            if a is None and callee_suffix == "update_preconditioners":
                continue
            found += 1
            ok = isinstance(a, ast.Name) and a.id == "perform_amortized_computation"
            rep.ob("C01.3", f"flag-forwarded:{short(caller_q)}", ok, caller.loc(c), f"the schedule flag must be forwarded unchanged; actual argument is `{ast.unparse(a) if a is not None else '<missing>'}`")
        rep.floor("C01.3", f"flag forwarding in {short(caller_q)}", found, 1)


# ------------------------------------------------------------------------------------------------ C01.4
def _step_counter(ctx, rep) -> None:
    repo = ctx.repo
    pts = ctx.engine("pts")
    kinds = pts.state_kinds()
    step = repo.method(DS, "step")
    cfg = CFG(step.node)
    incs = [w for w in pts.writes if w.func == step.qual and any("step" in kinds.get(t, ()) for t in w.dst)]
    rep.floor("C01.4", "step() increments STEP", len(incs), 1)
    group_calls = [c for c in A.calls(step.node) if any(q.replace(":", ".").endswith("._per_group_step_impl") for q in pts.callees(step.qual, c))]
    rep.floor("C01.4", "step() calls the group step", len(group_calls), 1)
    ok_once = len(incs) == 1
    detail = f"{len(incs)} in-place write(s) to the group step counter in step()"
    if ok_once and group_calls:
        w = incs[0]
        call = w.node
        is_add1 = isinstance(call, ast.Call) and isinstance(call.func, ast.Attribute) and call.func.attr == "add_" and len(call.args) == 1 and isinstance(call.args[0], ast.Constant) and call.args[0].value == 1 and not call.keywords
        n_inc, n_call = cfg.node_of(call), cfg.node_of(group_calls[0])
        loops_inc = A.enclosing_loops(step.node, call)
        loops_call = A.enclosing_loops(step.node, group_calls[0])
        same_loop = [id(x) for x in loops_inc] == [id(x) for x in loops_call] and len(loops_inc) == 1
        dom = n_inc is not None and n_call is not None and cfg.dominates(n_inc, n_call)
        ok_once = is_add1 and dom and same_loop
        detail = f"increment `{ast.unparse(call)}`: by-one={is_add1}, dominates the group-step call={dom}, same (single) group loop={same_loop}"
    rep.ob("C01.4", "step-counter:once-by-one-before-group-step", ok_once, step.loc(incs[0].node) if incs else step.loc(), detail, sample=True)
    # a counted step is a taken step: once the counter is incremented, every normal path (anything but a raise) to the next
    # group / the end of step() runs the group step — a `continue` in between leaves the recurrences one step behind the counter
    if len(incs) == 1 and group_calls:
        n_inc, n_call = cfg.node_of(incs[0].node), cfg.node_of(group_calls[0])
        heads = [n for n in cfg.nodes if n.kind == "loop" and n_inc is not None and any(n.ast is lp for lp in A.enclosing_loops(step.node, incs[0].node))]
        taken = n_inc is not None and n_call is not None and cfg.all_paths_pass(n_inc, heads + [cfg.exit], lambda n: n is n_call)
        rep.ob("C01.4", "step-counter:counted-step-is-taken", bool(taken), step.loc(incs[0].node), "after the counter is incremented every non-raising path to the next group (or the end of step()) runs the group step: no `continue` / early return between the increment and the per-group step", sample=True)
    # the counter lives in optimizer state, registered inside the group loop, per group
    inst = repo.method(DS, "_instantiate_steps")
    sl, grp = _state_loop_var(inst), _group_loop_var(inst)
    creates, registers = [], []
    for n in A.walk_no_nested(inst.node):
        if isinstance(n, ast.Assign) and len(n.targets) == 1 and isinstance(n.targets[0], ast.Subscript):
            t = n.targets[0]
            key = A.const_key(repo, inst.module, t.slice)
            if key == "step":
                if isinstance(t.value, ast.Name) and t.value.id == sl:
                    creates.append(n)
                else:
                    registers.append(n)
    ok = len(creates) == 1 and len(registers) == 1
    detail = f"{len(creates)} creation(s) of state_lists[STEP], {len(registers)} registration(s) under optimizer state"
    if ok:
        lc, lr = A.enclosing_loops(inst.node, creates[0]), A.enclosing_loops(inst.node, registers[0])
        in_loop = len(lc) >= 1 and [id(x) for x in lc] == [id(x) for x in lr]
        same_obj = ast.unparse(registers[0].value) == ast.unparse(creates[0].targets[0])
        # the registration key must be the group's own parameter
        uses_group = grp in A.names_in(registers[0].targets[0])
        ok = in_loop and same_obj and uses_group
        detail += f"; both inside the per-group loop={in_loop}; registered object is the group's counter={same_obj}; keyed by the group's parameter={uses_group}"
        # alias check through points-to: what is stored under state[...][STEP] is what step() increments
        stored = {t for t, ks in kinds.items() if "step" in ks}
        inc_dst = set(incs[0].dst) if incs else set()
        ok = ok and bool(stored & inc_dst)
    rep.ob("C01.4", "step-counter:registered-per-group-in-state", ok, inst.loc(registers[0]) if registers else inst.loc(), detail, sample=True)
    # one state dict per group (no list multiplication)
    init = repo.method(DS, "__init__")
    for n in A.walk_no_nested(init.node):
        if isinstance(n, (ast.Assign, ast.AnnAssign)):
            tgt = n.targets[0] if isinstance(n, ast.Assign) else n.target
            if isinstance(tgt, ast.Attribute) and tgt.attr == "_per_group_state_lists" and n.value is not None:
                v = n.value
                ok = isinstance(v, ast.ListComp) and isinstance(v.elt, (ast.Dict, ast.Call))
                if not ok and isinstance(v, ast.List) and not v.elts:
                    # the attribute itself starts empty and receives one `{}` per iteration of a loop
                    apps = [c for c in A.calls(init.node) if isinstance(c.func, ast.Attribute) and ast.unparse(c.func.value) == ast.unparse(tgt)]
                    ok = len(apps) == 1 and apps[0].func.attr == "append" and len(apps[0].args) == 1 and (isinstance(apps[0].args[0], ast.Dict) or (isinstance(apps[0].args[0], ast.Call) and ast.unparse(apps[0].args[0].func) == "dict")) and bool(A.enclosing_loops(init.node, apps[0]))
                if not ok and isinstance(v, ast.Name):
                    # `xs = []` filled by `xs.append({})` inside a loop, then stored: one fresh dict per iteration as well
                    inits = A.assignments_to(init.node, v.id)
                    apps = [c for c in A.calls(init.node) if isinstance(c.func, ast.Attribute) and isinstance(c.func.value, ast.Name) and c.func.value.id == v.id]
                    ok = len(inits) == 1 and isinstance(inits[0], ast.List) and not inits[0].elts and len(apps) == 1 and apps[0].func.attr == "append" and len(apps[0].args) == 1 and (isinstance(apps[0].args[0], ast.Dict) or (isinstance(apps[0].args[0], ast.Call) and ast.unparse(apps[0].args[0].func) == "dict")) and bool(A.enclosing_loops(init.node, apps[0]))
                rep.ob("C01.4", "per-group-state:fresh-dict-per-group", ok, init.loc(n), f"`{ast.unparse(v)}` must create one dict per group (a list multiplication would share one dict between groups)", sample=True)


# ------------------------------------------------------------------------------------------------ C01.5
WIRING = {
    "lr": {"lr"},
    "beta1": {"betas"},
    "beta3": {"beta3"},
    "weight_decay": {"weight_decay"},
    "momentum_param": {"momentum"},
    "dampening": {"dampening"},
    "grafting_config_not_none": {"grafting_config"},
    "perform_amortized_computation": {"precondition_frequency", "start_preconditioning_step"},
    "use_decoupled_weight_decay": {"use_decoupled_weight_decay"},
    "use_bias_correction": {"use_bias_correction"},
    "use_grafting_method": {"start_preconditioning_step", "grafting_config"},
    "use_nesterov": {"use_nesterov"},
}


def _wiring(ctx, rep) -> None:
    repo = ctx.repo
    pts = ctx.engine("pts")
    step = repo.method(DS, "step")
    impl = repo.method(DS, "_per_group_step_impl")
    m = step.module
    grp = _group_loop_var(step)
    sl = _state_loop_var(step)
    calls = [c for c in A.calls(step.node) if impl.qual in pts.callees(step.qual, c)]
    rep.floor("C01.5", "step() -> _per_group_step_impl", len(calls), 1)

    def group_keys(e: ast.AST, depth: int = 0) -> tuple[set, set]:
        keys, other = set(), set()
        # placement arguments (device= / dtype= of a tensor constructor) do not decide the hyperparameter's value
        placement = {id(x) for c0 in ast.walk(e) if isinstance(c0, ast.Call) for k in c0.keywords if k.arg in ("device", "dtype") for x in ast.walk(k.value)}
        placement |= {id(x) for c0 in ast.walk(e) if isinstance(c0, ast.Call) and isinstance(c0.func, ast.Attribute) and c0.func.attr == "to" for a0 in c0.args for x in ast.walk(a0)}
        for n in ast.walk(e):
            if id(n) in placement:
                continue
            if isinstance(n, ast.Subscript) and isinstance(n.value, ast.Name) and n.value.id == grp:
                k = A.const_key(repo, m, n.slice)
                keys.add(k if k is not None else "?")
            elif isinstance(n, ast.Attribute) and isinstance(n.value, ast.Name) and n.value.id == "self" and repo.lookup_method(repo.cls(DS), n.attr) is None:
                # optimizer-wide data (self.defaults, a flag recorded by the constructor): not this group's value
                other.add(f"self.{n.attr}")
            elif isinstance(n, ast.Name) and isinstance(n.ctx, ast.Load) and depth < 3 and n.id not in (grp, sl, "self", "torch"):
                defs = A.assignments_to(step.node, n.id)
                for d in defs:
                    k2, o2 = group_keys(d, depth + 1)
                    keys |= k2
                    other |= o2
        return keys, other

    for c in calls:
        for formal, want in WIRING.items():
            a = A.arg_of(c, impl, formal)
            if a is None:
                rep.ob("C01.5", f"wiring:{formal}", False, step.loc(c), f"no actual argument bound to formal `{formal}`")
                continue
            keys, other = group_keys(a)
            ok = keys == want and not other
            rep.ob("C01.5", f"wiring:{formal}", ok, step.loc(c), f"formal `{formal}` must be computed from this step's group[{sorted(want)}]; actual `{ast.unparse(a)}` reads group keys {sorted(map(str, keys))}{' and ' + str(sorted(other)) if other else ''}", sample=formal in ("lr", "beta1"))
        # beta1 is betas[0]
        a = A.arg_of(c, impl, "beta1")
        if isinstance(a, ast.Name):
            defs = A.assignments_to(step.node, a.id)
            a = defs[0] if len(defs) == 1 else a
        ok = isinstance(a, ast.Subscript) and isinstance(a.slice, ast.Constant) and a.slice.value == 0
        rep.ob("C01.5", "wiring:beta1-is-betas[0]", ok, step.loc(c), f"beta1 must be group[BETAS][0]; got `{ast.unparse(a) if a is not None else '<not passed as a separate argument>'}`")
        # state_lists / step
        a = A.arg_of(c, impl, "state_lists")
        rep.ob("C01.5", "wiring:state_lists", isinstance(a, ast.Name) and a.id == sl, step.loc(c), "the group step runs on the loop's own state lists")
    # every helper the group loop calls with a `group` / `state_lists` formal receives the loop's own group / state lists
    n_sites = 0
    for loop in [n for n in A.walk_no_nested(step.node) if isinstance(n, ast.For) and isinstance(n.target, ast.Tuple) and any(isinstance(e, ast.Name) and e.id == grp for e in n.target.elts)]:
        for c in A.calls(loop):
            for q in sorted(pts.callees(step.qual, c)):
                callee = repo.funcs.get(q)
                if callee is None:
                    continue
                for formal, want in (("group", grp), ("state_lists", sl)):
                    if formal in callee.params:
                        a = A.arg_of(c, callee, formal)
                        if a is None:
                            continue
                        n_sites += 1
                        rep.ob("C01.5", f"wiring:{formal}-argument:{callee.name}", isinstance(a, ast.Name) and a.id == want, step.loc(c), f"`{callee.name}` is called from the group loop with {formal}=`{ast.unparse(a)}`; it must be the loop's own `{want}` (optimizer-wide defaults or another group's dict disagree with the group whenever a group overrides a value)", sample=callee.name == "_mask_state_lists")
    rep.floor("C01.5", "helpers called from the group loop with a group / state_lists formal", n_sites, 2)
