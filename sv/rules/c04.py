"""C04 — parameters without a gradient are untouched; state is never cross-wired (alignment of parallel lists).

C04.1 index-space typing of every compress_list / zip / multi-list foreach / list-class constructor / index use,
      plus the naming-belief contradiction check (`_masked_` / `_local_` / `_global_` prefixes);
C04.2 mask completeness: every masked list of every owner is re-derived from its unmasked twin with the right
      selector in the owner's re-mask routine, under a guard that agrees with the list's existence, and the
      re-mask is skipped only when the remembered selector equals the current one (and is then updated);
C04.3 every in-place write on the step path targets a masked (or fresh) list — never a local/global list;
C04.4 an empty masked gradient list skips the group before the step counter is touched;
C04.5 the gradient selector is extended for every parameter on every path (before any `continue`).
"""

from __future__ import annotations

import ast
import itertools

from .. import astutil as A
from ..cfg import CFG
from ..guards import Interp, Unsupported
from ..loader import AnalysisError
from ..spaces import Spaces, show, space_of
from .common import DS, short

DIST_BASE = "distributed_shampoo.utils.shampoo_distributor:DistributorInterface"


def spaces_engine(ctx) -> Spaces:
    if "spaces" not in ctx._cache:
        ctx._cache["spaces"] = Spaces(ctx.repo, ctx.engine("pts"))
    return ctx._cache["spaces"]


def site_key(s) -> str:
    txt = ast.unparse(s.node)
    txt = " ".join(txt.split())
    if len(txt) > 110:
        txt = txt[:110] + "…"
    return f"{s.kind}:{short(s.func.qual)}{'@' + s.cls.name if s.cls is not None and s.cls.name not in s.func.qual else ''}:{txt}"


def typing_sites(ctx, rep, rule: str, modules: set[str] | None = None, floors: dict[str, int] | None = None) -> None:
    sp = spaces_engine(ctx)
    per_mod: dict[str, int] = {}
    for i, s in enumerate(sp.sites):
        if modules is not None and s.func.module.name not in modules:
            continue
        if s.typed:
            per_mod[s.func.module.name] = per_mod.get(s.func.module.name, 0) + 1
        rep.ob(rule, site_key(s), s.ok, s.func.loc(s.node), s.detail, nontrivial=s.typed, sample=(s.typed and i % 17 == 0))
    for mod, fl in (floors or {}).items():
        rep.floor(rule, f"typed list-combination sites in {mod}", per_mod.get(mod, 0), fl)


def naming_beliefs(ctx, rep, rule: str) -> None:
    sp = spaces_engine(ctx)
    n = 0
    for (cq, attr), t in sorted(sp.attr.items()):
        s = space_of(t)
        if s is None or t[0] != "list":
            continue
        want = None
        if "masked" in attr:
            want = {"LM", "GM"}
            if attr.startswith("_global"):
                want = {"GM"}
            elif attr.startswith("_local"):
                want = {"LM"}
        elif attr.startswith("_local_"):
            want = {"L"}
        elif attr.startswith("_global_"):
            want = {"G", "L"} if cq in sp.identity_cls else {"G"}
        if want is None:
            continue
        n += 1
        ci = ctx.repo.classes[cq]
        rep.ob(rule, f"belief:{ci.name}.{attr}", s in want, ci.module.relpath, f"attribute `{attr}` of {ci.name} is inferred to live in index space {s}; its name states {sorted(want)}")
    for key, t in sorted(sp.slot.items()):
        s = space_of(t)
        if s is None or t[0] != "list":
            continue
        want = {"LM"} if key.startswith("masked_") else {"L"}
        n += 1
        rep.ob(rule, f"belief:state_lists[{key}]", s in want, "distributed_shampoo/distributed_shampoo.py", f"state list `{key}` is inferred to live in index space {s}; its name states {sorted(want)}")
    rep.floor(rule, "named per-block lists with an inferred space", n, 20)


# ------------------------------------------------------------------------------------------------ C04.2
def _assign_sites(func_node: ast.AST, pred) -> list[ast.AST]:
    out = []
    for n in A.walk_no_nested(func_node):
        if isinstance(n, (ast.Assign, ast.AnnAssign)) and n.value is not None:
            tg = n.targets[0] if isinstance(n, ast.Assign) else n.target
            if pred(tg):
                out.append(n)
    return out


def _conds(cfg: CFG, node) -> list[tuple[ast.AST, bool]]:
    out = []
    for t, lab in cfg.branch_conditions(node):
        if t.kind == "test" and lab in ("T", "F"):
            out.append((t.ast.test, lab == "T"))
    return out


def mask_completeness(ctx, rep, rule: str) -> None:
    repo = ctx.repo
    sp = spaces_engine(ctx)
    # ---- list classes and distributors: every masked attribute is re-derived in the re-mask routine
    owners = [(c, "compress_preconditioner_list") for c in sp.pl_classes] + [(c, "merge_and_block_gradients") for c in sp.dist_classes]
    for c, routine in owners:
        meth = repo.lookup_method(c, routine)
        if meth is None or meth.is_abstract:
            raise AnalysisError(f"{rule}: {c.name}.{routine} not found")
        masked = sorted(
            {a for (cq, a), t in sp.attr.items() if cq == c.qual and t is not None and t[0] == "list" and t[1] in ("LM", "GM")}
            | {a for (cq, a), sites in sp.attr_sites.items() if cq == c.qual and "masked" in a and sites}
        )
        reassigned = {}
        for n in _assign_sites(meth.node, lambda tg: isinstance(tg, ast.Attribute) and isinstance(tg.value, ast.Name) and tg.value.id == "self"):
            tg = n.targets[0] if isinstance(n, ast.Assign) else n.target
            reassigned[tg.attr] = n
        for a in masked:
            n = reassigned.get(a)
            ok = n is not None
            detail = f"masked list `{a}` of {c.name} must be re-derived in {routine}()"
            if ok:
                v = n.value
                while isinstance(v, ast.Call) and isinstance(v.func, ast.Name) and v.func.id in ("list", "tuple") and v.args:
                    v = v.args[0]
                is_compress = isinstance(v, ast.Call) and A.callee_name(repo, meth.module, v).endswith("shampoo_utils.compress_list")
                src_ok = False
                if is_compress:
                    src = v.args[0]
                    src_t = sp.ty(src, _scope(sp, meth, c))
                    tgt_t = sp.attr.get((c.qual, a))
                    # source must be the unmasked twin: one masking level below the target
                    src_ok = space_of(src_t) is None or (space_of(src_t), tgt_t[1]) in {("L", "LM"), ("G", "GM")}
                    detail += f": re-derived as `{ast.unparse(n.value)[:100]}` from a list in space {space_of(src_t)}"
                    if not src_ok:
                        detail += " — it must be compressed from its unmasked twin (compressing an already masked list shrinks it progressively)"
                ok = is_compress and src_ok
            else:
                detail += " — it is never reassigned there, so it keeps the blocks of an earlier gradient pattern"
            rep.ob(rule, f"remask:{c.name}.{a}", ok, meth.loc(n) if n is not None else meth.loc(), detail, sample=True)
        if c in sp.pl_classes and c.name != "SGDPreconditionerList":
            rep.floor(rule, f"masked attributes of {c.name}", len(masked), 1)
    # ---- state_lists owner: _mask_state_lists
    msl = repo.method(DS, "_mask_state_lists")
    cfg = CFG(msl.node)
    m = msl.module
    slot_assign = {}
    for n in _assign_sites(msl.node, lambda tg: isinstance(tg, ast.Subscript)):
        tg = n.targets[0]
        nm, key = A.subscript_key(repo, m, tg)
        if isinstance(key, str):
            slot_assign[key] = n
    masked_slots = sorted(k for k, t in sp.slot.items() if t is not None and t[0] == "list" and t[1] == "LM" and k != "masked_blocked_grads")
    rep.floor(rule, "masked state_lists slots", len(masked_slots), 3)
    # existence conditions of conditionally created lists, from the _instantiate_* guards
    exist = {"masked_momentum_list": lambda e: e["momentum"] != 0.0, "masked_filtered_grad_list": lambda e: e["betas"][0] != 0.0, "masked_blocked_params": lambda e: True}
    grp = [a.arg for a in msl.node.args.args][-1]

    # the grafting configurations a group may carry: None and one instance of every concrete class of the hierarchy, mirrored
    # as empty classes so that isinstance / type(...) is / == decide exactly as they do on the repository's classes
    from ..guards import shadow_hierarchy

    graft_base = repo.cls("distributed_shampoo.shampoo_types:GraftingConfig")
    shadow = shadow_hierarchy(repo, graft_base)
    graft_values = [None] + [shadow[c.qual]() for c in repo.concrete_subclasses(graft_base)]
    rep.floor(rule, "concrete grafting configuration classes", len(graft_values) - 1, 4)

    def resolve(name):
        d = repo.resolve_dotted(m, name)
        ok, v = repo.const_by_dotted(d)
        if ok:
            return v
        ci = repo.class_by_dotted(d)
        if ci is not None and ci.qual in shadow:
            return shadow[ci.qual]
        raise Unsupported(name)

    for k in masked_slots:
        n = slot_assign.get(k)
        if n is None:
            rep.ob(rule, f"remask:state_lists[{k}]", False, msl.loc(), f"masked state list `{k}` is never re-derived in _mask_state_lists")
            continue
        conds = [(t, p) for t, p in _conds(cfg, cfg.node_of(n)) if grp in A.names_in(t)]
        bad = []
        for mom, b1, graft in itertools.product([0.0, 0.5], [0.0, 0.9], graft_values):
            env = {grp: {"momentum": mom, "betas": (b1, 0.99), "grafting_config": graft}}
            try:
                it = Interp(env, resolve_name=resolve)
                fires = all(bool(it.ev(t)) == p for t, p in conds)
            except Unsupported as u:
                raise AnalysisError(f"{rule}: guard of the re-mask of {k} is outside the sub-language: {u}") from u
            want = exist.get(k, lambda e: True)(env[grp])
            if fires != want:
                bad.append((mom, b1, graft, fires, want))
        v = n.value
        is_compress = isinstance(v, ast.Call) and A.callee_name(repo, m, v).endswith("shampoo_utils.compress_list")
        from_prop = isinstance(v, ast.Attribute)  # masked_blocked_params comes from the distributor's own masked list
        rep.ob(rule, f"remask:state_lists[{k}]", (is_compress or from_prop) and not bad, msl.loc(n), f"`{k}` re-derived as `{ast.unparse(v)[:90]}`" + (f"; guard disagrees with the list's existence at (momentum, beta1, grafting)={bad[0][:3]}: re-masked={bad[0][3]}, list exists={bad[0][4]}" if bad else "; guard agrees with the condition under which the list exists"), sample=True)
    # the per-object re-mask calls: shampoo list always, grafting list iff configured
    for c in A.calls(msl.node):
        if isinstance(c.func, ast.Attribute) and c.func.attr == "compress_preconditioner_list":
            nm, key = A.subscript_key(repo, m, c.func.value)
            conds = [(t, p) for t, p in _conds(cfg, cfg.node_of(c)) if grp in A.names_in(t)]
            bad = []
            for graft in graft_values:
                env = {grp: {"momentum": 0.5, "betas": (0.9, 0.99), "grafting_config": graft}}
                it = Interp(env, resolve_name=resolve)
                fires = all(bool(it.ev(t)) == p for t, p in conds)
                want = True if key == "shampoo_preconditioner_list" else (graft is not None)
                if fires != want:
                    bad.append(type(graft).__name__ if graft is not None else "None")
            rep.ob(rule, f"remask:state_lists[{key}].compress_preconditioner_list", not bad, msl.loc(c), f"the {key} is re-masked exactly when it exists (a grafting list exists for every grafting configuration other than None)" + (f"; the guard disagrees for grafting_config of {bad}" if bad else ""), sample=True)
    n_calls = sum(1 for c in A.calls(msl.node) if isinstance(c.func, ast.Attribute) and c.func.attr == "compress_preconditioner_list")
    rep.floor(rule, "_mask_state_lists re-masks the preconditioner lists", n_calls, 2)
    # ---- early-return / change-detection guards
    _change_guards(ctx, rep, rule)


def _scope(sp: Spaces, meth, c):
    from ..spaces import Scope

    sc = Scope(meth, c)
    for p in meth.params:
        t = sp.formal.get((meth.qual, p))
        if t is not None:
            sc.locals[p] = t
    for _ in range(2):
        sp._bind_locals(sc)
    return sc


def _change_guards(ctx, rep, rule: str) -> None:
    """The re-mask block runs iff the *current source selector* differs from the *remembered* one, and the remembered one
    is updated inside the block from that same selector; every selector used inside the block must be determined by it."""
    repo = ctx.repo
    sp = spaces_engine(ctx)
    # distributors
    for c in sp.dist_classes:
        meth = repo.lookup_method(c, "merge_and_block_gradients")
        cur, prev = "self._global_grad_selector", "self._previous_global_grad_selector"

        def is_change_test(t):
            return isinstance(t, ast.Compare) and len(t.ops) == 1 and isinstance(t.ops[0], ast.NotEq) and {ast.unparse(t.left), ast.unparse(t.comparators[0])} == {cur, prev}

        ifs = [n for n in A.walk_no_nested(meth.node) if isinstance(n, ast.If) and is_change_test(n.test)]
        other_ifs = [n for n in meth.node.body if isinstance(n, ast.If) and not is_change_test(n.test)]
        if not ifs:
            iff = other_ifs[0] if other_ifs else None
            rep.ob(rule, f"change-guard:{c.name}.merge_and_block_gradients", False, meth.loc(iff) if iff is not None else meth.loc(), f"re-mask guard is `{ast.unparse(iff.test) if iff is not None else '<none>'}`; it must compare the current global gradient selector with the remembered one: a guard on anything that does not determine all masked lists (a count, only the local selector) leaves them stale when the set of gradients changes", sample=True)
            continue
        mcfg = CFG(meth.node)
        upd_all = [n for n in A.walk_no_nested(meth.node) if isinstance(n, ast.Assign) and ast.unparse(n.targets[0]) == prev]
        stale = []
        for iff in ifs:
            tn = mcfg.node_of(iff.test)
            # the remembered selector must still be the previous one when it is compared: no update of it reaches the test
            for u in upd_all:
                un = mcfg.node_of(u)
                if un is not None and tn is not None and un is not tn and tn in mcfg.reachable(un) and not any(x is u for st in iff.body for x in ast.walk(st)):
                    stale.append((iff, u))
        # the *current* selector compared must be this step's: a call that refreshes self._global_grad_selector dominates each guard
        pts = ctx.engine("pts")
        def refreshes(q: str, depth: int = 0) -> bool:
            g = repo.funcs.get(q)
            if g is None or g.name == "__init__":
                return False
            if any(isinstance(x, (ast.Assign, ast.AnnAssign, ast.AugAssign)) and any(ast.unparse(t) == cur for t in (x.targets if isinstance(x, ast.Assign) else [x.target])) for x in ast.walk(g.node)):
                return True
            return depth < 2 and any(refreshes(q2, depth + 1) for c2 in A.calls(g.node) for q2 in pts.callees(g.qual, c2) if q2 != q)
        wcalls = [c2 for c2 in A.calls(meth.node) if any(refreshes(q) for q in pts.callees(meth.qual, c2))]
        wnodes = [mcfg.node_of(c2) for c2 in wcalls]
        late = [iff for iff in ifs if not any(wn is not None and mcfg.node_of(iff.test) is not None and wn is not mcfg.node_of(iff.test) and mcfg.dominates(wn, mcfg.node_of(iff.test)) for wn in wnodes)]
        rep.ob(rule, f"change-guard-sees-this-step's-selector:{c.name}.merge_and_block_gradients", bool(wcalls) and not late, meth.loc(late[0]) if late else meth.loc(), f"{len(wcalls)} call(s) in merge_and_block_gradients refresh `{cur}` from this step's gradients; each re-mask guard must be dominated by one (a guard evaluated before the refresh compares last step's selector, so the masked lists lag one step behind the gradients)" + (f": guard at line {late[0].lineno} is not" if late else ""), sample=True)
        upd = [n for iff in ifs for n in iff.body if isinstance(n, ast.Assign) and ast.unparse(n.targets[0]) == prev and ast.unparse(n.value) == cur]
        used = {ast.unparse(n) for iff in ifs for st in iff.body for n in ast.walk(st) if isinstance(n, ast.Attribute) and n.attr.endswith("_selector") and isinstance(n.value, ast.Name) and n.value.id == "self"}
        rep.ob(
            rule,
            f"change-guard:{c.name}.merge_and_block_gradients",
            not stale and len(upd) == 1 and len(upd_all) == 1,
            meth.loc(stale[0][0] if stale else ifs[0]),
            f"{len(ifs)} re-mask guard(s) comparing the current global gradient selector with the remembered one; the remembered one is updated once, inside a guard ({len(upd)} of {len(upd_all)} update(s)), and never before a guard that still has to compare it ({'stale comparison: the update at line ' + str(stale[0][1].lineno) + ' runs first, so the guard at line ' + str(stale[0][0].lineno) + ' can never fire' if stale else 'ok'}) (selectors used inside: {sorted(used)})",
            sample=True,
        )
    # state lists
    msl = repo.method(DS, "_mask_state_lists")
    m = msl.module
    first_if = next((n for n in msl.node.body if isinstance(n, ast.If)), None)
    ok = False
    detail = "early return of _mask_state_lists"
    if first_if is not None and isinstance(first_if.test, ast.Compare) and len(first_if.test.ops) == 1 and isinstance(first_if.test.ops[0], ast.Eq):
        l, r = first_if.test.left, first_if.test.comparators[0]
        keys = set()
        props = set()

        def denoted(e):  # what a local alias stands for (pure single-assignment locals expanded)
            return ast.parse(A.expanded(msl.node, e), mode="eval").body

        for e in (denoted(l), denoted(r)):
            nm, key = A.subscript_key(repo, m, e)
            if isinstance(key, str):
                keys.add(key)
            if isinstance(e, ast.Attribute):
                props.add(e.attr)
        returns = len(first_if.body) == 1 and isinstance(first_if.body[0], ast.Return)
        upd = [n for n in A.walk_no_nested(msl.node) if isinstance(n, ast.Assign) and isinstance(n.targets[0], ast.Subscript) and A.subscript_key(repo, m, n.targets[0])[1] == "previous_grad_selector" and isinstance(denoted(n.value), ast.Attribute) and denoted(n.value).attr == "local_grad_selector"]
        ok = keys == {"previous_grad_selector"} and props == {"local_grad_selector"} and returns and len(upd) == 1
        detail = f"early return guard `{ast.unparse(first_if.test)}`: compares the distributor's current local selector with state_lists[PREVIOUS_GRAD_SELECTOR] ({keys == {'previous_grad_selector'} and props == {'local_grad_selector'}}), returns ({returns}), and the remembered selector is updated on the other path ({len(upd) == 1})"
    rep.ob(rule, "change-guard:_mask_state_lists", ok, msl.loc(first_if) if first_if is not None else msl.loc(), detail, sample=True)


# ------------------------------------------------------------------------------------------------ C04.3
def writes_to_masked_only(ctx, rep, rule: str) -> None:
    repo = ctx.repo
    pts = ctx.engine("pts")
    sp = spaces_engine(ctx)
    step_funcs = pts.reachable_funcs([f"{DS}.step"])
    n = 0
    for s in sp.sites:
        if s.kind != "foreach" or not s.inplace or s.func.qual not in step_funcs:
            continue
        n += 1
        ok = s.dst_space not in ("L", "G")
        rep.ob(rule, "masked-write:" + site_key(s), ok, s.func.loc(s.node), f"in-place `{ast.unparse(s.node.func)}` on the step path writes a list of space {s.dst_space or 'fresh/unknown'}" + ("" if ok else " — blocks without a gradient this step would be modified"), nontrivial=s.dst_space is not None, sample=n % 7 == 0)
    rep.floor(rule, "in-place foreach writes on the step path", n, 15)
    # per-block loops on the step path must iterate masked lists when they write
    nloops = 0
    for q in sorted(step_funcs):
        fi = repo.funcs.get(q)
        if fi is None or fi.cls is None:
            continue
        wnodes = [w.node for w in pts.writes if w.func == q]
        if not wnodes:
            continue
        for c in [fi.cls] if fi.cls in sp.pl_classes + sp.dist_classes + [sp.ds] else [k for k in sp.pl_classes + sp.dist_classes if repo.is_subclass(k, fi.cls)]:
            sc = _scope(sp, fi, c)
            for loop in [x for x in A.walk_no_nested(fi.node) if isinstance(x, ast.For)]:
                it = loop.iter
                lists = []
                if isinstance(it, ast.Call) and isinstance(it.func, ast.Name) and it.func.id in ("zip", "enumerate"):
                    for a in it.args:
                        if isinstance(a, ast.Call) and isinstance(a.func, ast.Name) and a.func.id == "zip":
                            lists += list(a.args)
                        else:
                            lists.append(a)
                else:
                    lists = [it]
                spaces = {space_of(sp.ty(a, sc)) for a in lists} - {None}
                inside = {id(x) for x in ast.walk(loop)}
                writes_inside = [w for w in wnodes if id(w) in inside]
                if not writes_inside or not spaces:
                    continue
                nloops += 1
                ok = not (spaces & {"L", "G"})
                rep.ob(rule, f"masked-loop:{short(q)}@{c.name}:{ast.unparse(it)[:80]}", ok, fi.loc(loop), f"loop on the step path with in-place writes iterates lists of space(s) {sorted(spaces)}" + ("" if ok else " — it visits blocks without a gradient"), sample=nloops % 5 == 0)
    rep.floor(rule, "per-block write loops on the step path", nloops, 3)


# ------------------------------------------------------------------------------------------------ C04.4
def global_selector_is_ownership_independent(ctx, rep, rule: str) -> None:
    """The GLOBAL gradient selector says, for every block of the group, whether its parameter has a gradient — the same tuple on
    every rank: what is extended / appended into it in `_merge_and_block_gradients` must not depend on which blocks this rank
    owns (`self._distributor_selector` or anything computed from it).  The consumers compress the global block and buffer
    lists with it; an ownership-masked selector freezes the blocks other ranks own."""
    repo = ctx.repo
    sp = spaces_engine(ctx)
    seen = set()
    n = 0
    for c in sp.dist_classes:
        fi = repo.lookup_method(c, "_merge_and_block_gradients")
        if fi is None or fi.qual in seen:
            continue
        seen.add(fi.qual)
        # the local list(s) that become self._global_grad_selector
        sel_locals = set()
        for st in A.walk_no_nested(fi.node):
            if isinstance(st, (ast.Assign, ast.AnnAssign)) and st.value is not None:
                tg = st.targets[0] if isinstance(st, ast.Assign) else st.target
                if isinstance(tg, ast.Attribute) and tg.attr == "_global_grad_selector":
                    sel_locals |= {x.id for x in ast.walk(st.value) if isinstance(x, ast.Name)}
        # ownership taint: names computed from the distributor selector
        tainted: set[str] = set()
        changed = True
        mentions = lambda e: any((isinstance(x, ast.Attribute) and "distributor_selector" in x.attr) or (isinstance(x, ast.Name) and x.id in tainted) for x in ast.walk(e))
        while changed:
            changed = False
            for st in A.walk_no_nested(fi.node):
                pairs = []
                if isinstance(st, ast.Assign):
                    pairs = [(t, st.value) for t in st.targets]
                elif isinstance(st, (ast.AnnAssign, ast.NamedExpr)) and st.value is not None:
                    pairs = [(st.target, st.value)]
                elif isinstance(st, (ast.For, ast.comprehension)):
                    pairs = [(st.target, st.iter)]
                for tg, v in pairs:
                    if mentions(v):
                        for x in ast.walk(tg):
                            if isinstance(x, ast.Name) and x.id not in tainted:
                                tainted.add(x.id)
                                changed = True
        for call in A.calls(fi.node):
            f = call.func
            if isinstance(f, ast.Attribute) and f.attr in ("extend", "append", "insert") and isinstance(f.value, ast.Name) and f.value.id in sel_locals and call.args:
                n += 1
                arg = call.args[-1]
                dep = mentions(arg)
                # ... and on nothing about the gradient but its presence: the gradient variable may only occur as `g is None` /
                # `g is not None` (an all-zero gradient is a gradient: the stateful recurrences still advance)
                argx = ast.parse(A.expanded(fi.node, arg), mode="eval").body
                presence_only = True
                parents_ = {id(c_): p_ for p_ in ast.walk(argx) for c_ in ast.iter_child_nodes(p_)}
                for x in ast.walk(argx):
                    if isinstance(x, ast.Name) and "grad" in x.id and x.id not in sel_locals:
                        par = parents_.get(id(x))
                        if not (isinstance(par, ast.Compare) and len(par.ops) == 1 and isinstance(par.ops[0], (ast.Is, ast.IsNot)) and isinstance(par.comparators[0], ast.Constant) and par.comparators[0].value is None):
                            presence_only = False
                rep.ob(rule, f"global-selector-is-gradient-presence:{short(fi.qual)}", presence_only, fi.loc(call), f"`{ast.unparse(argx)[:90]}` written into the global gradient selector" + (" reads the gradient itself, not only whether it is None: a present gradient (e.g. all zeros) would be treated as absent" if not presence_only else " depends on the gradient only through `is None`"), sample=False)
                # control dependence on an ownership test taints the value as well
                cfg = CFG(fi.node)
                ctl = [t for t, _ in cfg.branch_conditions(cfg.node_of(call)) if t.kind == "test" and mentions(t.ast.test)]
                rep.ob(rule, f"global-selector-is-ownership-independent:{short(fi.qual)}", not dep and not ctl, fi.loc(call), f"`{ast.unparse(call)[:90]}` feeds the global gradient selector" + (" with a value computed from the distributor (ownership) selector: ranks would disagree on it and blocks owned by other ranks are never copied back" if dep or ctl else " from gradient presence only"), sample=True)
    rep.floor(rule, "writes into the global gradient selector", n, 2)


def empty_group_skips(ctx, rep, rule: str) -> None:
    repo = ctx.repo
    pts = ctx.engine("pts")
    kinds = pts.state_kinds()
    step = repo.method(DS, "step")
    m = step.module
    cfg = CFG(step.node)
    tests = []
    for n in cfg.nodes:
        if n.kind == "test":
            t = A.emptiness_normal(n.ast.test)  # `len(xs) == 0` is `not xs` for the tuple the slot holds
            neg = isinstance(t, ast.UnaryOp) and isinstance(t.op, ast.Not)
            nm, key = A.subscript_key(repo, m, t.operand if neg else t) if isinstance(t.operand if neg else t, ast.Subscript) else (None, None)
            if key == "masked_blocked_grads":
                tests.append((n, "T" if neg else "F"))  # the edge taken when the list is empty: `if not xs: continue` / `if xs: <rest>`
    rep.floor(rule, "empty-gradient test in step()", len(tests), 1)
    inc_nodes = {cfg.node_of(w.node) for w in pts.writes if w.func == step.qual and any("step" in kinds.get(t, ()) for t in w.dst)}
    call_nodes = {cfg.node_of(c) for c in A.calls(step.node) if any(q.replace(":", ".").endswith("._per_group_step_impl") for q in pts.callees(step.qual, c))}
    for tnode, empty_edge in tests:
        # on the edge taken for an empty list we must get back to the loop head (or exit) without touching the counter or the group step
        seen = set()
        stack = [s for s, lab in tnode.succ if lab == empty_edge]
        touched = False
        while stack:
            x = stack.pop()
            if x in seen:
                continue
            seen.add(x)
            if x.kind == "loop":
                continue
            if x in inc_nodes or x in call_nodes:
                touched = True
                break
            stack.extend(s for s, _ in x.succ)
        # and the test dominates the increment
        dom = all(cfg.dominates(tnode, i) for i in inc_nodes if i is not None) and bool(inc_nodes)
        # the tested list is this step's gradient list: assigned from merge_and_block_gradients() before
        rep.ob(rule, "empty-group:skip-before-step-counter", (not touched) and dom, step.loc(tnode.ast), f"`if {ast.unparse(tnode.ast.test)}` — empty path reaches the next group without incrementing STEP or running the group step: {not touched}; the test dominates the increment: {dom}", sample=True)


def every_group_visited(ctx, rep, rule: str) -> None:
    """step() must give every parameter group its turn: the per-group loop is left only by exhausting it (a group without
    gradients is skipped with `continue`; a `break` / `return` would also skip all later groups, which do have gradients)."""
    repo = ctx.repo
    step = repo.method(DS, "step")
    loops = [n for n in A.walk_no_nested(step.node) if isinstance(n, ast.For) and any(isinstance(x, ast.Attribute) and x.attr in ("param_groups", "_per_group_state_lists") for x in ast.walk(n.iter))]
    rep.floor(rule, "per-group loop in step()", len(loops), 1)
    for loop in loops:
        exits = []
        def scan(stmts, depth):
            for st in stmts:
                if isinstance(st, ast.Return) or (isinstance(st, ast.Break) and depth == 0):
                    exits.append(st)
                if isinstance(st, (ast.FunctionDef, ast.AsyncFunctionDef, ast.ClassDef)):
                    continue
                inner = depth + (1 if isinstance(st, (ast.For, ast.While)) else 0)
                for fld in ("body", "orelse", "finalbody"):
                    scan(getattr(st, fld, []) or [], inner if fld == "body" else depth)
                for h in getattr(st, "handlers", []) or []:
                    scan(h.body, depth)
        scan(loop.body, 0)
        rep.ob(rule, "every-group-visited", not exits and not loop.orelse, step.loc(exits[0] if exits else loop), "the loop over the parameter groups in step() is left only by exhaustion" + (f"; found {[type(e).__name__ + '@' + str(e.lineno) for e in exits]}: every later group is skipped as well — its parameters have gradients but are not updated" if exits else ""), sample=True)


def stateful_cursors_advance(ctx, rep, rule: str) -> None:
    """A position in a per-block list that is tracked by a *stateful cursor* (an iterator consumed with next()/islice()) must not
    depend on gradient presence: a parameter skipped because its gradient is None still occupies its entries of every
    per-block list, so a cursor that is not advanced for it makes every later parameter read another parameter's entries.
    (Index ranges taken from the zipped pairwise indices advance by construction.)"""
    repo = ctx.repo
    sp = spaces_engine(ctx)
    n = 0
    classes = [k for k in repo.classes.values() if k.module.name.endswith("distributor") or k.module.name.endswith("shampoo_preconditioner_list") or k is sp.ds]
    for c in classes:
        for fi in c.methods.values():
            loops = [x for x in A.walk_no_nested(fi.node) if isinstance(x, ast.For)]
            if not loops:
                continue
            iters = {t.id for st in A.walk_no_nested(fi.node) if isinstance(st, ast.Assign) and isinstance(st.value, ast.Call) and isinstance(st.value.func, ast.Name) and st.value.func.id == "iter" for t in st.targets if isinstance(t, ast.Name)}
            if not iters:
                continue
            cfg = CFG(fi.node)
            for loop in loops:
                head = cfg.node_of(loop.iter)
                if head is None or head.kind != "loop":
                    continue
                uses = [k for k in A.calls(ast.Module(body=loop.body, type_ignores=[]), nested=False) if isinstance(k.func, ast.Name) and k.func.id in ("next", "islice") and k.args and isinstance(k.args[0], ast.Name) and k.args[0].id in iters]
                # only cursors created outside this loop and consumed inside it
                uses = [k for k in uses if not any(isinstance(st, ast.Assign) and any(isinstance(t, ast.Name) and t.id == k.args[0].id for t in st.targets) for st in ast.walk(loop))]
                for k in uses:
                    kn = cfg.node_of(k)
                    if kn is None or not any(lp is loop for lp in A.enclosing_loops(fi.node, k)[-1:]):
                        continue
                    # the cursor may legitimately advance only for *selected* items (a compressed list walked under its
                    # selector); what it must not depend on is gradient presence: an item skipped because its gradient is
                    # None still occupies its entries in every per-block list
                    presence = [t for t, lab in cfg.branch_conditions(kn) if t.kind == "test" and any(isinstance(x, ast.Compare) and any(isinstance(o, (ast.Is, ast.IsNot)) for o in x.ops) and any(isinstance(cmp_, ast.Constant) and cmp_.value is None for cmp_ in x.comparators) for x in ast.walk(t.ast.test))]
                    every = not presence
                    n += 1
                    rep.ob(rule, f"cursor-advances:{short(fi.qual)}@{c.name}:{k.args[0].id}", every, fi.loc(k), f"`{ast.unparse(k)[:60]}` consumes the cursor `{k.args[0].id}` in the per-item loop: whether it advances must not depend on gradient presence" + ("" if every else f" — it is skipped under `{ast.unparse(presence[0].ast.test)}`: the cursor falls behind and later parameters read other parameters' entries"), sample=True)
    rep.notes["stateful cursors examined"] = n


def gradients_read_after_closure(ctx, rep, rule: str) -> None:
    """step(closure): the closure re-evaluates the model and produces this step's gradients, so everything that looks at
    gradient presence (blocking, selector, masking) must run after it — the closure call is never reachable from a
    gradient-blocking call."""
    repo = ctx.repo
    pts = ctx.engine("pts")
    step = repo.method(DS, "step")
    cfg = CFG(step.node)
    closure_calls = [c for c in A.calls(step.node) if isinstance(c.func, ast.Name) and c.func.id == (step.params[1] if len(step.params) > 1 else "closure")]
    readers = [c for c in A.calls(step.node) if any(q.replace(":", ".").endswith(".merge_and_block_gradients") or q.replace(":", ".").endswith("._mask_state_lists") for q in pts.callees(step.qual, c))]
    rep.floor(rule, "closure call in step()", len(closure_calls), 1)
    rep.floor(rule, "gradient-blocking calls in step()", len(readers), 1)
    bad = []
    for r in readers:
        rn = cfg.node_of(r)
        if rn is None:
            continue
        reach = cfg.reachable(rn)
        for c in closure_calls:
            cn = cfg.node_of(c)
            if cn is not None and cn in reach and cn is not rn:
                bad.append((r, c))
    rep.ob(rule, "gradients-read-after-closure", not bad, step.loc(bad[0][0] if bad else (closure_calls[0] if closure_calls else None)), f"{len(readers)} gradient-blocking call(s), {len(closure_calls)} closure call(s) in step(): the closure never runs after gradients were blocked" + (f"; `{ast.unparse(bad[0][0])[:70]}` runs before `{ast.unparse(bad[0][1])}`: selector, masks and blocked gradients then describe the previous iteration's gradients" if bad else ""), sample=True)


# ------------------------------------------------------------------------------------------------ C04.5
def selector_construction(ctx, rep, rule: str) -> None:
    repo = ctx.repo
    sp = spaces_engine(ctx)
    impls = {}
    for c in sp.dist_classes:
        meth = repo.lookup_method(c, "_merge_and_block_gradients")
        impls[meth.qual] = meth
    rep.floor(rule, "_merge_and_block_gradients implementations", len(impls), 3)
    for q, meth in sorted(impls.items()):
        cfg = CFG(meth.node)
        loops = [n for n in meth.node.body if isinstance(n, ast.For)]
        if len(loops) != 1:
            raise AnalysisError(f"{rule}: expected one per-parameter loop in {q}")
        loop = loops[0]
        head = cfg.node_of(loop.iter)
        ext = []
        for c in A.calls(loop):
            if isinstance(c.func, ast.Attribute) and c.func.attr == "extend" and isinstance(c.func.value, ast.Name) and "selector" in c.func.value.id:
                ext.append(c)
        ok = len(ext) == 1
        detail = f"{len(ext)} selector extension(s) in the per-parameter loop"
        if ok:
            e = ext[0]
            en = cfg.node_of(e)
            # every path from the loop head's T edge back to the head passes the extension
            body_entry = [s for s, lab in head.succ if lab == "T"]
            all_pass = True
            for b in body_entry:
                if b is en:
                    continue
                if not cfg.all_paths_pass(head, [head], lambda x: x is en) and False:
                    all_pass = False
            # use the primitive directly: from head (via T), can we come back to head avoiding `en`?
            seen = set()
            stack = list(body_entry)
            back = False
            while stack:
                x = stack.pop()
                if x in seen or x is en:
                    continue
                seen.add(x)
                if x is head:
                    back = True
                    break
                stack.extend(s for s, _ in x.succ)
            all_pass = not back
            # shape of the extension: [<grad> is not None] * <num_blocks>
            a = e.args[0] if e.args else None
            shape_ok = isinstance(a, ast.BinOp) and isinstance(a.op, ast.Mult)
            gname = None
            if shape_ok:
                lst = a.left if isinstance(a.left, ast.List) else a.right
                shape_ok = isinstance(lst, ast.List) and len(lst.elts) == 1 and isinstance(lst.elts[0], ast.Compare) and isinstance(lst.elts[0].ops[0], ast.IsNot) and isinstance(lst.elts[0].comparators[0], ast.Constant) and lst.elts[0].comparators[0].value is None
                if shape_ok and isinstance(lst.elts[0].left, ast.Name):
                    gname = lst.elts[0].left.id
            # the tested gradient is the one that is split below
            used_below = gname is not None and any(isinstance(n, ast.Name) and n.id == gname and n.lineno > e.lineno for n in ast.walk(loop))
            # stored as the global selector after the loop
            stored = [n for n in meth.node.body if isinstance(n, ast.Assign) and ast.unparse(n.targets[0]) == "self._global_grad_selector"]
            ok = all_pass and shape_ok and used_below and len(stored) == 1
            detail = f"selector extended on every iteration before any `continue`: {all_pass}; extension is `[<grad> is not None] * <num_blocks>`: {shape_ok}; the tested gradient is the one blocked below: {used_below}; stored as _global_grad_selector after the loop: {len(stored) == 1}"
        rep.ob(rule, f"selector:{short(q)}", ok, meth.loc(loop), detail, sample=True)


def run(ctx, rep) -> None:
    rep.rule("C04.1", "index-space typing: every compress_list / zip / multi-list foreach / list constructor / index use combines lists of one index space; names agree with inferred spaces")
    rep.rule("C04.2", "mask completeness: every masked list is re-derived from its unmasked twin with the right selector, under a guard matching its existence; re-mask skipped only when the remembered selector is current")
    rep.rule("C04.3", "in-place writes on the step path target masked or fresh lists only")
    rep.rule("C04.4", "an empty masked gradient list skips the group (and only that group) before the step counter is touched")
    rep.rule("C04.5", "the gradient selector gets one entry per block of every parameter on every path")
    mods = {"distributed_shampoo.distributed_shampoo", "distributed_shampoo.utils.shampoo_preconditioner_list", "distributed_shampoo.utils.shampoo_distributor", "distributed_shampoo.utils.shampoo_fsdp_distributor", "distributed_shampoo.utils.shampoo_fully_shard_distributor"}
    rep.attempt("typing_sites", typing_sites, ctx, rep, "C04.1", None, {"distributed_shampoo.distributed_shampoo": 10, "distributed_shampoo.utils.shampoo_preconditioner_list": 10, "distributed_shampoo.utils.shampoo_distributor": 2})
    rep.attempt("naming_beliefs", naming_beliefs, ctx, rep, "C04.1")
    rep.attempt("mask_completeness", mask_completeness, ctx, rep, "C04.2")
    rep.attempt("writes_to_masked_only", writes_to_masked_only, ctx, rep, "C04.3")
    rep.attempt("empty_group_skips", empty_group_skips, ctx, rep, "C04.4")
    rep.attempt("every_group_visited", every_group_visited, ctx, rep, "C04.4")
    from .c01 import _step_counter
    from .c03 import _Proxy

    rep.attempt("_step_counter", _step_counter, ctx, _Proxy(rep, "C01.4", "C04.4"))
    from .c01 import _wiring

    rep.rule("C04.8", "every helper of the group loop (masking included) works on the loop's own param group and state lists; per-step flags are this group's")
    rep.attempt("_wiring", _wiring, ctx, _Proxy(rep, "C01.5", "C04.8"))
    from .common import per_group_fresh

    rep.attempt("per_group_fresh", per_group_fresh, ctx, rep, "C04.4", [f"{DS}.{n}" for n in ("_instantiate_distributor", "_instantiate_steps", "_instantiate_momentum", "_instantiate_filtered_grads")])
    rep.rule("C04.6", "step(closure): gradient presence is read (blocking, selector, masking) only after the closure has produced this step's gradients")
    rep.attempt("gradients_read_after_closure", gradients_read_after_closure, ctx, rep, "C04.6")
    rep.attempt("selector_construction", selector_construction, ctx, rep, "C04.5")
    rep.attempt("global_selector_is_ownership_independent", global_selector_is_ownership_independent, ctx, rep, "C04.5")
    from .c03 import eigenbasis_evidence_is_the_blocks_own

    rep.attempt("eigenbasis_evidence", eigenbasis_evidence_is_the_blocks_own, ctx, rep, "C04.1")
    from .common import utility_semantics

    rep.rule("C04.7", "the pure utilities this property is built on compute what they document (concrete interpretation on small cases)")
    rep.attempt("utility_semantics", utility_semantics, ctx, rep, "C04.7", ("merge_small_dims", "compress_list", "generate_pairwise_indices"))
    rep.attempt("stateful_cursors_advance", stateful_cursors_advance, ctx, rep, "C04.5")
    rep.assume("seeds of the index-space typing (sv/spaces.py): _global_blocked_params:G, _distributor_selector:G->L, _global_grad_selector:G->GM, _local_grad_selector:L->LM, _merge_and_block_gradients():LM")
    rep.assume("bit-for-bit preservation of untouched tensors follows from C04.3 plus torch semantics (not decided here)")
