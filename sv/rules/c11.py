"""C11 — eigen inverse root is SPD and finite on degenerate input (guard part only).

C11.1 shape rejection dominates every solver call (incl. the diagonal fast path) in matrix_inverse_root, and likewise in
      matrix_eigenvectors / check_diagonal; `root <= 0 => raise` dominates the power in the diagonal and eigen routines;
C11.2 shift-then-regularise-then-power: on both enhance_stability branches every eigenvalue l of the input is mapped to
      l - min(lambda_min, 0) + epsilon before the power (scalar shadow of the eigenvalue update interpreted on a grid that
      covers every linear piece); lambda_min comes from the same eigenvalue tensor;
C11.3 double-precision retry: the handler retries eigh on A.double() only under retry_double_precision and a non-float64
      dtype, otherwise re-raises (no swallowed exception).
"""

from __future__ import annotations

import ast
import itertools

from .. import astutil as A
from ..cfg import CFG
from ..guards import MISSING, Interp, Raised, Unsupported
from ..loader import AnalysisError
from .c06 import _norm

MF = "matrix_functions"


def shape_guards(ctx, rep, rule: str) -> None:
    repo = ctx.repo
    for name, solver_pred in (
        ("matrix_inverse_root", lambda d: d.startswith(f"{MF}._matrix_inverse_root")),
        ("matrix_eigenvectors", lambda d: d in (f"{MF}.matrix_eigenvalue_decomposition", f"{MF}._compute_orthogonal_iterations", "torch.eye")),
        ("check_diagonal", lambda d: False),
    ):
        fi = repo.func(f"{MF}:{name}")
        m = fi.module
        cfg = CFG(fi.node)
        tests = [t for t in cfg.nodes if t.kind == "test"]
        def find(pred):
            return [t for t in tests if pred(A.tnorm(A.expanded(fi.node, t.ast.test))) and any(isinstance(s, ast.Raise) and "ValueError" in _norm(s) for s in t.ast.body)]
        two_d = find(lambda s: ".ndim != 2" in s)  # tensor-normal text: len(A.shape) / A.dim() / A.ndim are one spelling
        square = find(lambda s: "[0] != " in s and "[1]" in s)
        targets = [cfg.node_of(c) for c in A.calls(fi.node) if solver_pred(A.callee_name(repo, m, c))]
        if name == "check_diagonal":
            targets = [n for n in cfg.nodes if n.kind == "stmt" and isinstance(n.ast, ast.Return)]
        ok = len(two_d) == 1 and len(square) == 1 and bool(targets) and all(cfg.dominates(two_d[0], t) and cfg.dominates(square[0], t) for t in targets)
        rep.ob(rule, f"shape-rejection-dominates:{name}", ok, fi.loc(), f"`not 2-D => ValueError` ({len(two_d)}) and `not square => ValueError` ({len(square)}) lie on every path to the {len(targets)} solver call(s) / result(s), including the diagonal fast path", sample=True)
        if name != "check_diagonal":
            scalar = [t for t in tests if "numel" in _norm(t.ast.test) and any(isinstance(s, ast.Return) for s in t.ast.body) and two_d and cfg.dominates(t, two_d[0])]
            ok = len(scalar) == 1
            detail = "a 1-element input of any shape is answered before the shape rejection"
            if ok:
                # the fast-path test must hold exactly for 1-element inputs: interpret it on shape stubs
                import math
                from types import SimpleNamespace

                bad = []
                for shape in [(), (1,), (1, 1), (1, 1, 1), (3,), (2,), (2, 3), (3, 3), (2, 2, 2), (0,), (5, 1)]:
                    stub = SimpleNamespace(shape=shape, ndim=len(shape), _numel=math.prod(shape))

                    def hook(interp, call, stub=stub):
                        d = _norm(call.func)
                        if d in ("torch.numel", "numel") and call.args:
                            return stub._numel
                        if d.replace(":", ".").endswith(".numel"):
                            return stub._numel
                        if d.replace(":", ".").endswith(".dim") or d.replace(":", ".").endswith(".ndimension"):
                            return stub.ndim
                        if d.replace(":", ".").endswith(".size") and not call.args:
                            return stub.shape
                        return MISSING

                    try:
                        got = bool(Interp({"A": stub}, call_hook=hook).ev(scalar[0].ast.test))
                    except Unsupported as u:
                        raise AnalysisError(f"{rule}: 1-element test outside the sub-language: {u}") from u
                    if got != (stub._numel == 1):
                        bad.append((shape, got))
                ok = not bad
                detail += f"; the test `{_norm(scalar[0].ast.test)}` must hold exactly for inputs with one element (interpreted on 11 shapes)" + (f": shape {bad[0][0]} gives {bad[0][1]} — a multi-element input that is not a square matrix would escape the rejection" if bad else "")
            rep.ob(rule, f"one-element-input-handled-first:{name}", bool(ok), fi.loc(), detail, sample=True)
    for name in ("_matrix_inverse_root_diagonal", "_matrix_inverse_root_eigen"):
        fi = repo.func(f"{MF}:{name}")
        cfg = CFG(fi.node)
        g = [t for t in cfg.nodes if t.kind == "test" and _norm(t.ast.test) in ("root <= 0", "not root > 0", "0 >= root") and any(isinstance(s, ast.Raise) and "ValueError" in _norm(s) for s in t.ast.body)]
        pw = [cfg.node_of(c) for c in A.calls(fi.node, nested=True) if isinstance(c.func, ast.Attribute) and c.func.attr == "pow"]
        ok = len(g) == 1 and pw and all(cfg.dominates(g[0], p) for p in pw if p is not None)
        rep.ob(rule, f"positive-root-guard-dominates-power:{name}", bool(ok), fi.loc(), "`root <= 0 => ValueError` precedes the power")


def eigen_shift(ctx, rep, rule: str) -> None:
    repo = ctx.repo
    fi = repo.func(f"{MF}:_matrix_inverse_root_eigen")
    m = fi.module
    # statements between the decomposition and the power, interpreted on scalars:
    # L stands for one eigenvalue of the decomposed matrix, lambda_min for its smallest eigenvalue.
    body = fi.node.body
    dec = [i for i, s in enumerate(body) if isinstance(s, ast.Assign) and isinstance(s.value, ast.Call) and A.callee_name(repo, m, s.value) == f"{MF}.matrix_eigenvalue_decomposition"]
    powi = [i for i, s in enumerate(body) if any(isinstance(c.func, ast.Attribute) and c.func.attr == "pow" for c in A.calls(s, nested=True))]
    if len(dec) != 1 or not powi:
        raise AnalysisError(f"{rule}: decomposition / power not found in _matrix_inverse_root_eigen")
    d = body[dec[0]]
    lname = d.targets[0].elts[0].id if isinstance(d.targets[0], ast.Tuple) else None
    decomposed = _norm(d.value.args[0]) if d.value.args else None
    mid = body[dec[0] + 1 : powi[0]]
    # plain aliases of the eigenvalue tensor (`x = L`; an in-place update through x updates L: same tensor object) are
    # folded into L before the scalar walk, which would otherwise treat them as separate numbers
    import copy as _copy

    from ..canon import _Rename

    aliases = {s.targets[0].id for s in mid if isinstance(s, ast.Assign) and len(s.targets) == 1 and isinstance(s.targets[0], ast.Name) and isinstance(s.value, ast.Name) and s.value.id == lname}
    if aliases:
        mid = [s for s in mid if not (isinstance(s, ast.Assign) and len(s.targets) == 1 and isinstance(s.targets[0], ast.Name) and s.targets[0].id in aliases and isinstance(s.value, ast.Name))]
        mid = [_Rename({a: lname for a in aliases}).visit(_copy.deepcopy(s)) for s in mid]
    # which matrix is decomposed on each branch (ridge or raw)?
    ridge_defs = {}
    for s in A.walk_no_nested(fi.node):
        if isinstance(s, ast.If) and _norm(s.test) == "enhance_stability":
            for br, val in ((s.body, True), (s.orelse, False)):
                for x in br:
                    if isinstance(x, ast.Assign) and isinstance(x.targets[0], ast.Name) and x.targets[0].id == decomposed:
                        ridge_defs[val] = _norm(x.value)
    # lambda_min must be the minimum of the same eigenvalue tensor
    lm = [s for s in mid if isinstance(s, ast.Assign) and isinstance(s.targets[0], ast.Name) and isinstance(s.value, ast.Call) and A.callee_name(repo, m, s.value) == "torch.min"]
    lm_ok = len(lm) == 1 and _norm(lm[0].value.args[0]) == lname
    rep.ob(rule, "lambda-min-from-same-eigenvalues", lm_ok, fi.loc(lm[0]) if lm else fi.loc(), f"the shift uses torch.min({lname}) of the eigenvalues that are powered")
    lmin_name = lm[0].targets[0].id if lm else "lambda_min"

    def hook(interp, call):
        d_ = A.callee_name(repo, m, call)
        if d_ == "torch.minimum":
            return min(interp.ev(call.args[0]), interp.ev(call.args[1]))
        if d_ == "torch.maximum":
            return max(interp.ev(call.args[0]), interp.ev(call.args[1]))
        if d_ == "torch.as_tensor":
            return interp.ev(call.args[0])
        if d_ == "torch.min":
            return interp.env["__min__"]
        return MISSING

    bad = []
    n = 0
    grid_m = [-2.0, -0.5, -0.1, 0.0, 0.3, 2.0]
    grid_e = [0.05, 0.25, 1.0, 3.0]
    for enh, mm, gap, e in itertools.product([False, True], grid_m, [0.0, 0.4, 5.0], grid_e):
        l_raw = mm + gap  # an eigenvalue of the *input* A; mm is A's smallest eigenvalue
        has_ridge = "epsilon" in ridge_defs.get(enh, "")
        shift = e if has_ridge else 0.0
        env = {"enhance_stability": enh, "epsilon": e, lname: l_raw + shift, "__min__": mm + shift}
        it = Interp(env, call_hook=hook)
        try:
            it.run([s for s in mid if not (isinstance(s, ast.Expr) and isinstance(s.value, ast.Constant))], lambda x: ast.unparse(x))
        except Unsupported as u:
            raise AnalysisError(f"{rule}: eigenvalue update outside the scalar sub-language: {u}") from u
        got = it.env[lname]
        want = l_raw - min(mm, 0.0) + e
        n += 1
        if abs(got - want) > 1e-12:
            bad.append((enh, mm, l_raw, e, got, want))
    rep.ob(
        rule,
        "eigenvalues-shifted-then-regularised",
        not bad,
        fi.loc(mid[0]) if mid else fi.loc(),
        f"scalar shadow of the eigenvalue update on {n} (enhance_stability, lambda_min, lambda, epsilon) grid points covering lambda_min <, =, > 0 and epsilon <, > |lambda_min|: every eigenvalue must become lambda - min(lambda_min, 0) + epsilon (>= epsilon > 0) on both branches (decomposed matrix: {ridge_defs})"
        + (f"; first disagreement: enhance_stability={bad[0][0]}, lambda_min={bad[0][1]}, lambda={bad[0][2]}, epsilon={bad[0][3]} -> code {bad[0][4]:.4g}, documented {bad[0][5]:.4g}" if bad else ""),
        sample=True,
    )
    # the powered operand is the updated eigenvalue tensor, exponent -1/root
    pc = [c for c in A.calls(body[powi[0]], nested=True) if isinstance(c.func, ast.Attribute) and c.func.attr == "pow"]
    ok = len(pc) == 1 and _norm(pc[0].func.value) == lname and "-1.0 / root" in _norm(pc[0].args[0])
    rep.ob(rule, "power-of-updated-eigenvalues", ok, fi.loc(body[powi[0]]), f"X = Q diag({lname} ** (-1/root)) Q^T uses the shifted eigenvalues and the exponent -1/root")


def retry_rule(ctx, rep, rule: str) -> None:
    """The except-handler of the decomposition, walked for all four (flag, dtype-is-float64) cases: it retries eigh on the
    double-precision copy exactly for (flag set, dtype not float64) and re-raises in the other three."""
    repo = ctx.repo
    fi = repo.func(f"{MF}:matrix_eigenvalue_decomposition")
    m = fi.module
    tries = [n for n in A.walk_no_nested(fi.node) if isinstance(n, ast.Try)]
    if len(tries) != 1 or len(tries[0].handlers) != 1:
        rep.ob(rule, "retry-or-reraise", False, fi.loc(), f"{len(tries)} try statement(s) / handlers: expected one try with one handler around eigh")
        return
    h = tries[0].handlers[0]
    flag_params = [p for p in fi.params if p == "retry_double_precision"]
    if not flag_params:
        raise AnalysisError("matrix_eigenvalue_decomposition has no retry_double_precision parameter")
    atoms = set()
    for n in ast.walk(ast.Module(body=h.body, type_ignores=[])):
        if isinstance(n, ast.If):
            atoms |= A.test_atoms(n.test)
    dtype_atoms = [a for a in atoms if "float64" in a and "dtype" in a]
    flag_atoms = [a for a in atoms if a == "retry_double_precision"]
    bad = []
    n_cases = 0
    for flag in (True, False):
        for is64 in (True, False):
            val = {a: is64 for a in dtype_atoms} | {a: flag for a in flag_atoms}
            stmts, end = A.walk_path(h.body, val)
            retried = any(A.callee_name(repo, m, c) == "torch.linalg.eigh" and c.args and A.tnorm(c.args[0]) == "A.to(dtype=torch.float64)" for s in stmts for c in A.calls(s))
            want_retry = flag and not is64
            n_cases += 1
            if want_retry and not (retried and end == "end"):
                bad.append(f"flag set, dtype {'float64' if is64 else 'lower'}: expected a retry on A.double(), handler ends with {end} (retried={retried})")
            if not want_retry and not (end == "raise" and not retried):
                bad.append(f"flag {'set' if flag else 'unset'}, dtype {'float64' if is64 else 'lower'}: expected a re-raise, handler ends with {end} (retried={retried})")
    rep.ob(rule, "retry-or-reraise", not bad and h.name is not None, fi.loc(tries[0]), f"handler walked for {n_cases} (flag, dtype) cases: retry on A.double() only with the flag and a non-float64 dtype, re-raise otherwise" + (": " + "; ".join(bad[:2]) if bad else ""), sample=True)


def decomposition_outputs_consistent(ctx, rep, rule: str) -> None:
    """Eigenvalues and eigenvectors leave matrix_eigenvalue_decomposition through the same conversion (same device / dtype
    arguments), so that after a double-precision retry they still have one dtype and can be combined."""
    repo = ctx.repo
    fi = repo.func(f"{MF}:matrix_eigenvalue_decomposition")
    rets = [n for n in A.walk_no_nested(fi.node) if isinstance(n, ast.Return)]
    ok = len(rets) == 1 and isinstance(rets[0].value, ast.Tuple) and len(rets[0].value.elts) == 2
    detail = "single `return <eigenvalues>, <eigenvectors>`"
    if ok:
        def conv(e):
            if isinstance(e, ast.Call) and isinstance(e.func, ast.Attribute) and isinstance(e.func.value, ast.Name):
                return e.func.value.id, e.func.attr, tuple(_norm(a) for a in e.args), tuple(sorted((k.arg, _norm(k.value)) for k in e.keywords))
            if isinstance(e, ast.Name):
                return e.id, None, (), ()
            return None, None, (), ()
        a, b = conv(rets[0].value.elts[0]), conv(rets[0].value.elts[1])
        binds = [n.targets[0] for n in ast.walk(fi.node) if isinstance(n, ast.Assign) and isinstance(n.value, ast.Call) and "eigh" in _norm(n.value.func) and isinstance(n.targets[0], ast.Tuple)]
        names = {tuple(x.id for x in t.elts if isinstance(x, ast.Name)) for t in binds}
        ok = a[1:] == b[1:] and len(names) == 1 and (a[0], b[0]) == next(iter(names))
        detail = f"returns `{_norm(rets[0].value)}`: both outputs of eigh in (eigenvalues, eigenvectors) order through the same conversion: {ok}"
    rep.ob(rule, "decomposition-outputs-share-dtype-and-device", ok, fi.loc(rets[0]) if rets else fi.loc(), detail, sample=True)


def run(ctx, rep) -> None:
    rep.attempt("decomposition_outputs_consistent", decomposition_outputs_consistent, ctx, rep, "C11.3")
    rep.rule("C11.1", "shape rejection dominates every solver / fast path; positive-root guard dominates the power")
    rep.rule("C11.2", "every eigenvalue is shifted by -min(lambda_min, 0) and regularised by +epsilon before the power, on both enhance_stability branches")
    rep.rule("C11.3", "decomposition failure: retry in double precision only under the flag and a non-float64 dtype, otherwise re-raise")
    rep.attempt("shape_guards", shape_guards, ctx, rep, "C11.1")
    rep.attempt("eigen_shift", eigen_shift, ctx, rep, "C11.2")
    rep.attempt("retry_rule", retry_rule, ctx, rep, "C11.3")
    from .arith import eigen_root_arithmetic

    rep.rule("C11.4", "assembly of the eigen inverse root from the shifted eigenvalues: X = (Q * lambda^(-1/root)) @ Q^T with the decomposed matrix being A (or A + eps I) (exact term comparison)")
    rep.attempt("eigen_root_arithmetic", eigen_root_arithmetic, ctx, rep, "C11.4")
    from .common import tensor_arguments_are_inputs

    rep.rule("C11.5", "the eigen solver is a function of its tensor arguments: no in-place operation lands in the caller's matrix (the ridge is formed out of place)")
    rep.attempt("tensor_arguments_are_inputs", tensor_arguments_are_inputs, ctx, rep, "C11.5")
    from .common import memoised_results_are_read_only

    rep.attempt("memoised_results_are_read_only", memoised_results_are_read_only, ctx, rep, "C11.5")
    from .c10 import dispatch_rules

    rep.rule("C11.6", "the eigen solver is reached with the matrix, the rational root and epsilon it was asked for (dispatch forwards root, not a part of it)")
    rep.attempt("dispatch_rules", dispatch_rules, ctx, rep, "C11.6")
    from .c12 import defaults_agree_with_configs

    rep.attempt("defaults_agree_with_configs", defaults_agree_with_configs, ctx, rep, "C11.3")
    rep.assume("finiteness, symmetry, the eigenvalue bound, commutation and equivariance of the result are numerical and NOT decided; C11.2 decides the scalar recurrence applied to each eigenvalue")
