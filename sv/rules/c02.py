"""C02 — warm-up equals the grafted optimizer; later its norm is kept (structural part).

C02.1 grafting table: (config class -> list class, beta2, epsilon, bias correction) by first-match evaluation of the dispatch;
C02.2 phase switch: use_grafting_method == (step < start and grafting configured) on the incremented group step;
C02.3 both methods precondition the same input; the Shampoo result is rescaled in place by ||graft|| / (||shampoo|| + tiny);
      the grafting accumulator is updated on every step in which grafting is configured;
C02.4 the warm-up direction is not post-processed (no rescaling when use_grafting_method).
"""

from __future__ import annotations

import ast
import itertools
from types import SimpleNamespace

from .. import astutil as A
from ..cfg import CFG
from ..dispatch import body_raises, find_chains, first_match, unknown_subclasses_rejected
from ..guards import MISSING, Interp, Raised, Unsupported
from ..loader import AnalysisError
from .c01 import ROLES, eval_conds, guard_conditions, schedule_expr_check
from .common import DS, short

TYPES = "distributed_shampoo.shampoo_types"


class ClsTok:
    def __init__(self, ci) -> None:
        self.ci = ci

    def __repr__(self) -> str:
        return self.ci.name


def grafting_table(ctx, rep, rule: str) -> None:
    repo = ctx.repo
    fi = repo.method(DS, "_instantiate_grafting")
    m = fi.module
    chains = find_chains(repo, m, fi.node)
    if len(chains) != 1:
        raise AnalysisError(f"{rule}: expected one dispatch chain in _instantiate_grafting, found {len(chains)}")
    chain = chains[0]
    toks: dict[str, ClsTok] = {}

    def tok(ci):
        return toks.setdefault(ci.qual, ClsTok(ci))

    base = repo.cls(f"{TYPES}:GraftingConfig")
    want = {
        "SGDGraftingConfig": ("SGDPreconditionerList", None, None, None),
        "AdaGradGraftingConfig": ("AdagradPreconditionerList", 1.0, "<cfg.epsilon>", False),
        "RMSpropGraftingConfig": ("AdagradPreconditionerList", "<cfg.beta2>", "<cfg.epsilon>", False),
        "AdamGraftingConfig": ("AdagradPreconditionerList", "<cfg.beta2>", "<cfg.epsilon>", True),
    }
    n = 0
    for ci in [None] + repo.concrete_subclasses(base):
        arm = first_match(repo, chain, ci)
        name = ci.name if ci else None
        if arm is None:
            rep.ob(rule, f"grafting:{name}", False, fi.loc(), f"no arm handles {name}")
            continue
        n += 1
        if ci is None:
            val = [s for s in arm.body if isinstance(s, ast.Assign)]
            ok = len(val) == 1 and isinstance(val[0].value, ast.Constant) and val[0].value.value is None
            rep.ob(rule, "grafting:None", ok, fi.loc(arm.node), "no grafting config => no grafting list (None)", sample=True)
            continue
        raised = body_raises(repo, m, arm.body)
        if name not in want:
            rep.ob(rule, f"grafting:{name}", raised == "NotImplementedError", fi.loc(arm.node), f"config class {name} has no documented mapping: must raise NotImplementedError (got {raised or 'a payload'})")
            continue
        calls = [s.value for s in arm.body if isinstance(s, ast.Assign) and isinstance(s.value, ast.Call)]
        if raised is not None or len(calls) != 1:
            rep.ob(rule, f"grafting:{name}", False, fi.loc(arm.node), f"arm for {name} does not construct a list (raises {raised})")
            continue
        call = calls[0]
        d = repo.dotted_of(m, call.func)
        lc = repo.class_by_dotted(d) if d else None
        cfg = SimpleNamespace(beta2="<cfg.beta2>", epsilon="<cfg.epsilon>")
        cfg_tok = tok(ci)

        def hook(interp, c):
            if isinstance(c.func, ast.Name) and c.func.id == "type" and len(c.args) == 1:
                v = interp.ev(c.args[0])
                return cfg_tok if v is cfg else MISSING
            return MISSING

        def resolve(nm):
            dd = repo.resolve_dotted(m, nm)
            k = repo.class_by_dotted(dd)
            if k is not None:
                return tok(k)
            ok_, v = repo.const_by_dotted(dd)
            if ok_:
                return v
            raise Unsupported(nm)

        env = {"group": {"grafting_config": cfg}}
        # the loop variable holding the param group
        from .c01 import _group_loop_var

        env = {_group_loop_var(fi): {"grafting_config": cfg}}
        it = Interp(env, resolve_name=resolve, call_hook=hook)
        got = {}
        try:
            # locals that merely name a sub-expression of the group (e.g. `grafting_config = group[GRAFTING_CONFIG]`)
            for nm in sorted({n.id for k in call.keywords for n in ast.walk(k.value) if isinstance(n, ast.Name)} - set(env)):
                defs = A.assignments_to(fi.node, nm)
                if len(defs) == 1:
                    try:
                        it.env[nm] = it.ev(defs[0])
                    except (Unsupported, Raised):
                        pass
            for kw in ("beta2", "epsilon", "use_bias_correction"):
                v = A.keyword(call, kw)
                got[kw] = it.ev(v) if v is not None else None
        except (Unsupported, Raised) as u:
            rep.ob(rule, f"grafting:{name}", False, fi.loc(call), f"the (beta2, epsilon, bias-correction) payload for {name} must be a function of the grafting config alone; `{ast.unparse(A.keyword(call, kw))[:110]}` depends on something else ({u})")
            continue
        w = want[name]
        ok = lc is not None and lc.name == w[0] and (w[1] is None or (got["beta2"] == w[1] and got["epsilon"] == w[2] and got["use_bias_correction"] is w[3]))
        rep.ob(rule, f"grafting:{name}", ok, fi.loc(call), f"{name} -> {lc.name if lc else '?'}(beta2={got['beta2']!r}, epsilon={got['epsilon']!r}, use_bias_correction={got['use_bias_correction']!r}); documented: {w[0]}(beta2={w[1]!r}, epsilon={w[2]!r}, use_bias_correction={w[3]!r})", sample=True)
    last = chain[-1]
    rep.ob(rule, "grafting:fall-through", last.kind == "else" and body_raises(repo, m, last.body) == "NotImplementedError", fi.loc(last.node), "unsupported grafting configs reach `raise NotImplementedError`")
    bad = unknown_subclasses_rejected(repo, m, chain, repo.concrete_subclasses(base))
    rep.ob(rule, "grafting:unknown-subclasses-rejected", not bad, fi.loc(), "a grafting config of an unknown subclass must raise NotImplementedError (its extra semantics are not implemented)" + (f": {bad[:3]}" if bad else ""))
    rep.floor(rule, "_instantiate_grafting arms evaluated", n, 5)


def graft_dataflow(ctx, rep, rule3: str, rule4: str) -> None:
    repo = ctx.repo
    pts = ctx.engine("pts")
    fi = repo.method(DS, "_precondition_and_grafting")
    m = fi.module
    cfg = CFG(fi.node)
    formal = "masked_filtered_grad_list"
    pre = [c for c in A.calls(fi.node, nested=True) if isinstance(c.func, ast.Attribute) and c.func.attr == "precondition"]
    def slot(c):
        return A.subscript_key(repo, m, c.func.value)[1]
    graft = [c for c in pre if slot(c) == "grafting_preconditioner_list"]
    shamp = [c for c in pre if slot(c) == "shampoo_preconditioner_list"]
    rep.floor(rule3, "precondition calls in _precondition_and_grafting", len(pre), 3)
    same_in = all(isinstance(A.keyword(c, "masked_grad_list") or (c.args[0] if c.args else None), ast.Name) and (A.keyword(c, "masked_grad_list") or c.args[0]).id == formal for c in pre)
    rep.ob(rule3, "same-input-to-both-methods", same_in and len(graft) == 2 and len(shamp) == 1, fi.loc(), f"grafting ({len(graft)} call(s)) and Shampoo ({len(shamp)} call(s)) precondition the same `{formal}`", sample=True)
    # warm-up branch returns the grafted direction untouched; Shampoo branch rescales in place
    writes = sorted([w for w in pts.writes if w.func == fi.qual], key=lambda w: w.node.lineno)
    mul = [w for w in writes if w.op.endswith("_foreach_mul_")]
    div = [w for w in writes if w.op.endswith("_foreach_div_")]
    ok = len(mul) == 1 and len(div) == 1
    detail = f"{len(mul)} in-place multiply / {len(div)} in-place divide"
    if ok:
        mulc, divc = mul[0].node, div[0].node
        dirs = mulc.args[0].id if isinstance(mulc.args[0], ast.Name) else None
        factor = mulc.args[1].id if len(mulc.args) > 1 and isinstance(mulc.args[1], ast.Name) else None
        num = divc.args[0].id if isinstance(divc.args[0], ast.Name) else None
        den = divc.args[1].id if len(divc.args) > 1 and isinstance(divc.args[1], ast.Name) else None
        def norm_of(var):
            ds = A.assignments_to(fi.node, var)
            if len(ds) == 1 and isinstance(ds[0], ast.Call) and A.callee_name(repo, m, ds[0]) == "torch._foreach_norm" and ds[0].args:
                return ds[0].args[0]
            return None
        nn, dn = norm_of(num) if num else None, norm_of(den) if den else None
        # the Shampoo result variable: bound from the shampoo precondition call in the same branch as the rescale
        shampoo_var = None
        st = A.stmt_of(fi.node, shamp[0]) if shamp else None
        if isinstance(st, ast.Assign) and isinstance(st.targets[0], ast.Name):
            shampoo_var = st.targets[0].id
        num_is_graft = nn is not None and any(nn is g or any(x is g for x in ast.walk(nn)) for g in graft)
        den_is_shampoo = isinstance(dn, ast.Name) and dn.id == shampoo_var
        ok = factor == num and dirs == shampoo_var and num_is_graft and den_is_shampoo and cfg.dominates(cfg.node_of(divc), cfg.node_of(mulc))
        detail = f"`{dirs}` (Shampoo result: {dirs == shampoo_var}) is multiplied in place by `{factor}`, which was divided in place by `{den}`; numerator is the norm of the grafted direction: {num_is_graft}; denominator is the norm of the Shampoo direction: {den_is_shampoo}; divide precedes multiply"
        # C02.4 / guard of the rescale
        conds = guard_conditions(cfg, cfg.node_of(mulc))
        bad = []
        for ug, gn in itertools.product([True, False], repeat=2):
            try:
                fires = eval_conds(conds, {"use_grafting_method": ug, "grafting_config_not_none": gn})
            except Unsupported as u:
                raise AnalysisError(f"{rule4}: rescale guard outside the sub-language: {u}") from u
            if fires != ((not ug) and gn):
                bad.append((ug, gn, fires))
        rep.ob(rule4, "rescale-only-after-warm-up", not bad, fi.loc(mulc), "the norm rescaling runs iff not use_grafting_method and grafting is configured (the warm-up direction is returned as computed)" + (f"; disagreement at (use_grafting_method, grafting configured)={bad[0][:2]}" if bad else ""), sample=True)
        # which list is preconditioned in which phase
        gc = [c for c in graft if not any(c is x for x in ast.walk(nn))] if nn is not None else graft
        ok_phase = False
        if gc and shamp:
            cg, cs = guard_conditions(cfg, cfg.node_of(gc[0])), guard_conditions(cfg, cfg.node_of(shamp[0]))
            ok_phase = all(eval_conds(cg, {"use_grafting_method": ug, "grafting_config_not_none": True}) == ug and eval_conds(cs, {"use_grafting_method": ug, "grafting_config_not_none": True}) == (not ug) for ug in (True, False))
        rep.ob(rule4, "phase-selects-method", ok_phase, fi.loc(), "use_grafting_method => direction from the grafting list; otherwise from the Shampoo list")
    rep.ob(rule3, "norm-transfer-roles", ok, fi.loc(mul[0].node) if mul else fi.loc(), detail, sample=True)
    # grafting accumulator updated on every step in which grafting is configured
    up = repo.func(ROLES["UPD"])
    ucfg = CFG(up.node)
    for c in A.calls(up.node):
        if isinstance(c.func, ast.Attribute) and c.func.attr == "update_preconditioners":
            key = A.subscript_key(repo, up.module, c.func.value)[1]
            conds = guard_conditions(ucfg, ucfg.node_of(c))
            names = set().union(*[A.names_in(t) for t, _ in conds]) if conds else set()
            if key == "grafting_preconditioner_list":
                ok = names == {"grafting_config_not_none"} and eval_conds(conds, {"grafting_config_not_none": True}) and not eval_conds(conds, {"grafting_config_not_none": False})
                rep.ob(rule3, "grafting-accumulator-updated-every-step", ok, up.loc(c), f"the grafting list's update is guarded by {sorted(names)}; it must depend on `grafting_config_not_none` only (a guard on the phase would freeze the accumulator after warm-up)", sample=True)
            elif key == "shampoo_preconditioner_list":
                rep.ob(rule3, "shampoo-update-unconditional", not conds, up.loc(c), "the Shampoo list's update_preconditioners runs on every step (also during warm-up, so factors are ready at start_preconditioning_step)")


def run(ctx, rep) -> None:
    rep.rule("C02.1", "grafting dispatch: config class -> (list class, beta2, epsilon, bias correction) as documented; first-match over the real MRO")
    rep.rule("C02.2", "use_grafting_method == (incremented step < start_preconditioning_step and grafting configured)")
    rep.rule("C02.3", "both methods precondition the same input; Shampoo result *= ||graft|| / (||shampoo|| + tiny); grafting accumulator updated whenever grafting is configured")
    rep.rule("C02.4", "no rescaling in warm-up; the phase flag selects which list produces the direction")
    rep.attempt("grafting_table", grafting_table, ctx, rep, "C02.1")
    from .c01 import _wiring
    from .c03 import _Proxy

    rep.rule("C02.7", "every per-step hyperparameter and flag of the group step is computed from this step's param group and bound to the formal of the same meaning")
    rep.attempt("_wiring", _wiring, ctx, _Proxy(rep, "C01.5", "C02.7"))
    from .c04 import _change_guards
    from .c05 import blocks_are_views

    rep.rule("C02.8", "the masked lists the step works on are re-derived whenever the set of gradients changes (guard on the selector, never on a count)")
    rep.attempt("_change_guards", _change_guards, ctx, rep, "C02.8")
    rep.rule("C02.9", "the blocks the update is applied to are views of the parameters (no possibly-copying operation between a parameter and its blocks)")
    rep.attempt("blocks_are_views", blocks_are_views, ctx, rep, "C02.9")
    from .common import per_group_fresh

    rep.rule("C02.6", "the phase switch is per group: each group owns its step counter and grafting state (objects created per group)")
    rep.attempt("per_group_fresh", per_group_fresh, ctx, rep, "C02.6", [f"{DS}.{n}" for n in ("_instantiate_grafting", "_instantiate_steps", "_instantiate_shampoo_preconditioner_list")])
    step = ctx.repo.method(DS, "step")
    rep.attempt("schedule_expr_check", schedule_expr_check, ctx, rep, "C02.2", step, "use_grafting_method", lambda s, a, f, env: s < a and next(iter(v for k, v in env.items() if isinstance(v, dict)))["grafting_config"] is not None, "step < start and grafting_config is not None", extra_env={"__graft__": [None, "cfg"]})
    rep.attempt("graft_dataflow", graft_dataflow, ctx, rep, "C02.3", "C02.4")
    from .arith import adagrad_arithmetic, step_arithmetic

    rep.rule("C02.5", "arithmetic of the grafted method: V <- V + G^2 | beta2*V + (1-beta2)*G^2, bias_correction2 = 1 - beta2^step, direction = G / (sqrt(V/bias_correction2) + eps); norm transfer P * ||graft|| / (||P|| + tiny) inside the group step (exact term comparison)")
    rep.attempt("adagrad_arithmetic", adagrad_arithmetic, ctx, rep, "C02.5")
    rep.attempt("step_arithmetic", step_arithmetic, ctx, rep, "C02.5")
    rep.assume("equality of trajectories with torch.optim.* is implied only up to floating-point evaluation order: C02.5 proves the formulas equal as rational functions, not the rounding")
    from .c01 import _step_counter
    from .c03 import _Proxy
    from .c16 import in_place_loading

    rep.rule("C02.10", "the step count the phase switch and the bias corrections read is the number of group steps taken: a counted step runs the group step; restoring a checkpoint copies into the tensors the step reads (the counter included), never replaces them")
    rep.attempt("_step_counter", _step_counter, ctx, _Proxy(rep, "C01.4", "C02.10"))
    rep.attempt("in_place_loading", in_place_loading, ctx, rep, "C02.10")
    from .common import gradients_are_inputs

    rep.attempt("gradients_are_inputs", gradients_are_inputs, ctx, rep, "C02.4")
    from .c04 import global_selector_is_ownership_independent

    rep.attempt("global_selector", global_selector_is_ownership_independent, ctx, rep, "C02.8")

