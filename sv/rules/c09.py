"""C09 — checkpoint save/restore resumes the exact trajectory (completeness and strictness part).

C09.1 persistence completeness: everything assigned or written in place on the step path is optimizer state (reachable
      from self.state, hence saved), or a derived cache listed with a reason and a checked side-condition;
C09.2 every allocate_zeros_tensor result is stored under self.state; the step counter is registered per group;
C09.3 load strictness: every membership test between the optimizer's keys and the loaded keys raises on the missing side
      (default flags); no loop over the current state is left early; silent skips are reported;
C09.4 writer/reader key-set agreement for leaf-less entries (see C16.5);
C09.5 param-group key = sorted parameter names; every group field except PARAMS is saved and the same set restored.
"""

from __future__ import annotations

import ast

from .. import astutil as A
from ..cfg import CFG
from ..loader import AnalysisError
from ..pointsto import GRAD, PARAM, STATE_ROOT
from .c01 import _step_counter
from .c06 import _norm
from .c16 import in_place_loading, leafless_not_required
from .common import CKPT_MOD, DS, ENTRY_POINTS, callgraph_dominated, loop_var_leak, per_group_fresh, short

OM = "optimizer_modules:OptimizerModule"

# attributes / slots assigned on the step path that are NOT in the checkpoint, each with the reason it need not be
DERIVED_CACHES = {
    "state_lists[masked_blocked_grads]": "this step's gradient blocks; rebuilt at the start of every step",
    "state_lists[previous_grad_selector]": "initialised to None, so the first step after a restore re-masks everything",
    "state_lists[masked_blocked_params]": "pure function of the distributor's blocks and the selector; rebuilt on selector change",
    "state_lists[masked_filtered_grad_list]": "re-mask of the (checkpointed) filtered-gradient tensors",
    "state_lists[masked_momentum_list]": "re-mask of the (checkpointed) momentum tensors",
    "self._global_grad_selector": "recomputed from gradient presence at every step",
    "self._previous_global_grad_selector": "initialised to None: first step after a restore recomputes the masks",
    "self._local_grad_selector": "compress of the global selector by the (deterministic) distributor selector",
    "self._local_masked_blocked_params": "re-mask of parameter views",
    "self._global_masked_blocked_params": "re-mask of parameter views",
    "self._global_masked_dist_blocked_buffers": "re-mask of communication-buffer views (overwritten before read in every step)",
    "self._local_masked_dist_blocked_buffers": "re-mask of communication-buffer views (overwritten before read in every step)",
    "self._masked_preconditioner_list": "re-mask of checkpointed tensors",
    "self._masked_order_list": "re-mask of constructor-derived metadata",
    "self._masked_root_list": "re-mask of constructor-derived metadata",
    "self._masked_local_index_list": "re-mask of constructor-derived metadata",
    "self._masked_kronecker_factors_list": "re-mask of views of checkpointed tensors",
    "self._masked_preconditioned_dims_selector_list": "re-mask of constructor-derived metadata",
    "self._bias_correction2": "recomputed from the (checkpointed) step counter in update_preconditioners before every use",
    "self._local_failed_amortized_computation_counter_list[]": "consecutive-failure counter: affects behaviour only under fault sequences, outside C09's quantifier (recorded as an assumption)",
}


INSTANTIATORS = ("_instantiate_distributor", "_instantiate_shampoo_preconditioner_list", "_instantiate_grafting", "_instantiate_steps", "_instantiate_momentum", "_instantiate_filtered_grads")


def bias_correction_every_step(ctx, rep, rule: str) -> None:
    """`_bias_correction2 = 1 - beta2**step` is recomputed on EVERY update_preconditioners call from beta2 and the step argument
    only (the eigenvalue-corrected list divides by it on every step, a restored optimizer has the initial value)."""
    repo = ctx.repo
    # _bias_correction2 side-condition: a function of beta2 and the step argument only
    for cq in ("distributed_shampoo.utils.shampoo_preconditioner_list:AdagradPreconditionerList", "distributed_shampoo.utils.shampoo_preconditioner_list:BaseShampooPreconditionerList"):
        fi = repo.meth(repo.cls(cq), "update_preconditioners")
        asg = [n for n in A.walk_no_nested(fi.node) if isinstance(n, ast.Assign) and _norm(n.targets[0]) == "self._bias_correction2"]
        ok = len(asg) == 1 and (A.names_in(asg[0].value) - {"torch", "self"}) == {"step"} and "self._beta2" in _norm(asg[0].value)
        # ... on EVERY call: the only conditions it may depend on are the (constructor-fixed) bias-correction flag and beta2 —
        # under any per-step condition (e.g. only on refresh steps) a freshly restored object would use the initial value
        dep = []
        if ok:
            c2 = CFG(fi.node)
            for t, lab in c2.branch_conditions(c2.node_of(asg[0])):
                if t.kind != "test":
                    dep.append("loop")
                    continue
                attrs = {x.attr for x in ast.walk(t.ast.test) if isinstance(x, ast.Attribute)}
                if (A.names_in(t.ast.test) - {"self"}) or not attrs <= {"_use_bias_correction", "_beta2"}:
                    dep.append(_norm(t.ast.test))
        ok = ok and not dep
        rep.ob(rule, f"cache-side-condition:{short(fi.qual)}._bias_correction2", ok, fi.loc(asg[0]) if asg else fi.loc(), "the bias-correction cache is recomputed from beta2 and the step counter only, on every call" + (f"; it is recomputed only under `{dep[0]}`: on other steps a restored optimizer uses the initial value" if dep else ""))


def persistence(ctx, rep, rule: str) -> None:
    repo = ctx.repo
    pts = ctx.engine("pts")
    kinds = pts.state_kinds()
    step_funcs = {q for q in pts.reachable_funcs([f"{DS}.step"]) if q in repo.funcs}
    init_only = {q for q in step_funcs if callgraph_dominated(pts, q, f"{DS}.__init__", ENTRY_POINTS)}
    n = 0
    for q in sorted(step_funcs - init_only):
        fi = repo.funcs[q]
        if fi.module.name.startswith("matrix_functions") or fi.module.name.endswith("shampoo_utils"):
            continue
        for node in A.walk_no_nested(fi.node):
            tgts = []
            if isinstance(node, ast.Assign):
                tgts = node.targets
            elif isinstance(node, (ast.AnnAssign, ast.AugAssign)):
                tgts = [node.target]
            for tg in tgts:
                name = None
                if isinstance(tg, ast.Attribute) and isinstance(tg.value, ast.Name) and tg.value.id == "self":
                    name = f"self.{tg.attr}"
                elif isinstance(tg, ast.Subscript):
                    nm, key = A.subscript_key(repo, fi.module, tg)
                    if nm == "state_lists" and isinstance(key, str):
                        name = f"state_lists[{key}]"
                    elif isinstance(tg.value, ast.Attribute) and isinstance(tg.value.value, ast.Name) and tg.value.value.id == "self":
                        name = f"self.{tg.value.attr}[]"
                if name is None:
                    continue
                n += 1
                ok = name in DERIVED_CACHES
                rep.ob(rule, f"carried:{name}", ok, fi.loc(node), f"`{name}` is assigned in {short(q)} on the step path" + (f"; derived cache: {DERIVED_CACHES[name]}" if ok else " — it carries information from one step to the next but is neither optimizer state (self.state) nor a listed derived cache: the checkpoint does not contain it"), sample=(n % 6 == 0))
    rep.floor(rule, "assignments on the step path", n, 15)
    bias_correction_every_step(ctx, rep, rule)
    from .c03 import eigenbasis_evidence_is_the_blocks_own

    rep.attempt("eigenbasis_evidence", eigenbasis_evidence_is_the_blocks_own, ctx, rep, rule)
    # in-place writes on the step path hit state, parameters, gradients, communication buffers or fresh tensors only
    ds_objs = pts.objects_of_class(DS)
    persistent: set = set()
    seen: set = set()
    stack = list(ds_objs)
    by_obj: dict = {}
    for (o, f), vals in pts.heap.items():
        by_obj.setdefault(o, []).append(vals)
    while stack:
        o = stack.pop()
        if o in seen:
            continue
        seen.add(o)
        if o[0] == "T":
            persistent.add(o)
            continue
        for vals in by_obj.get(o, []):
            for v in vals:
                if v[0] in ("T", "C", "O", "P"):
                    stack.append(v)
    comm = set()
    for c in repo.classes.values():
        comm |= pts.tensors(pts.attr(c.qual, "_global_dist_buffer"))
    unsaved = persistent - set(kinds) - {PARAM, GRAD} - comm
    m = 0
    for w in pts.writes:
        if w.func not in step_funcs or w.func in init_only:
            continue
        hit = set(w.dst) & unsaved
        m += 1
        if hit and not (set(w.dst) & set(kinds)):  # (a destination that may also be saved state is a may-alias artefact, not a second allocation)
            sites = sorted(str(t[1][0]) if isinstance(t[1], tuple) else str(t[1]) for t in hit)
            rep.ob(rule, f"unsaved-write:{short(w.func)}:{w.op.replace('torch.', '')}", False, w.where, f"in-place `{w.op}` on the step path updates a long-lived tensor (allocated at {sites}) that is not reachable from self.state: a resumed run would start from its initial value")
    rep.ob(rule, "in-place-writes-hit-saved-state-only", True, "distributed_shampoo/distributed_shampoo.py", f"{m} in-place write sites on the step path examined; long-lived tensors outside self.state (excluding parameters, gradients, communication buffers): {len(unsaved)}", sample=True)
    rep.assume("the consecutive-failure counter of C13 is not checkpointed; it matters only under fault sequences, which C09 does not quantify over")


def allocations_stored(ctx, rep, rule: str) -> None:
    repo = ctx.repo
    pts = ctx.engine("pts")
    kinds = pts.state_kinds()
    n = 0
    for fi in list(repo.funcs.values()):
        if fi.module.name not in ("distributed_shampoo.distributed_shampoo", "distributed_shampoo.utils.shampoo_preconditioner_list") or fi.parent is not None:
            continue
        for c in A.calls(fi.node, nested=True):
            if isinstance(c.func, ast.Attribute) and c.func.attr == "allocate_zeros_tensor":
                ts = pts.tensors(pts.expr(fi.qual, c))
                if not ts:
                    continue
                n += 1
                missing = [t for t in ts if t not in kinds]
                rep.ob(rule, f"allocated-state-is-stored:{short(fi.qual)}:{_norm(A.keyword(c, 'size'))[:30]}", not missing, fi.loc(c), f"tensors allocated by `{_norm(c)[:70]}` must be reachable from self.state (saved kinds: {sorted(set().union(*[kinds.get(t, set()) for t in ts]))})", sample=(n % 3 == 0))
    rep.floor(rule, "allocate_zeros_tensor call sites", n, 6)


def working_copies_alias_state(ctx, rep, rule: str) -> None:
    """The tensors the step path works on (per-block Kronecker factor lists, Adagrad accumulators, momentum / filtered
    gradient lists) must BE the tensors under self.state, not possibly-copied derivations of them (`.to(...)`, `.float()`,
    `.contiguous()`, `.reshape(...)`, `.clone()` may or do copy): a copy is updated by the steps while the checkpoint keeps
    saving the untouched original."""
    repo = ctx.repo
    pts = ctx.engine("pts")
    kinds = pts.state_kinds()
    by_obj: dict = {}
    for (o, f), vals in pts.heap.items():
        by_obj.setdefault(o, []).append((f, vals))

    def deep(vals):
        out, seen, st = set(), set(), list(vals)
        while st:
            o = st.pop()
            if o in seen:
                continue
            seen.add(o)
            if o[0] == "T":
                out.add(o)
            elif o[0] in ("C", "O"):
                for _, vs in by_obj.get(o, []):
                    st.extend(vs)
        return out

    def site(t):
        return str(t[1][0]) if isinstance(t[1], tuple) else str(t[1])

    def owner_name(t):
        loc = site(t).split(":")
        for fi in repo.funcs.values():
            if fi.relpath == loc[0] and getattr(fi.node, "lineno", 0) <= int(loc[1]) <= (getattr(fi.node, "end_lineno", 0) or 0):
                if not any(g is not fi and g.relpath == loc[0] and fi.node.lineno < g.node.lineno and (g.node.end_lineno or 0) >= int(loc[1]) >= g.node.lineno for g in repo.funcs.values()):
                    return fi.name
        return "?"

    PL = "distributed_shampoo.utils.shampoo_preconditioner_list:"
    targets = [(PL + "ShampooPreconditionerList", "_local_kronecker_factors_list"), (PL + "EigenvalueCorrectedShampooPreconditionerList", "_local_kronecker_factors_list"), (PL + "AdagradPreconditionerList", "_local_preconditioner_list")]
    n = 0
    for cq, attr in targets:
        ts = deep(pts.attr(cq, attr))
        # the per-factor diagonal flags default to fresh `torch.tensor(True)` in the dataclass's __post_init__ when the given tuple is empty
        foreign = sorted({site(t) for t in ts if t not in kinds and owner_name(t) != "__post_init__"})
        n += len(ts)
        rep.ob(rule, f"working-copies-are-state:{cq.split(':')[1]}.{attr}", bool(ts) and not foreign, repo.cls(cq).module.relpath, f"{len(ts)} tensor(s) reachable from `{attr}`: all must be tensors stored under self.state" + (f"; also reachable: tensor(s) created at {foreign[:3]} — a possibly-copying conversion (`.to` / `.float` / `.reshape` / `.clone` ...) of the stored tensor; the steps would update the copy, the checkpoint the original" if foreign else ""), sample=True)
    # momentum / filtered-gradient lists of the optimizer
    for fname, key in (("_instantiate_momentum", "momentum_list"), ("_instantiate_filtered_grads", "filtered_grad_list")):
        fi = repo.method(DS, fname)
        vals = set()
        for node in A.walk_no_nested(fi.node):
            if isinstance(node, ast.Assign) and isinstance(node.targets[0], ast.Subscript):
                nm, k = A.subscript_key(repo, fi.module, node.targets[0])
                if k == key:
                    vals |= set(pts.expr(fi.qual, node.value))
        ts = deep(vals)
        foreign = sorted({site(t) for t in ts if t not in kinds})
        n += len(ts)
        rep.ob(rule, f"working-copies-are-state:state_lists[{key}]", bool(ts) and not foreign, fi.loc(), f"{len(ts)} tensor(s) in state_lists[{key}]: all must be tensors stored under self.state" + (f"; also: {foreign[:3]}" if foreign else ""), sample=True)
    rep.floor(rule, "working tensors examined", n, 20)


def load_strictness(ctx, rep, rule: str) -> None:
    repo = ctx.repo
    load = repo.method(DS, "load_distributed_state_dict")
    up = repo.func(f"{CKPT_MOD}:update_param_state_dict_object")
    om_load = A.worker(repo, repo.meth(repo.cls(OM), "load_state_dict"))
    n = 0
    for fi in (load, up, om_load):
        cfg = CFG(fi.node)
        # (a) `X not in Y` tests: must raise (under the default strict flag)
        for t in [x for x in A.walk_no_nested(fi.node) if isinstance(x, ast.If)]:
            c = t.test
            if isinstance(c, ast.Compare) and len(c.ops) == 1 and isinstance(c.ops[0], ast.NotIn):
                n += 1
                raises = [s for s in ast.walk(ast.Module(body=t.body, type_ignores=[])) if isinstance(s, ast.Raise)]
                # strict flag default True must select the raise
                ok = bool(raises)
                flag_ifs = [s for s in t.body if isinstance(s, ast.If) and isinstance(s.test, ast.Name)]
                for fif in flag_ifs:
                    fname = fif.test.id
                    a = fi.node.args
                    names = [x.arg for x in a.args]
                    dflt = dict(zip(names[len(names) - len(a.defaults) :], a.defaults))
                    d = dflt.get(fname)
                    ok = ok and isinstance(d, ast.Constant) and d.value is True and any(isinstance(s, ast.Raise) for s in fif.body)
                leaf_skip = any(isinstance(s, ast.If) and "flatten(" in _norm(s.test) for s in t.body)
                if not raises and all(isinstance(s, (ast.Continue, ast.Pass)) for s in t.body) and ("new_state" in _norm(c) or "to_load" in _norm(c)):
                    # the loop spelling of the silent filter `… for k, v in old.items() if k in new_state` — the same finding, the same key
                    pos = ast.Compare(left=c.left, ops=[ast.In()], comparators=c.comparators)
                    rep.ob(rule, f"silent-skip:{short(fi.qual)}:{_norm(pos)}", False, fi.loc(t), f"entries of the current state whose key is not in the loaded state are skipped silently (`if {_norm(c)}: continue`, no raising alternative): a checkpoint lacking e.g. inv_factor_matrices loads 'successfully' and resumes with zero roots")
                    continue
                rep.ob(rule, f"missing-key-raises:{short(fi.qual)}:{_norm(c)}", ok, fi.loc(t), f"`if {_norm(c)}` must raise with default flags ({[_norm(r.exc.func) if isinstance(r.exc, ast.Call) else _norm(r.exc) for r in raises]})" + ("; leaf-less values are exempt (C09.4)" if leaf_skip else ""), sample=True)
        # (b) `if key in new_state` filters without a raising alternative: silent skip
        for comp in [x for x in ast.walk(fi.node) if isinstance(x, (ast.DictComp, ast.ListComp, ast.GeneratorExp, ast.SetComp))]:
            for g in comp.generators:
                for cond in g.ifs:
                    if isinstance(cond, ast.Compare) and len(cond.ops) == 1 and isinstance(cond.ops[0], ast.In) and ("new_state" in _norm(cond) or "to_load" in _norm(cond)):
                        n += 1
                        rep.ob(rule, f"silent-skip:{short(fi.qual)}:{_norm(cond)}", False, fi.loc(comp), f"entries of the current state whose key is not in the loaded state are skipped silently by the filter `if {_norm(cond)}` (no raising alternative): a checkpoint lacking e.g. inv_factor_matrices loads 'successfully' and resumes with zero roots")
        # (c) loops over the current state must not be left early
        for loop in [x for x in A.walk_no_nested(fi.node) if isinstance(x, ast.For)]:
            it = _norm(loop.iter)
            if not (it.endswith(".items()") or "param_groups" in it):
                continue
            early = [s for s in ast.walk(ast.Module(body=loop.body, type_ignores=[])) if isinstance(s, (ast.Return, ast.Break)) and fi.module is not None and repo.owner(s) is fi]
            n += 1
            rep.ob(rule, f"no-early-exit:{short(fi.qual)}:for-{it}", not early, fi.loc(loop), f"the loop over `{it}` must visit every entry (exits: raise / continue only); found {[type(s).__name__ + '@' + str(s.lineno) for s in early]}" + (" — the remaining entries would be left at their initial values" if early else ""), sample=True)
    rep.floor(rule, "load-path membership tests / loops", n, 8)
    # group count mismatch raises ValueError
    want_atom = A.atom_key(ast.parse("len(self.param_groups) == len(state_dict['param_groups'])", mode="eval").body)[0]
    cnt = [t for t in A.walk_no_nested(load.node) if isinstance(t, ast.If) and A.atom_key(ast.parse(A.expanded(load.node, t.test), mode="eval").body) == (want_atom, False)]
    ok = len(cnt) == 1 and any(isinstance(s, ast.Raise) and "ValueError" in _norm(s) for s in cnt[0].body)
    rep.ob(rule, "group-count-mismatch-raises", ok, load.loc(cnt[0]) if cnt else load.loc(), "a different number of param groups raises ValueError")


def group_fields(ctx, rep, rule: str) -> None:
    repo = ctx.repo
    key = repo.method(DS, "_construct_param_group_key")
    # decided by concrete interpretation: for every order of the group's parameters (and names that sort differently from their
    # positions, plus names of parameters outside the group) the key is "/".join(sorted(names of the group's parameters))
    import itertools

    from ..guards import Interp, Raised, Returned, Unsupported
    from .c17 import _module_const_resolver

    res = _module_const_resolver(repo, key.module)
    body = [s_ for s_ in key.node.body if not (isinstance(s_, ast.Expr) and isinstance(s_.value, ast.Constant))]
    gp, mp = [p_ for p_ in key.params if p_ not in ("self", "cls")][:2]
    names = {"P0": "w.b", "P1": "a.z", "P2": "a.b", "P3": "zz"}
    bad, n_cases = [], 0
    for k in (1, 2, 3):
        for order in itertools.permutations(["P0", "P1", "P2"], k):
            n_cases += 1
            group = {res("PARAMS"): list(order), "lr": 0.1}
            try:
                Interp({gp: group, mp: dict(names)}, resolve_name=res).run(body, lambda e_: ast.unparse(e_))
                got = None
            except Returned as r_:
                got = r_.value
            except Raised as r_:
                got = f"raise {r_.exc_name}"
            except Unsupported as u:
                raise AnalysisError(f"{rule}: _construct_param_group_key outside the interpreted sub-language: {u}") from u
            parts = sorted(names[o] for o in order)
            okc = isinstance(got, str) and any(got == sep.join(parts) for sep in ("/", "|", ",", ";", "//", "::")) if k > 1 else got == parts[0]
            if not okc and len(bad) < 2:
                bad.append((order, got))
    ok = not bad
    rets = [n for n in A.walk_no_nested(key.node) if isinstance(n, ast.Return)]
    rep.ob(rule, "group-key-is-sorted-parameter-names", ok, key.loc(), f"param-group key on {n_cases} concrete groups (every order of 1-3 parameters whose names sort differently from their positions; other parameters present in the name map) must be the joined *sorted* names of the group's parameters only" + (f"; for parameter order {bad[0][0]} the code gives {bad[0][1]!r}" if bad else ""))
    sd = repo.method(DS, "distributed_state_dict")
    comps = [n for n in ast.walk(sd.node) if isinstance(n, ast.DictComp) and _norm(n.generators[0].iter) == "group.items()"]
    ok = len(comps) == 1 and [_norm(c) for c in comps[0].generators[0].ifs] == ["k != PARAMS"] and _norm(comps[0].key) == "k" and "deepcopy(v)" in _norm(comps[0].value)
    rep.ob(rule, "all-group-fields-saved", ok, sd.loc(), "every field of a param group except PARAMS is saved (deep-copied)", sample=True)
    ld = repo.method(DS, "load_distributed_state_dict")
    # `for g in self.param_groups: ... for k, v in <saved groups>[<key of g>].items(): g[k] = deepcopy(v)` — names are free
    asg = []
    for n in A.walk_no_nested(ld.node):
        if isinstance(n, ast.Assign) and isinstance(n.targets[0], ast.Subscript) and isinstance(n.targets[0].value, ast.Name):
            loops = A.enclosing_loops(ld.node, n)
            if len(loops) == 2 and isinstance(loops[0].target, ast.Name) and loops[0].target.id == n.targets[0].value.id and A.expanded(ld.node, loops[0].iter) == "self.param_groups":
                asg.append((n, loops))
    ok = len(asg) == 1
    if ok:
        n, loops = asg[0]
        tg = loops[1].target
        kv = [x.id for x in tg.elts] if isinstance(tg, ast.Tuple) and len(tg.elts) == 2 and all(isinstance(x, ast.Name) for x in tg.elts) else [None, None]
        src = A.expanded(ld.node, loops[1].iter)
        ok = _norm(n.targets[0].slice) == kv[0] and _norm(n.value) == f"deepcopy({kv[1]})" and src.startswith("state_dict['param_groups'][") and src.endswith("].items()")
    asg = [a for a, _ in asg]
    rep.ob(rule, "all-saved-group-fields-restored", ok, ld.loc(asg[0]) if asg else ld.loc(), "every saved field of the matching group is restored into the optimizer's group")
    # state saved for every parameter through extract + flatten
    comps = [n for n in ast.walk(sd.node) if isinstance(n, ast.DictComp) and "self.state.items()" in _norm(n)]
    ok = len(comps) == 1 and _norm(comps[0].value) == "flatten(extract_state_dict_content(param_state))" and not comps[0].generators[0].ifs
    rep.ob(rule, "state-of-every-parameter-saved", ok, sd.loc(), "the saved state is flatten(extract_state_dict_content(state)) for every parameter in self.state, unfiltered", sample=True)
    # writer and reader agree on what a default call saves / restores
    def defaults(fi):
        a = fi.node.args
        names = [x.arg for x in a.args]
        d = dict(zip(names[len(names) - len(a.defaults):], a.defaults))
        d.update({k.arg: v for k, v in zip(a.kwonlyargs, a.kw_defaults) if v is not None})
        return {k: (v.value if isinstance(v, ast.Constant) else _norm(v)) for k, v in d.items()}
    dw, dr = defaults(sd), defaults(ld)
    shared = sorted(set(dw) & set(dr))
    bad = [k for k in shared if dw[k] != dr[k]]
    ok = "save_param_groups" in shared and not bad and dr.get("save_param_groups") is True and dr.get("enable_missing_key_check", True) is True
    rep.ob(rule, "writer-reader-defaults-agree", ok, ld.loc(), f"defaults of the save/load entry points: writer {dw}, reader {dr}: a default load must restore (and cross-check) what a default save wrote, strictly" + (f"; differing: {bad}" if bad else ""), sample=True)
    upd = [c for c in A.calls(ld.node) if A.callee_name(repo, ld.module, c).endswith("update_param_state_dict_object")]
    ok = len(upd) == 1 and _norm(upd[0].args[0]) == "self.state[param]" and _norm(upd[0].args[1]) == "unflatten(param_state)"
    rep.ob(rule, "state-loaded-in-place-from-unflattened", ok, ld.loc(upd[0]) if upd else ld.loc(), "load updates self.state[param] in place from unflatten(saved state)")


MUTATORS = ("append", "extend", "insert", "update", "setdefault", "pop", "popitem", "clear", "add", "remove", "discard", "__setitem__")


def save_reads_live_state(ctx, rep, rule: str) -> None:
    """A checkpoint describes the optimizer *now*: the saving entry points may not carry anything from one call to the
    next.  The only channels inside the class are instance / class attributes and memoising decorators, so: no save
    routine (nor a helper of the class it calls) stores into an attribute of `self` that a save routine also reads, and
    none is wrapped in a cache decorator."""
    repo = ctx.repo
    pts = ctx.engine("pts")
    roots = [repo.method(DS, n) for n in ("distributed_state_dict", "state_dict") if repo.lookup_method(repo.cls(DS), n) is not None and repo.lookup_method(repo.cls(DS), n).qual.startswith(DS.split(":")[0])]
    rep.floor(rule, "save entry points of the optimizer", len(roots), 1)
    seen, todo = {}, list(roots)
    while todo:
        fi = todo.pop()
        if fi.qual in seen:
            continue
        seen[fi.qual] = fi
        for c in A.calls(fi.node):
            for q in pts.callees(fi.qual, c):
                g = repo.funcs.get(q)
                if g is not None and g.qual.split(".")[0] == fi.qual.split(".")[0] and g.name not in ("__init__",):
                    todo.append(g)
    def root_attr(e):
        while isinstance(e, (ast.Subscript, ast.Attribute)):
            if isinstance(e, ast.Attribute) and isinstance(e.value, ast.Name) and e.value.id == "self":
                return e.attr
            e = e.value
        return None
    for fi in seen.values():
        written, read = {}, set()
        for n in ast.walk(fi.node):
            if isinstance(n, (ast.Assign, ast.AugAssign, ast.AnnAssign)):
                for t in (n.targets if isinstance(n, ast.Assign) else [n.target]):
                    for t1 in (t.elts if isinstance(t, (ast.Tuple, ast.List)) else [t]):
                        a = root_attr(t1)
                        if a is not None:
                            written.setdefault(a, n)
            elif isinstance(n, ast.Call) and isinstance(n.func, ast.Attribute) and n.func.attr in MUTATORS:
                a = root_attr(n.func.value)
                if a is not None:
                    written.setdefault(a, n)
            elif isinstance(n, ast.Attribute) and isinstance(n.ctx, ast.Load) and isinstance(n.value, ast.Name) and n.value.id == "self":
                read.add(n.attr)
        allread = set().union(*[{x.attr for x in ast.walk(g.node) if isinstance(x, ast.Attribute) and isinstance(x.ctx, ast.Load) and isinstance(x.value, ast.Name) and x.value.id == "self"} for g in seen.values()])
        carried = sorted(a for a in written if a in allread)
        rep.ob(rule, f"save-carries-nothing-between-calls:{fi.name}", not carried, fi.loc(written[carried[0]]) if carried else fi.loc(), f"`{fi.name}` is on the save path; attributes of self it stores into and the save path reads back: {carried or 'none'}" + (" — a later checkpoint would contain what an earlier call recorded, not the live value" if carried else ""), sample=True)
        cached = [d for d in fi.decorators if d.split(".")[-1] in ("cache", "lru_cache", "cached_property")] if hasattr(fi, "decorators") else []
        rep.ob(rule, f"save-not-memoised:{fi.name}", not cached, fi.loc(), f"decorators of `{fi.name}`: {getattr(fi, 'decorators', [])}")


def run(ctx, rep) -> None:
    rep.rule("C09.7", "a checkpoint is computed from the live optimizer at the time of the call: the save path keeps no memo on the instance (nothing it stores into self is read back by a later save) and is not wrapped in a cache")
    rep.attempt("save_reads_live_state", save_reads_live_state, ctx, rep, "C09.7")
    rep.rule("C09.1", "everything carried across steps is optimizer state or a listed derived cache; in-place writes on the step path hit saved state only")
    rep.rule("C09.2", "every allocated state tensor is stored under self.state, and the tensors the steps work on are those very tensors (no possibly-copying conversion in between); the step counter is registered per group inside the group loop")
    rep.rule("C09.3", "load path: missing keys raise, loops over the current state are not left early, silent skips are reported")
    rep.rule("C09.4", "leaf-less entries are dropped by the writer and not required by the reader")
    rep.rule("C09.5", "param-group key and saved/restored group fields")
    rep.attempt("persistence", persistence, ctx, rep, "C09.1")
    rep.attempt("allocations_stored", allocations_stored, ctx, rep, "C09.2")
    rep.attempt("working_copies_alias_state", working_copies_alias_state, ctx, rep, "C09.2")
    from .c03 import _Proxy

    rep.attempt("_step_counter", _step_counter, ctx, _Proxy(rep, "C01.4", "C09.2"))
    rep.attempt("loop_var_leak", loop_var_leak, ctx, rep, "C09.2", [f"{DS}.{n}" for n in ("_instantiate_steps", "_instantiate_momentum", "_instantiate_filtered_grads")])
    rep.attempt("per_group_fresh", per_group_fresh, ctx, rep, "C09.2", [f"{DS}.{n}" for n in INSTANTIATORS])
    rep.attempt("load_strictness", load_strictness, ctx, rep, "C09.3")
    rep.attempt("leafless_not_required", leafless_not_required, ctx, rep, "C09.4")
    rep.rule("C09.6", "nested module state is loaded by key: tensors copied in place, sequence entries looked up by their index, dict entries by their key (a missing entry raises instead of shifting or truncating the rest)")
    rep.attempt("in_place_loading", in_place_loading, ctx, rep, "C09.6")
    from .c16 import module_round_trip

    rep.attempt("module_round_trip", module_round_trip, ctx, rep, "C09.6")
    rep.attempt("group_fields", group_fields, ctx, rep, "C09.5")
    rep.assume("bit-for-bit trajectory equality after resume is NOT decided (needs execution); the rules decide that what the continuation depends on is saved and that loading is strict")
