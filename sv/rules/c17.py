"""C17 — the constructor accepts exactly the documented hyperparameter domain.

C17.1 accept-set equality of the guard prefix of DistributedShampoo.__init__ and of the config __post_init__ chains
      (guard interpreter over region representatives incl. NaN, one- and two-at-a-time);
C17.2 -1 substitutions happen before the dependent guard and the *resolved* values are what is stored; every
      hyperparameter reaches the defaults dict under its own key;
C17.3 no state is created before the last guard;
C17.4 the three config-type dispatch chains cover every concrete config class with the right payload and fall
      through to NotImplementedError.
"""

from __future__ import annotations

import ast
import itertools
import math
from types import SimpleNamespace

from .. import astutil as A
from ..dispatch import body_raises, find_chains, first_match, unknown_subclasses_rejected
from ..guards import MISSING, Interp, Raised, Unsupported, region_reps
from ..loader import AnalysisError

DS = "distributed_shampoo.distributed_shampoo:DistributedShampoo"
TYPES = "distributed_shampoo.shampoo_types"


def _is_value_error(repo, m, name: str) -> bool:
    if name == "ValueError":
        return True
    d = repo.resolve_dotted(m, name)
    ci = repo.class_by_dotted(d)
    return ci is not None and any(b.endswith("ValueError") for k in repo.mro(ci) for b in k.base_exprs)


def _baseline() -> dict:
    return dict(
        params="<params>",
        lr=0.011,
        betas=(0.91, 0.92),
        beta3=0.93,
        epsilon=1e-3,
        momentum=0.4,
        dampening=0.3,
        weight_decay=0.2,
        max_preconditioner_dim=17,
        precondition_frequency=3,
        start_preconditioning_step=7,
        inv_root_override=0,
        use_nesterov=False,
        use_bias_correction=True,
        use_decoupled_weight_decay=True,
        grafting_config=None,
        use_merge_dims=True,
        shampoo_pt2_compile_config=None,
        distributed_config=None,
        preconditioner_dtype="<dtype>",
        preconditioner_config=SimpleNamespace(ignored_dims=[]),
    )


def _oracle(env: dict) -> bool:
    b1, b2 = env["betas"][0], env["betas"][1]
    ov = env["inv_root_override"]
    ok = (
        env["lr"] >= 0
        and 0 <= b1 < 1
        and 0 < b2 <= 1
        and (env["beta3"] == -1 or 0 <= env["beta3"] < 1)
        and env["epsilon"] > 0
        and 0 <= env["momentum"] < 1
        and 0 <= env["dampening"] < 1
        and env["weight_decay"] >= 0
        and env["max_preconditioner_dim"] >= 1
        and env["precondition_frequency"] >= 1
        and (env["start_preconditioning_step"] == -1 or env["start_preconditioning_step"] >= env["precondition_frequency"])
    )
    if isinstance(ov, (list, tuple)):
        ok = ok and all(e >= 0 for e in ov)
    else:
        ok = ok and ov >= 0
    if env["preconditioner_config"].ignored_dims != []:
        ok = ok and (not isinstance(ov, (list, tuple)) and ov == 0)
    return bool(ok)


def _cases() -> list[tuple[str, dict]]:
    out: list[tuple[str, dict]] = []
    fl = region_reps([-1, 0, 1])
    for name in ("lr", "beta3", "epsilon", "momentum", "dampening", "weight_decay"):
        for v in fl:
            out.append((f"{name}={v}", {name: v}))
    for v in fl:
        out.append((f"betas[0]={v}", {"betas": (v, 0.92)}))
        out.append((f"betas[1]={v}", {"betas": (0.91, v)}))
    for name in ("max_preconditioner_dim", "precondition_frequency", "start_preconditioning_step", "inv_root_override"):
        for v in region_reps([-1, 0, 1], integer=True):
            out.append((f"{name}={v}", {name: v}))
    # pairs
    for f, s in itertools.product(range(-1, 6), range(-3, 7)):
        out.append((f"precondition_frequency={f},start_preconditioning_step={s}", {"precondition_frequency": f, "start_preconditioning_step": s}))
    for b1, b3 in itertools.product([0.0, 0.5, 1.0, -0.1, math.nan], [-1.0, 0.0, 0.5, 1.0, -0.5, 1.5, math.nan]):
        out.append((f"betas[0]={b1},beta3={b3}", {"betas": (b1, 0.92), "beta3": b3}))
    # boolean switches combined with the values they interact with (a switch must not narrow the documented ranges)
    for flag in ("use_nesterov", "use_bias_correction", "use_decoupled_weight_decay", "use_merge_dims"):
        for mom, damp in itertools.product([0.0, 0.5, 0.9], [0.0, 0.5, 0.9]):
            for fv in (True, False):
                out.append((f"{flag}={fv},momentum={mom},dampening={damp}", {flag: fv, "momentum": mom, "dampening": damp}))
    seqs = [0, 1, 2, -1, [0], [2, 2], (1, 4), [], (0, 0), [1, -1], (-2,), [0, 0, 3]]
    for ig, ov in itertools.product([[], [0], [0, 1]], seqs):
        out.append((f"ignored_dims={ig},inv_root_override={ov!r}", {"preconditioner_config": SimpleNamespace(ignored_dims=list(ig)), "inv_root_override": ov}))
    for a, b in itertools.combinations(["lr", "epsilon", "momentum", "dampening", "weight_decay"], 2):
        for va, vb in itertools.product([-0.5, 0.0, 0.5, 1.0, math.nan], repeat=2):
            out.append((f"{a}={va},{b}={vb}", {a: va, b: vb}))
    return out


def _module_const_resolver(repo, m):
    def res(name: str):
        d = repo.resolve_dotted(m, name)
        ok, v = repo.const_by_dotted(d)
        if ok:
            return v
        if name in ("ValueError", "NotImplementedError"):
            return name
        raise Unsupported(f"free name {name!r}")

    return res


def run(ctx, rep) -> None:
    repo = ctx.repo
    rep.rule("C17.1", "guard chains accept exactly the documented domain (region-exhaustive incl. NaN; ValueError on rejection)")
    rep.rule("C17.2", "-1 substitutions resolved before dependent guards; resolved values stored; every hyperparameter stored under its own key")
    rep.rule("C17.3", "no optimizer state is created before the last guard")
    rep.rule("C17.4", "config-type dispatch chains cover every concrete config class with the right payload; fall-through raises NotImplementedError")
    rep.assume("Python comparison semantics on int/float (incl. NaN) — trusted base")
    init = repo.method(DS, "__init__")
    m = init.module
    body = init.node.body
    # split at the statement that calls super().__init__
    split = None
    for i, st in enumerate(body):
        for c in A.calls(st):
            f = c.func
            if isinstance(f, ast.Attribute) and f.attr == "__init__" and isinstance(f.value, ast.Call) and isinstance(f.value.func, ast.Name) and f.value.func.id == "super":
                split = (i, c)
    if split is None:
        raise AnalysisError("super().__init__ call not found in DistributedShampoo.__init__")
    prefix = [s for s in body[: split[0]] if not (isinstance(s, ast.Expr) and isinstance(s.value, ast.Constant))]
    super_call = split[1]
    res = _module_const_resolver(repo, m)
    exc_res = lambda e: ast.unparse(e)

    formal = set(init.params) - {"self"}
    base = _baseline()
    missing = formal - set(base)
    for name in missing:  # a parameter this rule has no oracle for: bind its default if constant
        a = init.node.args
        names = [x.arg for x in a.args]
        dflt = dict(zip(names[len(names) - len(a.defaults) :], a.defaults))
        if name in dflt and isinstance(dflt[name], ast.Constant):
            base[name] = dflt[name].value
        else:
            raise AnalysisError(f"constructor parameter {name!r} has no oracle entry and no constant default")
    rep.floor("C17.1", "DistributedShampoo.__init__ guards", sum(1 for s in ast.walk(init.node) if isinstance(s, ast.Raise)), 10)

    # ---------------- C17.1 / C17.2 over all cases
    n_reject = n_accept = 0
    stored_checked = 0
    # a preconditioner config reaches the constructor as its own __post_init__ left it (the documented field is a list of ints)
    pc = repo.cls(f"{TYPES}:PreconditionerConfig")
    post = [k.methods["__post_init__"] for k in reversed(repo.mro(pc)) if "__post_init__" in k.methods]
    cfg_res = _module_const_resolver(repo, pc.module)

    # the config is an instance of one of the concrete config classes (mirrored from the source): a guard that asks
    # `isinstance(preconditioner_config, …)` / `type(…) is …` is decided as Python decides it
    from ..guards import shadow_hierarchy

    cfg_shadow = shadow_hierarchy(repo, pc)
    cfg_classes = [c for c in repo.concrete_subclasses(pc)]

    def built_config(ignored: list[int], cls=None):
        ns = cfg_shadow[(cls or cfg_classes[0]).qual]()
        ns.ignored_dims, ns.num_tolerated_failed_amortized_computations, ns.amortized_computation_config = list(ignored), 3, "<config>"
        for fi in post:
            try:
                Interp({"self": ns}, resolve_name=cfg_res, call_hook=lambda i, c: None if "super()" in ast.unparse(c.func) else MISSING).run([s for s in fi.node.body if not (isinstance(s, ast.Expr) and isinstance(s.value, ast.Constant))], exc_res)
            except Unsupported as u:
                raise AnalysisError(f"C17.1: {fi.qual} uses a construct outside the validation sub-language: {u}") from u
        return ns

    # a guard that looks at a hyperparameter through a tensor of some dtype (`torch.tensor(epsilon, dtype=preconditioner_dtype)`)
    # sees the value rounded to that dtype: the dtype is part of the case, the rounding is IEEE
    from ..guards import round_to_dtype
    from ..simtensor import DTYPES, DType

    torch_ns = SimpleNamespace(**DTYPES)

    def res_t(name: str):
        if name == "torch":
            return torch_ns
        ci_ = repo.class_by_dotted(repo.resolve_dotted(m, name))
        if ci_ is not None and ci_.qual in cfg_shadow:
            return cfg_shadow[ci_.qual]
        return res(name)

    def tensor_hook(it_, c):
        f = c.func
        if isinstance(f, ast.Attribute) and isinstance(f.value, ast.Name) and f.value.id == "torch" and f.attr in ("tensor", "as_tensor", "scalar_tensor") and c.args:
            kw = {k.arg: it_.ev(k.value) for k in c.keywords if k.arg}
            dt = kw.get("dtype")
            return round_to_dtype(it_.ev(c.args[0]), dt.name if isinstance(dt, DType) else "float32")
        if isinstance(f, ast.Attribute) and f.attr in ("item", "float") and not c.args:
            v = it_.ev(f.value)
            if isinstance(v, (int, float)):
                return v
        return MISSING

    cases = list(_cases())
    for dt in ("float16", "bfloat16", "float64"):
        for v in region_reps([0]) + [1e-12, 1e-30]:
            cases.append((f"epsilon={v},preconditioner_dtype={dt}", {"epsilon": v, "preconditioner_dtype": DTYPES[dt]}))
    # the relative start-step rule for every concrete config class
    for cc in cfg_classes:
        for f_, s_ in itertools.product((1, 3, 5), (-1, 0, 1, 3, 4, 5, 7)):
            cases.append((f"preconditioner_config={cc.name},precondition_frequency={f_},start_preconditioning_step={s_}", {"precondition_frequency": f_, "start_preconditioning_step": s_, "__cfg_class__": cc}))
    for label, delta in cases:
        env = dict(base)
        delta = dict(delta)
        cfg_cls = delta.pop("__cfg_class__", None)
        env["preconditioner_config"] = built_config([], cfg_cls)
        env.update(delta)
        env["self"] = SimpleNamespace()
        want = _oracle(env)
        if "preconditioner_config" in delta:
            try:
                env["preconditioner_config"] = built_config(delta["preconditioner_config"].ignored_dims, cfg_cls)
            except Raised:
                continue  # rejected by the config class itself: the constructor is never reached with it
        it = Interp(env, resolve_name=res_t, call_hook=tensor_hook)
        try:
            it.run(prefix, exc_res)
            got, exc = True, None
        except Raised as r:
            got, exc = False, r.exc_name
        except Unsupported as u:
            raise AnalysisError(f"C17.1: guard prefix uses a construct outside the validation sub-language: {u}") from u
        ok = got == want and (got or _is_value_error(repo, m, exc))
        detail = f"case {label}: documented domain says {'accept' if want else 'reject (ValueError)'}; constructor guards {'accept' if got else 'raise ' + str(exc)}"
        key_param = "+".join(sorted("betas" if k == "betas" else k for k in delta)).replace("preconditioner_config", "ignored_dims")
        rep.ob("C17.1", f"DistributedShampoo.__init__/{key_param}/{'accept' if want else 'reject'}", ok, init.loc(), detail, sample=(n_accept + n_reject) % 97 == 0)
        n_accept += want
        n_reject += not want
        if got and want:
            # C17.2: stored values
            d = super_call.args[1] if len(super_call.args) > 1 else A.keyword(super_call, "defaults")
            if not isinstance(d, ast.Dict):
                raise AnalysisError("defaults argument of super().__init__ is not a dict display")
            try:
                stored = {it.ev(k): it.ev(v) for k, v in zip(d.keys, d.values)}
            except Unsupported as u:
                raise AnalysisError(f"C17.2: defaults dict outside the sub-language: {u}") from u
            b1 = env["betas"][0]
            expect = {
                "lr": env["lr"], "betas": env["betas"], "beta3": b1 if env["beta3"] == -1 else env["beta3"], "epsilon": env["epsilon"],
                "momentum": env["momentum"], "dampening": env["dampening"], "weight_decay": env["weight_decay"],
                "max_preconditioner_dim": env["max_preconditioner_dim"], "precondition_frequency": env["precondition_frequency"],
                "start_preconditioning_step": env["precondition_frequency"] if env["start_preconditioning_step"] == -1 else env["start_preconditioning_step"],
                "inv_root_override": env["inv_root_override"], "use_nesterov": env["use_nesterov"], "use_bias_correction": env["use_bias_correction"],
                "use_decoupled_weight_decay": env["use_decoupled_weight_decay"], "grafting_config": env["grafting_config"],
                "use_merge_dims": env["use_merge_dims"], "preconditioner_dtype": env["preconditioner_dtype"], "preconditioner_config": env["preconditioner_config"],
            }  # fmt: skip
            for k, v in expect.items():
                sv = stored.get(k, MISSING)
                same = sv is not MISSING and (sv == v or (isinstance(v, float) and isinstance(sv, float) and math.isnan(v) and math.isnan(sv)) or sv is v)
                stored_checked += 1
                if not same or stored_checked % 211 == 0:
                    rep.ob("C17.2", f"defaults[{k}]", same, init.loc(super_call), f"case {label}: defaults[{k!r}] is {('missing' if sv is MISSING else repr(sv))}, documented resolved value is {v!r}", sample=False)
    rep.notes["C17.1_cases"] = {"accept": n_accept, "reject": n_reject}
    rep.ob("C17.2", "defaults/all-keys-all-accepting-cases", True, init.loc(super_call), f"{stored_checked} (case, key) pairs compared", sample=True)

    # ---------------- C17.3
    raises_after = []
    for st in body[split[0] :]:
        for n in A.walk_no_nested(st):
            if isinstance(n, ast.Raise):
                raises_after.append(n)
    state_before = []
    for st in body[: split[0]]:
        for c in A.calls(st):
            f = c.func
            if isinstance(f, ast.Attribute) and isinstance(f.value, ast.Name) and f.value.id == "self" and f.attr.startswith("_instantiate"):
                state_before.append(c)
    rep.ob("C17.3", "DistributedShampoo.__init__/validation-precedes-construction", not raises_after and not state_before, init.loc(), f"{len(raises_after)} guard(s) after super().__init__, {len(state_before)} state-creating call(s) before it", sample=True)

    # ---------------- config __post_init__ chains
    rep.attempt("_post_init_chains", _post_init_chains, ctx, rep)
    # ---------------- C17.4
    rep.attempt("_dispatch_tables", _dispatch_tables, ctx, rep)


def _post_init_chains(ctx, rep) -> None:
    repo = ctx.repo
    specs = {
        f"{TYPES}:AdaGradGraftingConfig": (lambda s: s.epsilon > 0, {"epsilon": region_reps([0, 1])}),
        f"{TYPES}:RMSpropGraftingConfig": (lambda s: s.epsilon > 0 and 0 < s.beta2 <= 1, {"epsilon": region_reps([0, 1]), "beta2": region_reps([0, 1])}),
        f"{TYPES}:AdamGraftingConfig": (lambda s: s.epsilon > 0 and 0 < s.beta2 <= 1, {"epsilon": region_reps([0, 1]), "beta2": region_reps([0, 1])}),
        f"{TYPES}:ShampooPreconditionerConfig": (
            lambda s: s.num_tolerated_failed_amortized_computations >= 0 and len(s.ignored_dims) == len(set(s.ignored_dims)),
            {"num_tolerated_failed_amortized_computations": region_reps([0], integer=True), "ignored_dims": [[], [0], [0, 1], [1, 1], [0, 2, 0], [3]]},
        ),
        f"{TYPES}:EigenvalueCorrectedShampooPreconditionerConfig": (
            lambda s: s.num_tolerated_failed_amortized_computations >= 0 and len(s.ignored_dims) == len(set(s.ignored_dims)),
            {"num_tolerated_failed_amortized_computations": region_reps([0], integer=True), "ignored_dims": [[], [0], [0, 1], [1, 1], [0, 2, 0], [3]]},
        ),
    }
    defaults = {"epsilon": 1e-3, "beta2": 0.95, "num_tolerated_failed_amortized_computations": 3, "ignored_dims": [], "amortized_computation_config": "<cfg>"}
    for cq, (oracle, axes) in specs.items():
        ci = repo.cls(cq)
        post = repo.lookup_method(ci, "__post_init__")
        if post is None:
            rep.ob("C17.1", f"{ci.name}.__post_init__/present", False, ci.module.relpath, "validation hook __post_init__ is missing")
            continue
        names = list(axes)
        n = 0
        for combo in itertools.product(*[axes[k] for k in names]):
            fields = dict(defaults)
            fields.update(dict(zip(names, combo)))
            selfobj = SimpleNamespace(**fields)
            want = bool(oracle(selfobj))

            def hook(interp, call, _cls=ci):
                f = call.func
                if isinstance(f, ast.Attribute) and f.attr == "__post_init__" and isinstance(f.value, ast.Call) and isinstance(f.value.func, ast.Name) and f.value.func.id == "super":
                    owner = interp.env["__owner__"]
                    parent = repo.lookup_method(_cls, "__post_init__", after=owner)
                    if parent is not None:
                        sub = Interp({"self": interp.env["self"], "__owner__": parent.cls}, call_hook=hook)
                        sub.run(parent.node.body, lambda e: ast.unparse(e))
                    return None
                return MISSING

            it = Interp({"self": selfobj, "__owner__": post.cls}, call_hook=hook)
            try:
                it.run(post.node.body, lambda e: ast.unparse(e))
                got, exc = True, None
            except Raised as r:
                got, exc = False, r.exc_name
            except Unsupported as u:
                raise AnalysisError(f"C17.1: {ci.name}.__post_init__ outside the validation sub-language: {u}") from u
            ok = got == want and (got or _is_value_error(repo, post.module, exc))
            lab = ",".join(f"{k}={v}" for k, v in zip(names, combo))
            rep.ob("C17.1", f"{ci.name}.__post_init__/{'+'.join(names)}/{'accept' if want else 'reject'}", ok, post.loc(), f"case {lab}: documented {'accept' if want else 'reject (ValueError)'}; code {'accepts' if got else 'raises ' + str(exc)}", sample=n % 53 == 0)
            n += 1
        rep.floor("C17.1", f"{ci.name}.__post_init__", n, 4)


def _payload_class(repo, m, body: list[ast.stmt], var: str | None) -> tuple[str | None, ast.Call | None]:
    """Class name assigned (directly or via functools.partial(Class, ...)) in an arm body."""
    for st in body:
        if isinstance(st, ast.Assign):
            v = st.value
            if isinstance(v, ast.Call) and (repo.dotted_of(m, v.func) or "").endswith("functools.partial") and v.args:
                d = repo.dotted_of(m, v.args[0])
                ci = repo.class_by_dotted(d) if d else None
                return (ci.name if ci else ast.unparse(v.args[0])), v
            if isinstance(v, ast.Lambda) and isinstance(v.body, ast.Call):
                # `lambda group: Class(group, ...)` — a factory like partial(Class, ...): forwards its parameters to the class
                d = repo.dotted_of(m, v.body.func)
                ci = repo.class_by_dotted(d) if d else None
                params = [a.arg for a in v.args.args]
                if ci is not None and [ast.unparse(a) for a in v.body.args] == params:
                    return ci.name, v.body
            d = repo.dotted_of(m, v)
            ci = repo.class_by_dotted(d) if d else None
            if ci is not None:
                return ci.name, None
            if isinstance(v, ast.Call):
                d = repo.dotted_of(m, v.func)
                ci = repo.class_by_dotted(d) if d else None
                if ci is not None:
                    return ci.name, v
            if isinstance(v, ast.Constant) and v.value is None:
                return "None", None
    return None, None


def _dispatch_tables(ctx, rep, only: tuple[str, ...] | None = None) -> None:
    repo = ctx.repo
    from .common import hyperparameters_from_group

    if only is None:
        rep.attempt("hyperparameters_from_group", hyperparameters_from_group, ctx, rep, "C17.4")
    tables = [
        ("_instantiate_distributor", f"{TYPES}:DistributedConfig", True, {
            None: "Distributor", "DDPShampooConfig": "DDPDistributor", "FSDPShampooConfig": "FSDPDistributor", "FullyShardShampooConfig": "FullyShardDistributor",
            "HSDPShampooConfig": "HSDPDistributor", "HybridShardShampooConfig": "HybridShardDistributor"}),
        ("_instantiate_shampoo_preconditioner_list", f"{TYPES}:PreconditionerConfig", False, {
            "ShampooPreconditionerConfig": "ShampooPreconditionerList", "EigenvalueCorrectedShampooPreconditionerConfig": "EigenvalueCorrectedShampooPreconditionerList"}),
        ("_instantiate_grafting", f"{TYPES}:GraftingConfig", True, {
            None: "None", "SGDGraftingConfig": "SGDPreconditionerList", "AdaGradGraftingConfig": "AdagradPreconditionerList",
            "RMSpropGraftingConfig": "AdagradPreconditionerList", "AdamGraftingConfig": "AdagradPreconditionerList"}),
    ]  # fmt: skip
    for meth, base_q, with_none, expected in tables:
        if only is not None and meth not in only:
            continue
        fi = repo.method(DS, meth)
        chains = find_chains(repo, fi.module, fi.node)
        if len(chains) != 1:
            raise AnalysisError(f"C17.4: expected exactly one type-dispatch chain in {meth}, found {len(chains)}")
        chain = chains[0]
        subj = {a.subject for a in chain if a.kind in ("type_is", "isinstance", "is_none")}
        ok_subj = len(subj) == 1 and ("self.defaults" not in next(iter(subj)))
        rep.ob("C17.4", f"{meth}/dispatch-subject", ok_subj, fi.loc(chain[0].node), f"the dispatch tests {sorted(subj)}: one subject, the group's own config / the constructor argument (never the optimizer-level defaults)", sample=True)
        base = repo.cls(base_q)
        classes = [None] * with_none + repo.concrete_subclasses(base)
        n = 0
        for ci in classes:
            arm = first_match(repo, chain, ci)
            cname = ci.name if ci else None
            want = expected.get(cname, "<no oracle entry: must raise NotImplementedError>")
            if arm is None:
                rep.ob("C17.4", f"{meth}/{cname}", False, fi.loc(), f"no arm and no else-branch handles {cname}")
                continue
            raised = body_raises(repo, fi.module, arm.body)
            if raised is not None:
                got = f"raise {raised}"
                ok = cname not in expected and raised == "NotImplementedError"
            else:
                got, _ = _payload_class(repo, fi.module, arm.body, None)
                ok = got == want
            rep.ob("C17.4", f"{meth}/{cname}", ok, fi.loc(arm.node), f"config class {cname}: first matching arm is `{ast.unparse(arm.test) if arm.test is not None else 'else'}` giving {got}; documented payload {want}", sample=True)
            n += 1
        # fall-through
        last = chain[-1]
        ok = last.kind == "else" and body_raises(repo, fi.module, last.body) == "NotImplementedError"
        rep.ob("C17.4", f"{meth}/fall-through", ok, fi.loc(last.node), "unsupported config types must reach `raise NotImplementedError`", sample=True)
        bad = unknown_subclasses_rejected(repo, fi.module, chain, repo.concrete_subclasses(base))
        rep.ob("C17.4", f"{meth}/unknown-subclasses-rejected", not bad, fi.loc(), "a config object of an unknown (user-defined) subclass must reach `raise NotImplementedError`; with isinstance-style arms it is silently treated as its base" + (f": {bad[:3]}" if bad else ""), sample=True)
        rep.floor("C17.4", meth, n, 2)
    from .c01 import inverse_root_selection
    from .common import no_shared_mutable_defaults

    rep.rule("C17.5", "every non-negative inverse-root override constructs: the per-order selection (0 -> default rule, n -> n, sequence -> entry of that order, default rule beyond its length) never indexes past the sequence")
    rep.attempt("inverse_root_selection", inverse_root_selection, ctx, rep, "C17.5")
    rep.rule("C17.6", "validation sees only this construction's values: no config default, class attribute or function default is one mutable container shared between instances / calls")
    rep.attempt("no_shared_mutable_defaults", no_shared_mutable_defaults, ctx, rep, "C17.6")
