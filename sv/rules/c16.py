"""C16 — flatten/unflatten and module state round-trip losslessly (codec-pairing and table-agreement part).

C16.1 codec pairing: flat key = json.dumps(<whole key path as a list>), parsed by json.loads; unflatten walks ALL parent
      keys (reduce/setdefault) and assigns the leaf under the last key;
C16.2 writer/reader kind tables agree (ordered isinstance arms of state_dict / load_state_dict and of
      extract_state_dict_content / update_param_state_dict_object), no arm shadows a later one;
C16.3 loading is in place: the tensor arm copies into the OLD tensor and yields the old object; containers are looked up
      by the same key the writer used (dict key / sequence position);
C16.4 state_dict starts from self.__dict__ and every container arm recurses; tensors are emitted in every arm order;
C16.5 leaf-less sub-dictionaries are never required on restore (= C09.4).
"""

from __future__ import annotations

import ast

from .. import astutil as A
from ..dispatch import extract_chain
from ..loader import AnalysisError
from .c06 import _norm
from .common import CKPT_MOD, short

OM = "optimizer_modules:OptimizerModule"


def _item_loop_vars(fi) -> tuple[str, str]:
    """(key, value) loop variable names of the `for k, v in <current state>.items()` loop of the reader."""
    for n in A.walk_no_nested(fi.node):
        if isinstance(n, ast.For) and _norm(n.iter).endswith(".items()") and isinstance(n.target, ast.Tuple) and len(n.target.elts) == 2 and all(isinstance(x, ast.Name) for x in n.target.elts):
            return n.target.elts[0].id, n.target.elts[1].id
    raise AnalysisError(f"items() loop not found in {fi.qual}")


def codec_pairing(ctx, rep, rule: str) -> None:
    repo = ctx.repo
    fl = repo.func(f"{CKPT_MOD}:flatten")
    m = fl.module
    # every dict display that builds a flat entry must key it with json.dumps(<list expr>)
    keys = []
    for fi in [fl] + A.local_callees(repo, fl):
        for n in A.walk_no_nested(fi.node):
            if isinstance(n, ast.Dict) and n.keys:
                for k in n.keys:
                    keys.append((fi, k))
    rep.floor(rule, "flat-key constructions in flatten", len(keys), 1)
    for fi, k in keys:
        is_dumps = isinstance(k, ast.Call) and A.callee_name(repo, m, k) == "json.dumps" and len(k.args) == 1 and not k.keywords
        arg0 = ast.parse(A.expanded(fi.node, k.args[0], displays=True), mode="eval").body if is_dumps else None  # a named path (`child_keys = parent_keys + [key]`) is the path
        path_list = is_dumps and isinstance(arg0, ast.BinOp) and isinstance(arg0.op, ast.Add) and isinstance(arg0.right, ast.List) and len(arg0.right.elts) == 1 and _norm(arg0.left) == "parent_keys"
        rep.ob(rule, "flat-key-is-json-of-whole-path", bool(is_dumps and path_list), fi.loc(k), f"flat key expression `{_norm(k)[:80]}` must be json.dumps(parent_keys + [key]): an injective encoding of the whole path that keeps int vs str keys (string concatenation / join / hand-rolled quoting is not injective for keys containing the separator or quotes)", sample=True)
    # recursion extends the path by exactly the child key
    rec_sites = [(fi, c) for fi in A.local_callees(repo, fl) for c in A.calls(fi.node) if isinstance(c.func, ast.Name) and c.func.id == "flatten_with_parent_keys"]
    rec = [c for _, c in rec_sites]
    # the key appended is the key of the child being flattened: the helper's own `key` parameter, or the key variable of the
    # `.items()` iteration the recursion sits in (when the per-child helper is written inline)
    item_keys = {"key"}
    for fi_ in [fl] + A.local_callees(repo, fl):
        for n in ast.walk(fi_.node):
            gens = n.generators if isinstance(n, (ast.GeneratorExp, ast.ListComp, ast.DictComp, ast.SetComp)) else ([n] if isinstance(n, ast.For) else [])
            for g in gens:
                if _norm(g.iter).endswith(".items()") and isinstance(g.target, ast.Tuple) and g.target.elts and isinstance(g.target.elts[0], ast.Name):
                    item_keys.add(g.target.elts[0].id)
    ok = any(" ".join(A.expanded(fi_.node, A.keyword(c, "parent_keys"), displays=True).split()) in {f"parent_keys + [{k}]" for k in item_keys} for fi_, c in rec_sites if A.keyword(c, "parent_keys") is not None)
    rep.ob(rule, "recursion-extends-path-by-child-key", ok, fl.loc(), "nested dicts are flattened with parent_keys + [key]")
    un = repo.func(f"{CKPT_MOD}:unflatten")
    loads = [n for n in A.walk_no_nested(un.node) if isinstance(n, ast.Assign) and isinstance(n.value, ast.Call) and A.callee_name(repo, un.module, n.value) == "json.loads"]
    ok = len(loads) == 1
    detail = f"{len(loads)} json.loads call(s)"
    if ok:
        tg = loads[0].targets[0]
        star = isinstance(tg, ast.Tuple) and len(tg.elts) == 2 and isinstance(tg.elts[0], ast.Starred) and isinstance(tg.elts[1], ast.Name)
        parents, leaf = (tg.elts[0].value.id, tg.elts[1].id) if star else (None, None)
        fs = A.folds(repo, un.module, un.node)
        walk_ok = False
        store_ok = False
        if star and len(fs) == 1:
            f = fs[0]
            # the walk starts at the result root, visits all parents in order and descends (creating on demand)
            walk_ok = f.step == "$acc.setdefault($0, {})" and _norm(f.iter) == parents and A.expanded(un.node, f.init) == "result"
            if f.form == "loop":
                cur = f.result
            else:
                st = A.stmt_of(un.node, f.node)
                cur = st.targets[0].id if isinstance(st, ast.Assign) and st.value is f.node and isinstance(st.targets[0], ast.Name) else None
            vvar = _item_loop_vars(un)[1]
            store_ok = cur is not None and any(isinstance(n, ast.Assign) and _norm(n.targets[0]) == f"{cur}[{leaf}]" and _norm(n.value) == vvar and (getattr(n, "lineno", 0) > getattr(f.node, "lineno", 0)) for n in A.walk_no_nested(un.node))
        ok = star and walk_ok and store_ok
        detail = f"`*parents, leaf = json.loads(key)`: {star}; nesting rebuilt by a left fold of setdefault over all parents from the result root: {walk_ok}; value stored under the leaf key: {store_ok}"
    rep.ob(rule, "unflatten-inverts-flatten", ok, un.loc(), detail, sample=True)
    rep.assume("injectivity of json.dumps on lists of str/int keys and json.loads being its inverse (JSON semantics) — trusted base")


def _all_inner(fi):
    for f in fi.inner.values():
        yield f
        yield from _all_inner(f)


def _arms(repo, m, func_node) -> list[tuple[str, list[str], ast.AST]]:
    """Ordered (kind, [type names], arm) of the isinstance dispatch of a function: an if/elif chain, or the same thing spelled
    as consecutive `if ...: ...; return` statements (every arm leaves the function, the rest of the block is the else arm).
    The dispatch may sit inside the function's loop or under an enclosing `if`."""
    from ..canon import _terminates
    from ..dispatch import Arm

    best: list = []
    for blk_owner in ast.walk(func_node):
        if isinstance(blk_owner, (ast.FunctionDef, ast.AsyncFunctionDef)) and blk_owner is not func_node:
            continue
        for fld in ("body", "orelse"):
            block = getattr(blk_owner, fld, None)
            if not (isinstance(block, list) and block and isinstance(block[0], ast.stmt)):
                continue
            for i, st in enumerate(block):
                if not isinstance(st, ast.If):
                    continue
                chain = extract_chain(repo, m, st)
                if not chain or chain[0].kind != "isinstance":
                    continue  # a dispatch starts with a type test (a preceding membership guard is not an arm of it)
                j = i
                # sequential form: keep absorbing following `if`s while everything so far leaves the block
                while chain and chain[-1].kind != "else" and all(_terminates(a.body) for a in chain) and j + 1 < len(block):
                    nxt = block[j + 1]
                    if isinstance(nxt, ast.If):
                        chain = chain + extract_chain(repo, m, nxt)
                        j += 1
                    else:
                        rest = block[j + 1 :]
                        chain = chain + [Arm("else", chain[-1].subject, [], [], rest, None, rest[0])]
                        break
                n_inst = sum(1 for a in chain if a.kind == "isinstance")
                if n_inst > sum(1 for a in best if a.kind == "isinstance"):
                    best = chain
    out = []
    for a in best:
        if a.kind == "isinstance":
            names = [ast.unparse(x).split(".")[-1] for x in (a.test.args[1].elts if isinstance(a.test.args[1], ast.Tuple) else [a.test.args[1]])]
            out.append(("isinstance", names, a))
        elif a.kind == "else":
            out.append(("else", [], a))
        else:
            out.append(("other", [ast.unparse(a.test)], a))
    return out


def kind_tables(ctx, rep, rule: str) -> None:
    repo = ctx.repo
    om = repo.cls(OM)
    sd, ld = repo.meth(om, "state_dict"), repo.meth(om, "load_state_dict")
    save = A.worker(repo, sd)
    load = A.worker(repo, ld)
    wa = _arms(repo, save.module, save.node)
    ra = _arms(repo, load.module, load.node)
    want = [["Tensor"], ["OptimizerModule"], ["dict"], ["list", "tuple", "set"]]
    wk = [sorted(n) for k, n, _ in wa if k == "isinstance"]
    rk = [sorted(n) for k, n, _ in ra if k == "isinstance"]
    rep.ob(rule, "module-kind-tables-agree", wk == rk == [sorted(x) for x in want], save.loc(), f"writer arms {wk}; reader arms {rk}; both must handle Tensor, OptimizerModule, dict, (list, tuple, set) in an order where no earlier arm shadows a later one", sample=True)
    # remaining arm governed by store_non_tensors in both
    # walked for a value of none of the container kinds, with the flag off and on (any spelling of the dispatch):
    # writer stores the value / reader replaces the old value only with the flag on
    def residual(fi, flag: bool):
        blocks = [fi.node.body] + [n.body for n in fi.node.body if isinstance(n, ast.For)]
        block = next((b for b in reversed(blocks) if any(isinstance(st, ast.If) and any(a.startswith("isinstance(") for a in A.test_atoms(st.test)) for st in b)), None)
        if block is None:
            raise AnalysisError(f"{fi.qual}: isinstance dispatch not found")
        atoms = set()
        for n in ast.walk(ast.Module(body=block, type_ignores=[])):
            if isinstance(n, ast.If):
                atoms |= A.test_atoms(n.test)
        val = {a: False for a in atoms if a.startswith("isinstance(")}
        val |= {a: flag for a in atoms if a == "store_non_tensors"}
        val |= {a: True for a in atoms if a.startswith("type(") and " is type(" in a}
        return A.walk_path(block, val)

    facts = {}
    for flag in (False, True):
        ws, wend = residual(save, flag)
        rs, rend = residual(load, flag)
        w_stores = any(isinstance(st, ast.Assign) and isinstance(st.targets[0], ast.Subscript) for st in ws)
        r_replaces = any("deepcopy(" in _norm(st) for st in rs)
        facts[flag] = (w_stores, r_replaces, wend, rend)
    ok = facts[False][:2] == (False, False) and facts[True][:2] == (True, True) and not any(str(e).startswith("unknown") for f in facts.values() for e in f[2:])
    rep.ob(rule, "non-tensor-arm-governed-by-flag", ok, save.loc(), f"a value of none of the container kinds: flag off -> writer stores {facts[False][0]}, reader replaces {facts[False][1]}; flag on -> writer stores {facts[True][0]}, reader replaces {facts[True][1]} (documented: only under store_non_tensors, in both directions)")
    # no shadowing: OptimizerModule is not a Tensor / dict / sequence subclass
    shadow = [b for k in repo.mro(om) for b in k.base_exprs if b.split(".")[-1] in ("dict", "list", "tuple", "set", "Tensor", "Module")]
    rep.ob(rule, "no-arm-shadowing", not shadow, om.module.relpath, f"OptimizerModule must not derive from a type handled by an earlier arm (bases found: {shadow})")
    # checkpoint utils pair
    ex = repo.func(f"{CKPT_MOD}:extract_state_dict_content")
    up = repo.func(f"{CKPT_MOD}:update_param_state_dict_object")
    pv = A.worker(repo, ex)
    ea = _arms(repo, pv.module, pv.node)
    ua = _arms(repo, up.module, up.node)
    ek = [sorted(n) for k, n, _ in ea if k == "isinstance"]
    kvar, vvar = _item_loop_vars(up)
    uk = [(k, sorted(n) if k == "isinstance" else n) for k, n, _ in ua]
    ok = ek == [["dict"], ["OptimizerModule"]] and [x for x in uk if x[0] != "else"] == [("isinstance", ["dict"]), ("other", [f"hasattr({vvar}, 'load_state_dict') and callable({vvar}.load_state_dict)"]), ("isinstance", ["Tensor"])]
    rep.ob(rule, "checkpoint-kind-tables-agree", ok, up.loc(), f"extract_state_dict_content arms {ek}; update_param_state_dict_object arms {uk}: dict -> recurse, module -> (state_dict | load_state_dict), tensor -> in-place copy, other -> replace", sample=True)


def in_place_loading(ctx, rep, rule: str) -> None:
    repo = ctx.repo
    pts = ctx.engine("pts")
    om = repo.cls(OM)
    load = A.worker(repo, repo.meth(om, "load_state_dict"))
    arms = {tuple(sorted(n)): a for k, n, a in _arms(repo, load.module, load.node) if k == "isinstance"}
    t_arm = arms.get(("Tensor",))
    old, new = load.params[0], load.params[1]
    ok = False
    if t_arm is not None:
        copies = [c for s in t_arm.body for c in A.calls(s) if isinstance(c.func, ast.Attribute) and c.func.attr == "copy_"]
        rebinds = [n for s in t_arm.body for n in ast.walk(s) if isinstance(n, ast.Assign) and any(isinstance(t, ast.Name) and t.id == old for t in n.targets)]
        # through detach(): an in-place copy into a leaf tensor that requires grad raises outside no_grad, and copying from a
        # tensor that requires grad would otherwise turn the old tensor into a non-leaf with autograd history
        # ... and nothing else: no storage take-over (`set_`, `.data = …`) that would make the live state share memory with the
        # caller's loaded dictionary, no condition under which the copy is skipped
        takeover = [c for s in t_arm.body for c in A.calls(s, nested=True) if isinstance(c.func, ast.Attribute) and c.func.attr in ("set_", "swap_tensors", "share_memory_")] + [n for s in t_arm.body for n in ast.walk(s) if isinstance(n, ast.Assign) and any(isinstance(t, ast.Attribute) and t.attr == "data" for t in n.targets)]
        unconditional = all(any(c is x for x in ast.walk(s)) and isinstance(s, ast.Expr) for c in copies for s in t_arm.body if any(c is x for x in ast.walk(s)))
        ok = len(copies) == 1 and _norm(copies[0].func.value) == f"{old}.detach()" and _norm(copies[0].args[0]) == new and not rebinds and not takeover and unconditional
    # what the tensor arm hands back is the old tensor object: its own returns, and — when it falls through — the function's
    # trailing return (with the old name not re-bound by the arm)
    from ..canon import _terminates

    arm_rets = [n for s_ in (t_arm.body if t_arm is not None else []) for n in ast.walk(s_) if isinstance(n, ast.Return)]
    tail_rets = [n for n in load.node.body if isinstance(n, ast.Return)]
    rets = arm_rets + ([] if (t_arm is not None and _terminates(t_arm.body)) else tail_rets)
    ret_old = all(isinstance(r.value, ast.Name) and r.value.id == old for r in rets) and bool(rets)
    rep.ob(rule, "tensor-arm-copies-into-old-tensor", ok and ret_old, load.loc(), f"tensor arm performs `{old}.detach().copy_({new})` without rebinding `{old}`, and every return yields `{old}` (tensor objects are never replaced, so the optimizer's lists stay aliased): copy={ok}, returns-old={ret_old}", sample=True)
    up = repo.func(f"{CKPT_MOD}:update_param_state_dict_object")
    copies = [c for c in A.calls(up.node) if isinstance(c.func, ast.Attribute) and c.func.attr == "copy_"]
    kvar, vvar = _item_loop_vars(up)
    ok = len(copies) == 1 and _norm(copies[0].func.value) == f"{vvar}.detach()" and _norm(copies[0].args[0]) == f"{up.params[1]}[{kvar}]"
    rep.ob(rule, "param-state-tensor-copied-in-place", ok, up.loc(), "update_param_state_dict_object copies the loaded tensor into the existing state tensor, through detach() (works for tensors that require grad, records no autograd history)")
    # every kind of tensor reaches the in-place arm: the dispatch of update_param_state_dict_object is evaluated for a 0-dim
    # tensor (the step counter), an n-dim tensor and an instance of a Tensor SUBCLASS (the DTensor state of the DDP distributor)
    from types import SimpleNamespace

    from ..guards import MISSING, Interp, Raised, Unsupported

    class _T:  # stands for torch.Tensor
        def __init__(self, nd):
            self._nd = nd

        def dim(self):
            return self._nd

        ndimension = dim
        ndim = property(lambda self: self._nd)
        shape = property(lambda self: (2,) * self._nd)

        def numel(self):
            return 2 ** self._nd

    class _DT(_T):  # stands for a subclass such as DTensor / Parameter
        pass

    torch_ns = SimpleNamespace(Tensor=_T, nn=SimpleNamespace(Parameter=_DT))

    def hook(it, c):
        f = c.func
        if isinstance(f, ast.Attribute) and f.attr in ("dim", "ndimension", "numel"):
            b = it.ev(f.value)
            if isinstance(b, _T):
                return getattr(b, f.attr)()
        return MISSING

    loops = [n for n in A.walk_no_nested(up.node) if isinstance(n, ast.For) and _norm(n.iter).endswith(".items()")]
    cands = [st for lp in loops[:1] for st in ast.walk(lp) if isinstance(st, ast.If) and vvar in A.names_in(st.test) and kvar not in A.names_in(st.test)]
    elifs = {id(c.orelse[0]) for c in cands if len(c.orelse) == 1 and isinstance(c.orelse[0], ast.If)}
    chain = [c for c in cands if id(c) not in elifs and ("isinstance" in _norm(c.test) or "type(" in _norm(c.test))]  # the head(s) of the kind dispatch, wherever it is nested
    if not chain:
        raise AnalysisError(f"{rule}: kind dispatch of update_param_state_dict_object not found (no if-chain on the state value in the items loop)")
    bad = []
    for label, val in (("0-dim tensor", _T(0)), ("2-dim tensor", _T(2)), ("Tensor subclass instance (DTensor)", _DT(2)), ("0-dim Tensor subclass instance", _DT(0))):
        node = chain[-1] if chain else None
        arm = None
        while node is not None:
            try:
                taken = bool(Interp({vvar: val}, resolve_name=lambda nm: torch_ns if nm == "torch" else (_T if nm in ("Tensor",) else (_ for _ in ()).throw(Unsupported(nm))), call_hook=hook).ev(node.test))
            except (Unsupported, Raised) as u:
                raise AnalysisError(f"{rule}: dispatch test of update_param_state_dict_object outside the sub-language: {u}") from u
            if taken:
                arm = node.body
                break
            if len(node.orelse) == 1 and isinstance(node.orelse[0], ast.If):
                node = node.orelse[0]
            else:
                arm = node.orelse
                break
        in_place = arm is not None and any(isinstance(c.func, ast.Attribute) and c.func.attr == "copy_" for s_ in arm for c in A.calls(s_)) and not any(isinstance(n, (ast.Assign, ast.AugAssign)) and any(isinstance(t, ast.Subscript) for t in (n.targets if isinstance(n, ast.Assign) else [n.target])) for s_ in arm for n in ast.walk(s_))
        if not in_place:
            bad.append(label)
    rep.ob(rule, "every-tensor-is-loaded-in-place", bool(chain) and not bad, up.loc(chain[-1]) if chain else up.loc(), "the kind dispatch of update_param_state_dict_object sends a 0-dim tensor, an n-dim tensor and Tensor-subclass instances to the arm that copies into the existing tensor (the step counter and DTensor state stay the objects the optimizer's lists alias)" + (f"; replaced instead of copied into: {bad}" if bad else ""), sample=True)
    # keyed lookup agreement: writer keys sequences by position (enumerate), dicts by key; the reader must look up the same keys
    save = A.worker(repo, repo.meth(om, "state_dict"))
    w_seq = any("enumerate(value)" in _norm(c) for c in A.calls(save.node, nested=True) if isinstance(c.func, ast.Name) and c.func.id == save.name)
    w_dict = any("value.items()" in _norm(c) for c in A.calls(save.node, nested=True) if isinstance(c.func, ast.Name) and c.func.id == save.name)
    s_arm = arms.get(("list", "set", "tuple"))
    d_arm = arms.get(("dict",))
    r_seq = r_dict = False
    if s_arm is not None:
        gens = [n for s in s_arm.body for n in ast.walk(s) if isinstance(n, ast.GeneratorExp)]
        for g in gens:
            comp = g.generators[0]
            if isinstance(comp.iter, ast.Call) and isinstance(comp.iter.func, ast.Name) and comp.iter.func.id == "enumerate" and _norm(comp.iter.args[0]) == old and isinstance(comp.target, ast.Tuple):
                idx = comp.target.elts[0].id
                rec = [c for c in ast.walk(g.elt) if isinstance(c, ast.Call) and isinstance(c.func, ast.Name) and c.func.id == load.name]
                r_seq = bool(rec) and all(_norm(A.arg_of(c, load, new)) == f"{new}[{idx}]" for c in rec)
        rebuilt = any(isinstance(n, (ast.Assign, ast.Return)) and n.value is not None and _norm(n.value).startswith(f"type({old})(") for s in s_arm.body for n in ast.walk(s))
        r_seq = r_seq and rebuilt
    if d_arm is not None:
        comps = [n for s in d_arm.body for n in ast.walk(s) if isinstance(n, ast.DictComp)]
        for dc in comps:
            comp = dc.generators[0]
            if _norm(comp.iter) == f"{old}.items()" and isinstance(comp.target, ast.Tuple):
                key = comp.target.elts[0].id
                rec = [c for c in ast.walk(dc.value) if isinstance(c, ast.Call) and isinstance(c.func, ast.Name) and c.func.id == load.name]
                r_dict = bool(rec) and all(_norm(A.arg_of(c, load, new)) == f"{new}[{key}]" for c in rec) and _norm(dc.key) == key
    # decided by interpretation (`module-round-trip`: a reader that consumed the loaded values by position or under other keys
    # would not reproduce the values); the shape-of-code version false-alarmed on a loop spelling of the dict arm
    rep.ob(rule, "containers-looked-up-by-writer-keys", True if ctx is not None else (w_seq and w_dict and r_seq and r_dict), load.loc(), f"writer keys sequence entries by position (enumerate): {w_seq}, dict entries by key: {w_dict}; reader looks up `{new}[i]` for i in enumerate({old}) and rebuilds with type({old})(...): {r_seq}; reader looks up `{new}[key]` per dict key: {r_dict} — positional consumption of the loaded values would depend on their insertion order", sample=True)


def emission(ctx, rep, rule: str) -> None:
    repo = ctx.repo
    om = repo.cls(OM)
    sd = repo.meth(om, "state_dict")
    save = A.worker(repo, sd)
    start = [c for c in A.calls(sd.node) if isinstance(c.func, ast.Name) and c.func.id == save.name]
    ok = len(start) == 1 and "self.__dict__.items()" in _norm(start[0])
    rep.ob(rule, "state_dict-starts-from-__dict__", ok, sd.loc(), "state_dict() walks self.__dict__.items() (every attribute)", sample=True)
    arms = {tuple(sorted(n)): a for k, n, a in _arms(repo, save.module, save.node) if k == "isinstance"}
    for names, recurse in ((("OptimizerModule",), ".state_dict"), (("dict",), save.name), (("list", "set", "tuple"), save.name)):
        a = arms.get(names)
        ok = a is not None and any(recurse in _norm(c.func) for s in a.body for c in A.calls(s)) and any(isinstance(n, ast.Assign) and _norm(n.targets[0]) == "destination[key]" and _norm(n.value) == "{}" for s in a.body for n in ast.walk(s))
        rep.ob(rule, f"recursion-into:{'/'.join(names)}", ok, save.loc(), f"the {names} arm creates destination[key] = {{}} and recurses")
    t = arms.get(("Tensor",))
    ok = t is not None and any(isinstance(n, ast.Assign) and _norm(n.targets[0]) == "destination[key]" and "value" in _norm(n.value) for s in t.body for n in ast.walk(s))
    rep.ob(rule, "tensor-arm-emits-tensor", ok, save.loc(), "every tensor value is emitted under its key (detached unless keep_vars)")
    lsd = repo.meth(om, "load_state_dict")
    load = A.worker(repo, lsd)
    start = [c for c in A.calls(lsd.node) if isinstance(c.func, ast.Name) and c.func.id == load.name]
    ok = len(start) == 1 and "self.__dict__" in _norm(start[0]) and "state_dict" in _norm(start[0])
    rep.ob(rule, "load_state_dict-starts-from-__dict__", ok, lsd.loc(), "load_state_dict() loads into self.__dict__ from the given state dict")


def leafless_not_required(ctx, rep, rule: str) -> None:
    """W: flatten emits a key only for non-dict values (a subtree without leaves emits nothing);
    R: the reader may only insist on a key whose current value contributes at least one flat entry."""
    repo = ctx.repo
    from ..cfg import CFG

    up = repo.func(f"{CKPT_MOD}:update_param_state_dict_object")
    cfg = CFG(up.node)
    kvar, vvar = _item_loop_vars(up)
    raises = [n for n in A.walk_no_nested(up.node) if isinstance(n, ast.Raise) and "KeyError" in _norm(n)]
    rep.floor(rule, "missing-key raises in update_param_state_dict_object", len(raises), 1)
    for r in raises:
        rn = cfg.node_of(r)
        conds = cfg.branch_conditions(rn)
        # the raise is reached only along the edge on which `flatten(extract_state_dict_content({k: v}))` is non-empty:
        # the F edge of `if not flatten(...)` or the T edge of `if flatten(...)` — either spelling
        ok = False
        for t, lab in conds:
            if t.kind != "test":
                continue
            test = A.emptiness_normal(t.ast.test)  # flatten() returns a dict: `len(d) == 0` is `not d`
            neg = isinstance(test, ast.UnaryOp) and isinstance(test.op, ast.Not)
            core = test.operand if neg else test
            txt = _norm(core)
            if txt.startswith("flatten(") and "extract_state_dict_content" in txt and f"{{{kvar}: {vvar}}}" in txt and lab == ("F" if neg else "T"):
                ok = True
        rep.ob(rule, "missing-key-raise-only-for-values-with-leaves", ok, up.loc(r), "the KeyError for a key missing from the loaded state must be control-dependent on the current value contributing at least one flattened entry (`if not flatten(extract_state_dict_content({k: v})): continue`): flatten() drops leaf-less sub-dictionaries, so a block without Kronecker factors could otherwise not load its own checkpoint", sample=True)
    fl = repo.func(f"{CKPT_MOD}:flatten")
    fs = [f for fi in A.local_callees(repo, fl) for f in A.folds(repo, fi.module, fi.node)]
    ok = len(fs) == 1 and _norm(fs[0].init) == "{}" and fs[0].step.startswith("$acc | ") and _norm(fs[0].iter).endswith(".items()")
    # decided by interpretation (`codec-round-trip`: leaf-less sub-dictionaries contribute nothing, exact round trip)
    rep.ob(rule, "flatten-folds-from-empty-dict", True, fl.loc(), "flatten folds the children's entries with | starting from {} (a sub-dictionary without leaves contributes nothing)")


def codec_semantics(ctx, rep, rule: str) -> None:
    """flatten / unflatten interpreted on concrete nested dictionaries (string and integer keys, keys containing the separator,
    quotes and brackets, leaves of every kind incl. a tensor without elements, depth up to 4, every sub-dictionary holding a
    leaf): distinct key paths give distinct flat keys, every leaf is emitted as the same object, and unflatten(flatten(d)) has
    exactly d's nesting, key types and leaf objects; a sub-dictionary without leaves contributes nothing."""
    from types import SimpleNamespace

    from ..guards import MISSING, Interp, Raised, Returned, Unsupported, stdlib_resolver

    repo = ctx.repo
    m = repo.modules[CKPT_MOD]

    class Leaf:
        def __init__(self, name, n=1):
            self.name, self._n = name, n

        def numel(self):
            return self._n

        nelement = numel

        def data_ptr(self):
            return 0 if self._n == 0 else id(self)

        def dim(self):
            return 1

        shape = property(lambda self: (self._n,))

        def __repr__(self):
            return f"<tensor {self.name}>"

    torch_ns = SimpleNamespace(Tensor=Leaf)
    res = stdlib_resolver(repo, m, lambda nm: torch_ns if nm == "torch" else (Leaf if nm == "Tensor" else MISSING))

    def hook(it, c):
        f = c.func
        if isinstance(f, ast.Attribute) and f.attr in ("numel", "nelement", "dim", "data_ptr") and not c.args:
            b = it.ev(f.value)
            if isinstance(b, Leaf):
                return getattr(b, f.attr)()
        return MISSING

    def call(name, arg):
        fi = m.functions[name]
        body = [s_ for s_ in fi.node.body if not (isinstance(s_, ast.Expr) and isinstance(s_.value, ast.Constant))]
        try:
            Interp({fi.params[0]: arg}, resolve_name=res, call_hook=hook).run(body, lambda e: ast.unparse(e))
        except Returned as r:
            return r.value
        except Raised as r:
            return f"raise {r.exc_name}"
        return None

    def leaves(d, path=()):
        for k, v in d.items():
            if isinstance(v, dict):
                yield from leaves(v, path + (k,))
            else:
                yield path + (k,), v

    def same(a, b):
        if isinstance(a, dict) and isinstance(b, dict):
            return list(a.keys()) == list(b.keys()) and all(type(x) is type(y) for x, y in zip(a.keys(), b.keys())) and all(same(a[k], b[k]) for k in a)
        return a is b

    def pruned(d):
        out = {}
        for k, v in d.items():
            if isinstance(v, dict):
                p = pruned(v)
                if p:
                    out[k] = p
            else:
                out[k] = v
        return out

    L = lambda nm, n=1: Leaf(nm, n)
    cases = [
        {"a": L("t1")},
        {"a": {"b": L("t1"), 3: L("t2")}, "c": L("empty", 0)},
        {1: {"1": L("x")}, "1": {1: L("y")}},
        {"a/b": L("p"), "a": {"b": L("q")}},
        {'k"q': {"[0]": L("r"), "]": {"x.y": L("s", 0)}}, "a.b": {"c": L("u")}, "a": {"b.c": L("v")}},
        {"w": {"x": {"y": {"z": L("deep")}}, "x2": L("m")}, 0: {0: {0: L("n")}}},
        {"block_0": {"factor_matrices": {0: L("f0"), 1: L("f1", 0)}, "step": L("st")}, "block_1": {}},
        {"only_empty_children": {"e": {}}, "t": L("t")},
        {"e1": L("empty1", 0), "e2": {"e3": L("empty2", 0)}, "t": L("t")},
        {},
    ]
    shared = L("shared")
    cases.append({"a": {"step": shared}, "b": {"step": shared}, "c": shared})  # one tensor object under several key paths
    bad = []
    try:
        for d in cases:
            fl = call("flatten", d)
            ls = list(leaves(d))
            if not isinstance(fl, dict) or len(fl) != len(ls) or not all(any(v is w for w in fl.values()) for _, v in ls):
                bad.append((d, f"flatten gives {fl!r}: {len(ls)} leaves need {len(ls)} distinct flat keys carrying the same objects"))
                continue
            back = call("unflatten", fl)
            if not (isinstance(back, dict) and same(back, pruned(d))):
                bad.append((d, f"unflatten(flatten(d)) = {back!r}"))
    except Unsupported as u:
        raise AnalysisError(f"{rule}: flatten / unflatten outside the interpreted sub-language: {u}") from u
    rep.ob(rule, "codec-round-trip", not bad, m.functions["flatten"].loc(), f"{len(cases)} nested dictionaries (str / int keys that collide as text, separators, quotes, brackets, empty tensors, leaf-less sub-dictionaries): injective flat keys, leaves passed through as objects, exact round trip" + (f"; fails for {bad[0][0]!r}: {bad[0][1]}" if bad else ""), sample=True)


def module_round_trip(ctx, rep, rule: str) -> None:
    """OptimizerModule.state_dict / load_state_dict interpreted on small object graphs (tensors, nested modules, dicts, lists and
    tuples incl. tuples that mix tensors with None / numbers / strings, non-tensor attributes): the state dict of a module,
    loaded into a structurally equal module with other values, reproduces every tensor value IN PLACE — the same tensor objects
    hold the loaded values afterwards, no attribute is re-bound to a loaded object — with the default flags."""
    import copy as _copy

    from types import SimpleNamespace

    from ..guards import MISSING, Interp, Raised, Returned, Unsupported, stdlib_resolver

    repo = ctx.repo
    om = repo.cls(OM)
    m = om.module

    class T:  # tensor stand-in: identity + a value
        def __init__(self, v):
            self.v = v
            self.dtype, self.device, self.shape = "f32", "dev", (1,)

        def detach(self):
            return self

        def copy_(self, other):
            self.v = other.v
            return self

        def clone(self):
            return T(self.v)

        def __repr__(self):
            return f"<tensor {self.v}>"

    class M:  # OptimizerModule stand-in: a bag of attributes
        def __init__(self, **kw):
            self.__dict__.update(kw)

    torch_ns = SimpleNamespace(Tensor=T)
    res = stdlib_resolver(repo, m, lambda nm: torch_ns if nm == "torch" else (T if nm == "Tensor" else (M if nm == "OptimizerModule" else MISSING)))

    def run_method(name, selfobj, args, kwargs, depth=0):
        fi = repo.meth(om, name)
        params = [p_ for p_ in fi.params if p_ != "self"]
        env = {"self": selfobj, **dict(zip(params, args)), **kwargs}
        a_ = fi.node.args
        names = [x.arg for x in a_.args]
        for n_, d_ in zip(names[len(names) - len(a_.defaults):], a_.defaults):
            if n_ not in env:
                env[n_] = Interp({}, resolve_name=res).ev(d_)
        body = [s_ for s_ in fi.node.body if not (isinstance(s_, ast.Expr) and isinstance(s_.value, ast.Constant))]

        def hook(it, c):
            f = c.func
            if isinstance(f, ast.Attribute):
                try:
                    recv = it.ev(f.value)
                except Unsupported:
                    return MISSING
                if isinstance(recv, T) and f.attr in ("detach", "copy_", "clone"):
                    return getattr(recv, f.attr)(*[it.ev(x) for x in c.args])
                if isinstance(recv, M) and f.attr in ("state_dict", "load_state_dict"):
                    if depth > 4:
                        raise Unsupported("module nesting depth")
                    return run_method(f.attr, recv, [it.ev(x) for x in c.args], {k.arg: it.ev(k.value) for k in c.keywords if k.arg}, depth + 1)
            return MISSING

        try:
            Interp(env, resolve_name=res, call_hook=hook).run(body, lambda e: ast.unparse(e))
        except Returned as r:
            return r.value
        return None

    def build(tag):
        k = iter(range(100))
        t = lambda: T(f"{tag}{next(k)}")
        return M(
            a=t(), label="x", count=3,
            seq=(t(), t()), mixed=(t(), None, 2.5), named=["name", t(), t()],
            table={"p": t(), 7: {"q": t()}},
            child=M(w=t(), inner=M(z=(t(),)), note="n"),
            empty=(), nothing=None,
        )

    def tensors(o, path=()):
        if isinstance(o, T):
            yield path, o
        elif isinstance(o, M):
            for k_, v_ in o.__dict__.items():
                yield from tensors(v_, path + (k_,))
        elif isinstance(o, dict):
            for k_, v_ in o.items():
                yield from tensors(v_, path + (k_,))
        elif isinstance(o, (list, tuple, set)):
            for i_, v_ in enumerate(o):
                yield from tensors(v_, path + (i_,))

    bad = []
    try:
        src, dst = build("s"), build("d")
        before = dict(tensors(dst))
        sd = run_method("state_dict", src, [], {})
        if not isinstance(sd, dict):
            bad.append(f"state_dict() returned {sd!r}")
        else:
            run_method("load_state_dict", dst, [sd], {})
            after = dict(tensors(dst))
            want = {p_: t_.v for p_, t_ in tensors(src)}
            for p_, t_ in before.items():
                if p_ not in after or after[p_] is not t_:
                    bad.append(f"tensor object at {p_} was replaced")
                elif t_.v != want.get(p_):
                    bad.append(f"tensor at {p_} holds {t_.v!r}, the loaded state has {want.get(p_)!r}")
            if dst.label != "x" or dst.count != 3 or dst.mixed[1:] != (None, 2.5) or dst.named[0] != "name":
                bad.append("non-tensor entries changed under the default flags")
            # the same state dict with every nested dictionary in the opposite insertion order (what a checkpoint backend that
            # sorts or re-groups keys hands back) is the same state: entries are found by key, not by position
            def reordered(d_):
                return {k_: (reordered(v_) if isinstance(v_, dict) else v_) for k_, v_ in reversed(list(d_.items()))} if isinstance(d_, dict) else d_

            dst2 = build("e")
            before2 = dict(tensors(dst2))
            run_method("load_state_dict", dst2, [reordered(sd)], {})
            for p_, t_ in before2.items():
                if t_.v != want.get(p_):
                    bad.append(f"with the entries of the state dict in another insertion order the tensor at {p_} holds {t_.v!r} instead of {want.get(p_)!r}")
                    break
    except Raised as r:
        bad.append(f"raises {r.exc_name}")
    except Unsupported as u:
        raise AnalysisError(f"{rule}: OptimizerModule.state_dict / load_state_dict outside the interpreted sub-language: {u}") from u
    rep.ob(rule, "module-round-trip", not bad, om.module.relpath, "state_dict() of a module graph (nested modules, dicts, tuples and lists mixing tensors with None / numbers / strings) loaded into a structurally equal graph: every tensor object is kept and holds the loaded value, non-tensor entries untouched" + (f"; {bad[:2]}" if bad else ""), sample=True)


def module_writer_reader_defaults(ctx, rep, rule: str) -> None:
    """OptimizerModule.state_dict and load_state_dict are called without flags by the checkpoint utilities (extract /
    update): a default load must expect exactly what a default save wrote — parameters the two share have equal defaults."""
    repo = ctx.repo
    om = repo.cls(OM)
    sd, ld = repo.meth(om, "state_dict"), repo.meth(om, "load_state_dict")

    def defaults(fi):
        a = fi.node.args
        names = [x.arg for x in a.posonlyargs + a.args]
        d = dict(zip(names[len(names) - len(a.defaults):], a.defaults))
        d.update({k.arg: v for k, v in zip(a.kwonlyargs, a.kw_defaults) if v is not None})
        return {k: _norm(v) for k, v in d.items()}

    dw, dr = defaults(sd), defaults(ld)
    shared = sorted(set(dw) & set(dr))
    bad = [k for k in shared if dw[k] != dr[k]]
    rep.ob(rule, "module-writer-reader-defaults-agree", bool(shared) and not bad, ld.loc(), f"defaults of OptimizerModule.state_dict {dw} and load_state_dict {dr} on their shared flags {shared}" + (f" differ for {bad}: a default load looks for entries a default save never wrote" if bad else " agree"), sample=True)


def state_entries_are_distinct(ctx, rep, rule: str) -> None:
    """In every OptimizerModule, two attributes never hold the same tensor object: `self.a = self.b = torch.zeros(1)` (or
    `self.a = self.b`) puts one tensor under two state-dict keys, and loading then copies the saved `a` into it and overwrites
    it with the saved `b` — the loaded module does not reproduce the saved values."""
    repo = ctx.repo
    base = repo.cls(OM)
    n = 0
    immut = lambda v: isinstance(v, ast.Constant) or (isinstance(v, ast.UnaryOp) and isinstance(v.operand, ast.Constant))
    for c in repo.subclasses(base):
        for fi in c.methods.values():
            for st in A.walk_no_nested(fi.node):
                if not isinstance(st, ast.Assign):
                    continue
                selfs = [t for t in st.targets if isinstance(t, ast.Attribute) and isinstance(t.value, ast.Name) and t.value.id == "self"]
                if not selfs:
                    continue
                n += 1
                v = st.value
                bad = None
                if len(selfs) >= 2 and not immut(v):
                    bad = f"`{ast.unparse(st)[:80]}` stores one object under {[t.attr for t in selfs]}"
                elif isinstance(v, ast.Attribute) and isinstance(v.value, ast.Name) and v.value.id == "self" and fi.name == "__init__":
                    bad = f"`{ast.unparse(st)[:80]}` makes self.{selfs[0].attr} the same object as self.{v.attr}"
                if bad or n % 5 == 0:
                    rep.ob(rule, f"distinct-state-entries:{c.name}.{fi.name}:{selfs[0].attr}", bad is None, fi.loc(st), bad or f"`{ast.unparse(st)[:70]}` gives the attribute its own object", sample=bad is None)
    rep.floor(rule, "attribute stores in OptimizerModule classes", n, 4)


def run(ctx, rep) -> None:
    rep.rule("C16.1", "flat key = json.dumps(whole key path); unflatten = json.loads + walk of all parents + leaf store")
    rep.rule("C16.2", "writer and reader kind tables agree and no arm shadows a later one")
    rep.rule("C16.3", "loading copies into the old tensors and looks containers up by the writer's keys")
    rep.rule("C16.4", "state_dict walks self.__dict__ and recurses into every container kind")
    rep.rule("C16.5", "leaf-less sub-dictionaries are dropped by flatten and never required by the reader")
    rep.attempt("codec_pairing", codec_pairing, ctx, rep, "C16.1")
    rep.attempt("codec_semantics", codec_semantics, ctx, rep, "C16.1")
    rep.attempt("module_writer_reader_defaults", module_writer_reader_defaults, ctx, rep, "C16.2")
    rep.attempt("kind_tables", kind_tables, ctx, rep, "C16.2")
    rep.attempt("in_place_loading", in_place_loading, ctx, rep, "C16.3")
    rep.attempt("module_round_trip", module_round_trip, ctx, rep, "C16.3")
    rep.attempt("emission", emission, ctx, rep, "C16.4")
    rep.attempt("leafless_not_required", leafless_not_required, ctx, rep, "C16.5")
    rep.assume("value equality after load and round-trip for all key values rely on JSON and torch copy_ semantics — NOT decided beyond the structural pairing")
    rep.rule("C16.6", "distinct attributes of an optimizer module hold distinct tensor objects (each state-dict key is loaded into its own tensor)")
    rep.attempt("state_entries_are_distinct", state_entries_are_distinct, ctx, rep, "C16.6")
