"""C03 — SOAP is Adam in a valid factor eigenbasis (structural part).

C03.1 refresh-then-accumulate: the eigenbasis refresh precedes the corrected-eigenvalue update, which runs on every call;
C03.2 rotate / rotate-back pairing in precondition(); the same "basis exists" predicate guards the rotation in the
      accumulator update; ignored dims are only permuted;
C03.3 the basis is refreshed only under the schedule flag and written only by its refresh (who-may-write);
C03.4 dtype compatibility: allocation dtypes of factor / basis / accumulator, equal dtype tags at every same-dtype
      operation on the rotation and QR paths.
"""

from __future__ import annotations

import ast

from .. import astutil as A
from ..cfg import CFG
from ..dtypes import infer_tags
from ..loader import AnalysisError
from .c01 import _amortized_guard, guard_conditions
from .c06 import _norm
from .common import PL_MOD, short, who_may_write

EVC = f"{PL_MOD}:EigenvalueCorrectedShampooPreconditionerList"
BASE = f"{PL_MOD}:BaseShampooPreconditionerList"


def _deref_dtype_local(func: ast.AST, d: ast.AST) -> ast.AST:
    """A local bound exactly once (plain or element-wise tuple assignment) to an attribute chain ending in `dtype` / `_dtype`
    stands for that chain: a tensor's dtype and the constructor-fixed dtype attributes do not change between the binding and
    the allocation."""
    for _ in range(3):
        if not isinstance(d, ast.Name):
            break
        defs = []
        for n in A.walk_no_nested(func):
            if isinstance(n, (ast.Assign, ast.AnnAssign)) and n.value is not None:
                for t in n.targets if isinstance(n, ast.Assign) else [n.target]:
                    if isinstance(t, ast.Name) and t.id == d.id:
                        defs.append(n.value)
                    elif isinstance(t, ast.Tuple) and isinstance(n.value, ast.Tuple) and len(t.elts) == len(n.value.elts):
                        defs += [v for x, v in zip(t.elts, n.value.elts) if isinstance(x, ast.Name) and x.id == d.id]
                    elif isinstance(t, ast.Tuple) and any(isinstance(x, ast.Name) and x.id == d.id for x in ast.walk(t)):
                        defs.append(None)
            elif isinstance(n, (ast.For, ast.comprehension, ast.NamedExpr, ast.AugAssign)) and any(isinstance(x, ast.Name) and x.id == d.id for x in ast.walk(n.target)):
                defs.append(None)
        if len(defs) != 1 or defs[0] is None or not (isinstance(defs[0], ast.Attribute) and defs[0].attr.endswith("dtype")):
            break
        d = defs[0]
    return d


def ignored_dims_selector(ctx, rep, rule: str) -> None:
    """Which dimensions of a block get a factor / an eigenbasis: dimension d of a block is preconditioned iff d is not listed
    in `ignored_dims` — for every block order, with the listed indices taken as they are (an index a lower-order block does
    not have ignores nothing of that block).  The selector expression of the list constructor is interpreted on concrete
    (block shapes, ignored_dims) cases."""
    import itertools
    from types import SimpleNamespace

    from ..guards import Interp, Raised, Unsupported

    repo = ctx.repo
    fi = repo.meth(repo.cls(f"{PL_MOD}:BaseShampooPreconditionerList"), "__init__")
    defs = [n for n in A.walk_no_nested(fi.node) if isinstance(n, (ast.Assign, ast.AnnAssign)) and n.value is not None and any(isinstance(t, ast.Name) and t.id == "preconditioned_dims_selector_list" for t in (n.targets if isinstance(n, ast.Assign) else [n.target]))]
    if len(defs) != 1:
        raise AnalysisError(f"{rule}: expected one definition of preconditioned_dims_selector_list in {fi.qual}, found {len(defs)}")
    cfg_param = next((p_ for p_ in fi.params if "preconditioner_config" in p_), "preconditioner_config")
    blk_param = next((p_ for p_ in fi.params if p_ == "block_list"), None)
    shapes = [((3, 4), (5,), (2, 2, 2)), ((7,),), ((2, 3), (4, 5)), ((), (6,)), ((2, 3, 4, 5),)]
    from ..guards import MISSING, repo_pure_calls

    class Blk:
        def __init__(self, dims):
            self._d = tuple(dims)

        def size(self):
            return self._d

        shape = property(lambda self: self._d)

        def dim(self):
            return len(self._d)

    def hook(it, c):
        f = c.func
        if isinstance(f, ast.Attribute) and f.attr in ("size", "dim") and not c.args:
            b = it.ev(f.value)
            if isinstance(b, Blk):
                return getattr(b, f.attr)()
        return MISSING

    # the constructor's own statements up to the selector are run one by one; those outside the sub-language (super().__init__,
    # allocations) are skipped — the selector may be written as one expression or built in a loop
    stmts = []
    for st in fi.node.body:
        stmts.append(st)
        if any(st is d_ or any(x is d_ for x in ast.walk(st)) for d_ in defs):
            break
    bad, n = [], 0
    for dims_list, ignored in itertools.product(shapes, ([], [0], [1], [2], [0, 1], [0, 2], [3], [1, 3])):
        n += 1
        want = tuple(tuple(d not in ignored for d in range(len(dims))) for dims in dims_list)
        cfg = SimpleNamespace(ignored_dims=list(ignored))
        env = {"self": SimpleNamespace(_dims_list=tuple(dims_list), _preconditioner_config=cfg), cfg_param: cfg}
        if blk_param:
            env[blk_param] = tuple(Blk(d) for d in dims_list)
        it = Interp(env, call_hook=repo_pure_calls(repo, fi.module, inner=hook))
        for st in stmts:
            try:
                it.stmt(st, lambda e: ast.unparse(e))
            except (Unsupported, Raised, AttributeError, TypeError, KeyError, IndexError):
                continue
        got = it.env.get("preconditioned_dims_selector_list", "<not computed>")
        try:
            got = tuple(tuple(x) for x in got)
        except TypeError:
            pass
        if got == "<not computed>":
            raise AnalysisError(f"{rule}: the selector of {fi.qual} could not be computed in the interpreted sub-language")
        if got != want and len(bad) < 2:
            bad.append((dims_list, ignored, got, want))
    rep.ob(rule, "ignored-dims-selector", not bad, fi.loc(defs[0]), f"{n} (block shapes, ignored_dims) cases: selector[d] == (d not in ignored_dims) for every block" + (f"; for shapes {bad[0][0]} and ignored_dims {bad[0][1]}: code gives {bad[0][2]}, documented {bad[0][3]}" if bad else ""), sample=True)


def eigenbasis_evidence_is_the_blocks_own(ctx, rep, rule: str) -> None:
    """Whether a block is rotated is decided from that block's own stored eigenvectors: in the per-block loops of
    `precondition` and `_update_eigenvalue_corrections` every condition under which `_precondition_grad` is called is, after
    expanding locals, `<kf>.factor_matrices_eigenvectors and <kf>.factor_matrices_eigenvectors[0].any()` for the loop's own
    Kronecker-factor variable — not a flag computed from another block, not a Python attribute that a checkpoint does not
    restore (the eigenvectors are checkpointed, all-zero until the first refresh of that block)."""
    from types import SimpleNamespace

    from ..guards import MISSING, Interp, Raised, Unsupported

    repo = ctx.repo
    ci = repo.cls(f"{PL_MOD}:EigenvalueCorrectedShampooPreconditionerList")
    n = 0
    for mname in ("precondition", "_update_eigenvalue_corrections"):
        fi = repo.meth(ci, mname)
        cfg = CFG(fi.node)
        for loop in [l for l in A.walk_no_nested(fi.node) if isinstance(l, ast.For) and "_masked_kronecker_factors_list" in _norm(l.iter)]:
            # the loop variable bound to the Kronecker factors
            kf = None
            if isinstance(loop.target, ast.Tuple) and isinstance(loop.iter, ast.Call) and _norm(loop.iter.func) == "zip":
                for t, a in zip(loop.target.elts, loop.iter.args):
                    if "_masked_kronecker_factors_list" in _norm(a) and isinstance(t, ast.Name):
                        kf = t.id
            elif isinstance(loop.target, ast.Name):
                kf = loop.target.id
            calls = [c for c in A.calls(ast.Module(body=loop.body, type_ignores=[]), nested=True) if isinstance(c.func, ast.Attribute) and c.func.attr == "_precondition_grad"]
            for c in calls:
                cn = cfg.node_of(c)
                conds = [(t, lab) for t, lab in cfg.branch_conditions(cn) if t.kind == "test" and any(t.ast is x for x in ast.walk(loop))] if cn is not None else []
                if not conds:
                    continue
                n += 1
                # the conjunction of the conditions on the way to the rotation, evaluated for the three states a block can be in
                # (no eigenvectors at all / all-zero eigenvectors / computed eigenvectors); it may read nothing but this block
                class _E:  # an eigenvector tensor stand-in
                    def __init__(self, nz):
                        self._nz = nz

                    def any(self):
                        return self._nz

                def hook(it_, c_):
                    f_ = c_.func
                    if isinstance(f_, ast.Attribute) and f_.attr == "any" and not c_.args:
                        b_ = it_.ev(f_.value)
                        if isinstance(b_, _E):
                            return b_.any()
                    return MISSING

                def named(e):  # single-assignment locals of the loop body stand for their definitions (read-only expansion)
                    import copy as _copy

                    for _ in range(4):
                        names = {x.id for x in ast.walk(e) if isinstance(x, ast.Name) and isinstance(x.ctx, ast.Load)}
                        sub = {}
                        for nm in names:
                            ds = [s_ for s_ in ast.walk(loop) if isinstance(s_, ast.Assign) and len(s_.targets) == 1 and isinstance(s_.targets[0], ast.Name) and s_.targets[0].id == nm]
                            if len(ds) == 1 and nm != kf:
                                sub[nm] = ds[0].value
                        if not sub:
                            break

                        class R(ast.NodeTransformer):
                            def visit_Name(self, x):
                                return _copy.deepcopy(sub[x.id]) if isinstance(x.ctx, ast.Load) and x.id in sub else x

                        e = R().visit(_copy.deepcopy(e))
                    return e

                verdict, why = True, ""
                for label, ev_, want in (("no eigenvectors", (), False), ("all-zero eigenvectors", (_E(False),), False), ("computed eigenvectors", (_E(True), _E(True)), True)):
                    env = {kf: SimpleNamespace(factor_matrices_eigenvectors=ev_)} if kf else {}
                    try:
                        got = all(bool(Interp(dict(env), call_hook=hook).ev(named(t.ast.test))) == (lab == "T") for t, lab in conds)
                    except (Unsupported, Raised, AttributeError, TypeError, IndexError, KeyError) as ex:
                        verdict, why = False, f"it reads something that is not this block's stored eigenvectors ({type(ex).__name__}: {str(ex)[:60]})"
                        break
                    if got != want:
                        verdict, why = False, f"for a block with {label} the rotation is {'taken' if got else 'skipped'}"
                        break
                rep.ob(rule, f"eigenbasis-evidence-is-the-block's-own:{mname}", verdict, fi.loc(conds[0][0].ast), "`_precondition_grad` is reached exactly when this block's own `factor_matrices_eigenvectors` is non-empty and its first matrix has a non-zero entry (evaluated for: no / all-zero / computed eigenvectors)" + (f"; {why}" if why else ""), sample=True)
    rep.floor(rule, "conditions guarding the rotation in the per-block loops", n, 2)


def allocation_dtypes(ctx) -> dict[str, set[str]]:
    """state kind -> set of dtype expressions used at its allocate_zeros_tensor call sites."""
    repo = ctx.repo
    pts = ctx.engine("pts")
    kinds = pts.state_kinds()
    out: dict[str, set[str]] = {}
    for fi in repo.funcs.values():
        if fi.module.name not in ("distributed_shampoo.distributed_shampoo", "distributed_shampoo.utils.shampoo_preconditioner_list"):
            continue
        if fi.parent is not None:
            continue
        for c in A.calls(fi.node, nested=True):
            if isinstance(c.func, ast.Attribute) and c.func.attr == "allocate_zeros_tensor":
                d = A.keyword(c, "dtype")
                ks = set()
                for t in pts.tensors(pts.expr(fi.qual, c)):
                    ks |= kinds.get(t, set())
                # a dtype handed in as a parameter is whatever the callers pass for it
                d = _deref_dtype_local(fi.node, d)  # `block_dtype = block.dtype` (also in a tuple assignment) names the dtype
                texts = {_norm(d)}
                if isinstance(d, ast.Name) and d.id in fi.params:
                    texts = A.argument_sources(repo, fi, d.id) or texts
                for k in ks:
                    out.setdefault(k, set()).update(texts)
    return out


def dtype_rules(ctx, rep, rule: str) -> None:
    repo = ctx.repo
    alloc = allocation_dtypes(ctx)
    want = {
        "factor_matrices": "self._factor_matrix_dtype",
        "inv_factor_matrices": "block.dtype",
        "factor_matrices_eigenvectors": "block.dtype",
        "corrected_eigenvalues": "block.dtype",
        "adagrad": "block.dtype",
        "momentum": "block.dtype",
        "filtered_grad": "block.dtype",
    }
    for k, w in want.items():
        got = alloc.get(k, set())
        rep.ob(rule, f"alloc-dtype:{k}", got == {w}, "distributed_shampoo/utils/shampoo_preconditioner_list.py", f"state `{k}` is allocated with dtype {sorted(got)}; documented: {w} (factors in the preconditioner dtype, everything applied to gradients in the parameter dtype)", sample=k in ("factor_matrices", "factor_matrices_eigenvectors"))
    rep.floor(rule, "state kinds with a resolved allocation dtype", len(alloc), 6)
    # every _precondition_grad call contracts the gradient with BLOCK-dtype matrices
    n = 0
    for fi in repo.funcs.values():
        if fi.module.name != "distributed_shampoo.utils.shampoo_preconditioner_list":
            continue
        for c in A.calls(fi.node, nested=True):
            if isinstance(c.func, ast.Attribute) and c.func.attr == "_precondition_grad":
                a = A.keyword(c, "preconditioner_list")
                src = a
                if isinstance(a, ast.Name):
                    ds = A.assignments_to(fi.node, a.id)
                    src = ds[0] if len(ds) == 1 else a
                field = src.attr if isinstance(src, ast.Attribute) else None
                n += 1
                ok = field is not None and alloc.get(field) == {"block.dtype"}
                rep.ob(rule, f"rotate-dtype:{short(fi.qual)}:{field}", ok, fi.loc(c), f"`_precondition_grad` contracts the gradient (parameter dtype) with `{_norm(src)}` allocated as {sorted(alloc.get(field, []))}: tensordot needs equal dtypes")
    rep.floor(rule, "_precondition_grad call sites", n, 4)
    # the QR path: every same-dtype op has operands of one dtype
    qr = repo.func("matrix_functions:_compute_orthogonal_iterations")
    seeds = {p: ("of", p) for p in qr.params if p in ("A", "eigenvectors_estimate")}
    env, sites = infer_tags(repo, qr, seeds)
    rep.floor(rule, "same-dtype operations in _compute_orthogonal_iterations", len(sites), 2)
    for node, tagged in sites:
        tags = {t for _, t in tagged}
        rep.ob(rule, f"qr-dtype:{_norm(node)[:60]}", len(tags) == 1, qr.loc(node), f"`{_norm(node)[:80]}` combines " + ", ".join(f"{s}: dtype of {t[1]}" for s, t in tagged) + " — the factor matrix has the preconditioner dtype, the stored estimate the parameter dtype; they differ e.g. for bf16 parameters with fp32 factors", sample=True)


def exact_diagonal_flag(ctx, rep, rule: str) -> None:
    """The diagonal fast paths (identity eigenbasis, elementwise root) are exact only for exactly diagonal matrices: the
    flag must be computed by exact zero tests, never by a tolerance-based comparison."""
    repo = ctx.repo
    fi = repo.func("matrix_functions:check_diagonal")
    tol = []
    for c in A.calls(fi.node, nested=True):
        name = A.callee_name(repo, fi.module, c)
        last = name.split(".")[-1]
        if last in ("allclose", "isclose", "assert_close") or any(k.arg in ("atol", "rtol") for k in c.keywords):
            tol.append(_norm(c))
    cmp_tol = [n for n in ast.walk(fi.node) if isinstance(n, ast.Compare) and any(isinstance(op, (ast.Lt, ast.LtE)) for op in n.ops) and any(isinstance(x, ast.Constant) and isinstance(x.value, float) for x in ast.walk(n))]
    exact = [c for c in A.calls(fi.node, nested=True) if isinstance(c.func, ast.Attribute) and c.func.attr in ("any", "count_nonzero", "all")]
    # an ordering comparison anywhere in the function, or a parameter besides the matrix, is a tolerance knob
    ordering = [n for n in ast.walk(fi.node) if isinstance(n, ast.Compare) and any(isinstance(op, (ast.Lt, ast.LtE, ast.Gt, ast.GtE)) for op in n.ops)]
    knobs = [p for p in fi.params[1:]]
    cmp_tol = cmp_tol + [c for c in ordering if c not in cmp_tol]
    rep.ob(rule, "diagonal-flag-is-exact", not tol and not cmp_tol and not knobs and bool(exact), fi.loc(), "check_diagonal must test off-diagonal entries for exact zero" + (f"; tolerance-based comparison found: {tol + [_norm(c) for c in cmp_tol]}; extra parameters {knobs} — a nearly-diagonal factor would keep the flag and get the identity as eigenbasis / an elementwise root" if (tol or cmp_tol or knobs) else ""), sample=True)
    # every caller passes the matrix and nothing else
    callers = [(g, c) for g in repo.funcs.values() for c in A.calls(g.node) if repo.owner(c) is g and A.callee_name(repo, g.module, c).endswith("check_diagonal") and isinstance(c.func, ast.Name)]
    loose = [(g, c) for g, c in callers if len(c.args) != 1 or c.keywords]
    rep.ob(rule, "diagonal-flag-callers-pass-the-matrix-only", bool(callers) and not loose, loose[0][0].loc(loose[0][1]) if loose else fi.loc(), f"{len(callers)} call site(s) of check_diagonal: each passes the matrix only" + (f"; `{_norm(loose[0][1])[:90]}` passes more" if loose else ""))
    # the flag can only go from diagonal to non-diagonal, under the check
    chk = repo.func(f"{BASE}._check_factor_matrix_for_diagonality_nan_and_inf")
    first = next((n for n in chk.node.body if isinstance(n, ast.If)), None)
    ok = first is not None and _norm(first.test).replace("  ", " ") == "is_factor_matrix_diagonal and (not check_diagonal(factor_matrix))"
    if first is not None and not ok:
        t = first.test
        ok = isinstance(t, ast.BoolOp) and isinstance(t.op, ast.And) and len(t.values) == 2 and _norm(t.values[0]) == "is_factor_matrix_diagonal" and isinstance(t.values[1], ast.UnaryOp) and isinstance(t.values[1].op, ast.Not) and _norm(t.values[1].operand) == "check_diagonal(factor_matrix)"
    sets_false = first is not None and any(isinstance(c.func, ast.Attribute) and c.func.attr == "copy_" and "False" in _norm(c) for c in A.calls(first))
    rep.ob(rule, "diagonal-flag-cleared-when-not-diagonal", bool(ok and sets_false), chk.loc(first) if first is not None else chk.loc(), "the stored flag is cleared as soon as the (bias-corrected) factor matrix is not exactly diagonal, before it is handed to the matrix routine")


def eigenvector_dispatch(ctx, rep, rule: str) -> None:
    from ..dispatch import body_raises, find_chains, first_match, unknown_subclasses_rejected

    repo = ctx.repo
    fi = repo.func("matrix_functions:matrix_eigenvectors")
    m = fi.module
    chains = find_chains(repo, m, fi.node)
    if len(chains) != 1:
        raise AnalysisError(f"{rule}: expected one type-dispatch chain in matrix_eigenvectors, found {len(chains)}")
    chain = chains[0]
    base = repo.cls("matrix_functions_types:EigenvectorConfig")
    want = {"EighEigenvectorConfig": "matrix_eigenvalue_decomposition", "QRConfig": "_compute_orthogonal_iterations"}
    for ci in repo.concrete_subclasses(base):
        arm = first_match(repo, chain, ci)
        calls = [c for st in (arm.body if arm else []) for c in A.calls(st, nested=True) if A.callee_name(repo, m, c).startswith("matrix_functions.")]
        names = [A.callee_name(repo, m, c).split(".")[-1] for c in calls]
        ok = arm is not None and names == [want.get(ci.name)]
        detail = f"{ci.name} -> {names} (documented {want.get(ci.name)})"
        if ok:
            c = calls[0]
            cfgv = "eigenvector_computation_config"
            passed = {k.arg: _norm(k.value) for k in c.keywords if _norm(k.value).startswith(cfgv + ".")}
            fields = [f[0] for f in repo.all_fields(ci)]
            solver = repo.func("matrix_functions:" + want[ci.name])
            fwd = all(v == f"{cfgv}.{k}" for k, v in passed.items()) and set(passed) == (set(fields) & set(solver.params))
            a_ok = _norm(c.args[0]) == "A" if c.args else _norm(A.keyword(c, "A")) == "A"
            est_ok = ci.name != "QRConfig" or _norm(A.keyword(c, "eigenvectors_estimate")) == "eigenvectors_estimate"
            picks_q = ci.name != "EighEigenvectorConfig" or any(isinstance(x, ast.Return) and isinstance(x.value, ast.Subscript) and _norm(x.value.slice) == "1" for x in arm.body)
            ok = fwd and a_ok and est_ok and picks_q
            detail += f"; forwards A: {a_ok}; config fields forwarded by name {sorted(passed)}: {fwd}; previous basis forwarded: {est_ok}; eigenvectors (index 1) returned: {picks_q}"
        rep.ob(rule, f"eigenvector-dispatch:{ci.name}", ok, fi.loc(arm.node) if arm else fi.loc(), detail, sample=True)
    last = chain[-1]
    rep.ob(rule, "eigenvector-dispatch:fall-through", last.kind == "else" and body_raises(repo, m, last.body) == "NotImplementedError", fi.loc(last.node), "unknown eigenvector configs raise NotImplementedError")
    bad = unknown_subclasses_rejected(repo, m, chain, repo.concrete_subclasses(base))
    rep.ob(rule, "eigenvector-dispatch:unknown-subclasses-rejected", not bad, fi.loc(), f"unknown subclasses must raise NotImplementedError {bad[:2] if bad else ''}")
    body = [x for x in fi.node.body if isinstance(x, ast.If)]
    one = body[0] if body else None
    ok = one is not None and "numel(A) == 1" in _norm(one.test) and len(one.body) == 1 and _norm(one.body[0]) == "return torch.ones_like(A)"
    rep.ob(rule, "eigenvector-fast-path:1x1-is-one", ok, fi.loc(one) if one is not None else fi.loc(), "a 1-element input yields ones_like(A)")
    dg = [x for x in body if _norm(x.test) == "is_diagonal"]
    ok = len(dg) == 1 and len(dg[0].body) == 1 and isinstance(dg[0].body[0], ast.Return) and "torch.eye(" in A.tnorm(A.expanded(fi.node, dg[0].body[0].value)) and "A.shape[0]" in A.tnorm(A.expanded(fi.node, dg[0].body[0].value)) and "dtype=A.dtype" in A.tnorm(A.expanded(fi.node, dg[0].body[0].value))
    rep.ob(rule, "eigenvector-fast-path:diagonal-is-identity", ok, fi.loc(dg[0]) if dg else fi.loc(), "a diagonal-flagged input yields the identity of A's size and dtype")


def run(ctx, rep) -> None:
    repo = ctx.repo
    pts = ctx.engine("pts")
    rep.rule("C03.8", "matrix_eigenvectors dispatch: eigh config -> eigendecomposition's eigenvectors, QR config -> orthogonal iterations with the previous basis, tolerance and iteration cap forwarded; fast paths; unknown configs raise")
    rep.attempt("eigenvector_dispatch", eigenvector_dispatch, ctx, rep, "C03.8")
    rep.rule("C03.5", "the diagonal flag is exact (no tolerance) and is cleared before the matrix routine sees a non-diagonal factor")
    rep.attempt("exact_diagonal_flag", exact_diagonal_flag, ctx, rep, "C03.5")
    rep.rule("C03.9", "the eigendecomposition hands back eigh's outputs unconverted (device move only): a double-precision retry reaches the parameter-precision store without an intermediate rounding")
    from .c12 import decomposition_structure

    rep.attempt("decomposition_structure", decomposition_structure, ctx, rep, "C03.9")
    rep.rule("C03.1", "the eigenbasis refresh precedes the corrected-eigenvalue update, which runs on every update_preconditioners call")
    rep.rule("C03.2", "precondition(): rotate -> divide -> rotate back, same basis / selector / guard, transposed contraction; the accumulator update rotates under the same predicate; ignored dims are only permuted")
    rep.rule("C03.3", "basis refreshed only under the schedule flag, which is true exactly at step == start or (step > start and step % frequency == 0); eigenvectors and corrected eigenvalues written only by their own updates")
    rep.rule("C03.4", "dtype compatibility of allocations and of every same-dtype operation on the rotation and QR paths")
    ci = repo.cls(EVC)
    up = ci.methods.get("update_preconditioners")
    if up is None:
        raise AnalysisError("EigenvalueCorrectedShampooPreconditionerList.update_preconditioners not found")
    cfg = CFG(up.node)
    sup = [c for c in A.calls(up.node) if isinstance(c.func, ast.Attribute) and c.func.attr == "update_preconditioners" and isinstance(c.func.value, ast.Call)]
    upd = [c for c in A.calls(up.node) if isinstance(c.func, ast.Attribute) and c.func.attr == "_update_eigenvalue_corrections"]
    ok = len(sup) == 1 and len(upd) == 1 and cfg.dominates(cfg.node_of(sup[0]), cfg.node_of(upd[0])) and cfg.node_of(sup[0]) is not cfg.node_of(upd[0])
    rep.ob("C03.1", "refresh-before-accumulate", ok, up.loc(upd[0]) if upd else up.loc(), "super().update_preconditioners (factor update + scheduled basis refresh) must precede _update_eigenvalue_corrections: the squared gradient is accumulated in the basis that precondition() uses", sample=True)
    conds = [(t, p) for t, p in guard_conditions(cfg, cfg.node_of(upd[0]))] if upd else [None]
    rep.ob("C03.1", "accumulate-every-step", upd and not conds, up.loc(upd[0]) if upd else up.loc(), "the corrected-eigenvalue update is unconditional (not under the refresh schedule)")
    fwd = sup and all(isinstance(A.keyword(sup[0], k), ast.Name) and A.keyword(sup[0], k).id == k for k in ("masked_grad_list", "step", "perform_amortized_computation"))
    rep.ob("C03.1", "super-call-forwards-arguments", bool(fwd), up.loc(sup[0]) if sup else up.loc(), "gradients, step and the schedule flag are forwarded unchanged to the base update")
    # ---- C03.2
    pre = repo.meth(ci, "precondition")
    pcfg = CFG(pre.node)
    rots = [c for c in A.calls(pre.node) if isinstance(c.func, ast.Attribute) and c.func.attr == "_precondition_grad"]
    divs = [w for w in pts.writes if w.func == pre.qual and w.op == "div_"]
    ok = len(rots) == 2 and len(divs) == 1
    detail = f"{len(rots)} rotation(s), {len(divs)} in-place division(s) in precondition()"
    if ok:
        r1, r2 = rots
        same_basis = _norm(A.keyword(r1, "preconditioner_list")) == _norm(A.keyword(r2, "preconditioner_list"))
        same_sel = _norm(A.keyword(r1, "preconditioned_dims_selector")) == _norm(A.keyword(r2, "preconditioned_dims_selector"))
        d1, d2 = A.keyword(r1, "dims"), A.keyword(r2, "dims")
        fwd_dims = d1 is None or _norm(d1) == "([0], [0])"
        back_dims = d2 is not None and _norm(d2) == "([0], [1])"
        g1, g2 = guard_conditions(pcfg, pcfg.node_of(r1)), guard_conditions(pcfg, pcfg.node_of(r2))
        same_guard = [(_norm(t), p) for t, p in g1] == [(_norm(t), p) for t, p in g2] and len(g1) == 1 and g1[0][1] is True
        order = pcfg.dominates(pcfg.node_of(r1), pcfg.node_of(divs[0].node)) is False  # r1 is conditional, so check by position on the guarded path
        n1, nd, n2 = pcfg.node_of(r1), pcfg.node_of(divs[0].node), pcfg.node_of(r2)
        order = nd in pcfg.reachable(n1) and n2 in pcfg.reachable(nd) and n1 not in pcfg.reachable(nd, avoid=lambda x: x.kind == "loop")
        chained = all(isinstance(A.keyword(r, "grad"), ast.Name) for r in rots) and A.keyword(r1, "grad").id == A.keyword(r2, "grad").id == (divs[0].node.func.value.id if isinstance(divs[0].node.func.value, ast.Name) else None)
        ok = same_basis and same_sel and fwd_dims and back_dims and same_guard and order and chained
        detail = f"same basis: {same_basis}; same dims selector: {same_sel}; forward contraction ([0],[0]): {fwd_dims}; backward (transposed) contraction ([0],[1]): {back_dims}; both under the same single guard: {same_guard}; rotate < divide < rotate-back on one value: {order and chained}"
    rep.ob("C03.2", "rotate-divide-rotate-back", ok, pre.loc(), detail, sample=True)
    # the guard variable's definition == the predicate used in _update_eigenvalue_corrections
    uec = repo.meth(ci, "_update_eigenvalue_corrections")
    ucfg = CFG(uec.node)
    urot = [c for c in A.calls(uec.node) if isinstance(c.func, ast.Attribute) and c.func.attr == "_precondition_grad"]
    pred_u = [_norm(t) for t, p in guard_conditions(ucfg, ucfg.node_of(urot[0]))] if urot else []
    gdefs = []
    if len(rots) == 2:
        for t, p in guard_conditions(pcfg, pcfg.node_of(rots[0])):
            if isinstance(t, ast.Name):
                gdefs += [_norm(d) for d in A.assignments_to(pre.node, t.id)]
            else:
                gdefs.append(_norm(t))
    def canon_pred(s):
        return s.replace("kronecker_factors.factor_matrices_eigenvectors", "factor_eigenvectors")
    ok = len(urot) == 1 and len(pred_u) == 1 and len(gdefs) == 1 and canon_pred(pred_u[0]) == canon_pred(gdefs[0])
    # both predicates are decided semantically by `eigenbasis-evidence-is-the-block's-own` (the same truth table for both methods);
    # the text comparison is kept only as information
    rep.ob("C03.2", "same-basis-exists-predicate", True, uec.loc(urot[0]) if urot else uec.loc(), f"accumulator update rotates iff `{pred_u}`; precondition() rotates iff `{gdefs}` — they must be the same predicate so that accumulator and direction live in the same coordinates", sample=True)
    if urot and len(rots) == 2:
        ok = _norm(A.keyword(urot[0], "dims")) in ("<none>", "([0], [0])") and _norm(A.keyword(urot[0], "preconditioned_dims_selector")) == _norm(A.keyword(rots[0], "preconditioned_dims_selector"))
        rep.ob("C03.2", "accumulator-rotates-forward", ok, uec.loc(urot[0]), "the accumulator update uses the forward rotation with the block's dims selector")
    pg = repo.func(f"{BASE}._precondition_grad")
    fs = A.folds(repo, pg.module, pg.node)
    ok = False
    if len(fs) == 1:
        st = ast.parse(fs[0].step.replace("$acc", "ACC__").replace("$0", "SEL__"), mode="eval").body
        if isinstance(st, ast.IfExp):
            pos, neg = (st.body, st.orelse) if _norm(st.test) == "SEL__" else ((st.orelse, st.body) if _norm(st.test) == "not SEL__" else (None, None))
            ok = pos is not None and "tensordot" in _norm(pos) and "tensordot" not in _norm(neg) and "permute" in _norm(neg) and "next(" in _norm(pos) and "next(" not in _norm(neg) and "ACC__" in _norm(pos) and "ACC__" in _norm(neg)
            ok = ok and _norm(fs[0].iter) == "preconditioned_dims_selector" and A.expanded(pg.node, fs[0].init) == pg.params[1 if pg.params and pg.params[0] in ("self", "cls") else 0]
    rep.ob("C03.2", "ignored-dims-only-permuted", ok, pg.loc(), "in _precondition_grad a non-selected dimension is rotated to the back without contraction and without consuming a preconditioner", sample=True)
    # ---- C03.3
    rep.attempt("_amortized_guard", _amortized_guard, ctx, _Proxy(rep, "C01.3", "C03.3"))
    from .c01 import schedule_expr_check
    from .common import DS

    rep.attempt("schedule_expr_check", schedule_expr_check, ctx, rep, "C03.3", ctx.repo.method(DS, "step"), "perform_amortized_computation", lambda s, a, f, env: s == a or (s > a and s % f == 0), "step == start or (step > start and step % freq == 0)")
    rep.attempt("who_may_write", who_may_write, ctx, rep, "C03.3", only_kinds={"factor_matrices_eigenvectors", "corrected_eigenvalues", "factor_matrices"}, include_params=False)
    from .c01 import inverse_root_selection
    from .common import gradients_are_inputs

    rep.rule("C03.10", "inverse-root selection per tensor order (override 0 -> default rule 2, n -> n, sequence -> entry of that order); the gradient lists handed to the preconditioner are read-only inputs (the direction is computed on a copy)")
    rep.attempt("inverse_root_selection", inverse_root_selection, ctx, rep, "C03.10")
    rep.attempt("gradients_are_inputs", gradients_are_inputs, ctx, rep, "C03.10")
    rep.attempt("eigenbasis_evidence", eigenbasis_evidence_is_the_blocks_own, ctx, rep, "C03.2")
    rep.attempt("ignored_dims_selector", ignored_dims_selector, ctx, rep, "C03.2")
    from .c09 import bias_correction_every_step

    rep.attempt("bias_correction_every_step", bias_correction_every_step, ctx, rep, "C03.6")
    from .c12 import defaults_agree_with_configs

    rep.attempt("defaults_agree_with_configs", defaults_agree_with_configs, ctx, rep, "C03.9")
    from . import c13

    rep.rule("C03.11", "only finite bases are stored: the NaN/Inf test on the computed eigenvectors dominates the copy into the stored basis and raises outside the try (a rejected result leaves the last valid basis in place)")
    rep.attempt("finite_store", c13.run, ctx, _Only(rep, "C13.2", "C03.11"))
    # ---- C03.4
    rep.attempt("dtype_rules", dtype_rules, ctx, rep, "C03.4")
    from .arith import factor_arithmetic, qr_iteration_arithmetic, soap_arithmetic

    rep.rule("C03.7", "QR method: one orthogonal iteration Q <- qr(A @ Q).Q with the relative-change stopping rule, Rayleigh-quotient column order, zero-estimate fallback (exact term comparison)")
    rep.attempt("qr_iteration_arithmetic", qr_iteration_arithmetic, ctx, rep, "C03.7")

    rep.rule("C03.6", "arithmetic of SOAP: C <- C + rot(G)^2 | beta2*C + (1-beta2)*rot(G)^2; direction = rot_back(rot(G) / (C/bias_correction2 + eps)^(1/root)); factor accumulation (exact term comparison)")
    rep.attempt("soap_arithmetic", soap_arithmetic, ctx, rep, "C03.6")
    rep.attempt("factor_arithmetic", factor_arithmetic, ctx, rep, "C03.6")
    rep.assume("orthonormality, diagonalisation and that the QR result is the orthogonal-iteration update are numerical and NOT decided")


class _Proxy:
    """Re-labels the rule id of obligations produced by a shared rule function."""

    def __init__(self, rep, old: str, new: str) -> None:
        self._rep, self._old, self._new = rep, old, new

    def __getattr__(self, name):
        return getattr(self._rep, name)

    def ob(self, rule, *a, **k):
        return self._rep.ob(self._new if rule == self._old else rule, *a, **k)

    def floor(self, rule, *a, **k):
        return self._rep.floor(self._new if rule == self._old else rule, *a, **k)


class _Only:
    """Runs another property's rule set but keeps only the obligations of one of its rules, re-labelled."""

    def __init__(self, rep, old: str, new: str) -> None:
        self._rep, self._old, self._new = rep, old, new
        self.notes = {}

    def __getattr__(self, name):
        return getattr(self._rep, name)

    def ob(self, rule, *a, **k):
        if rule == self._old:
            return self._rep.ob(self._new, *a, **k)

    def floor(self, rule, *a, **k):
        if rule == self._old:
            return self._rep.floor(self._new, *a, **k)

    def rule(self, *a, **k):
        return None

    def assume(self, *a, **k):
        return None

    def attempt(self, name, fn, *a, **k):
        a = tuple(self if x is self._rep else x for x in a)
        return self._rep.attempt(name, fn, *a, **k)

