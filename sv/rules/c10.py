"""C10 — matrix inverse root is accurate for every solver (control-structure part only).

C10.1 dispatch: every concrete RootInvConfig subclass reaches exactly one solver arm that forwards A, root (its numerator
      only under a dominating denominator == 1 check), epsilon and the config's fields (field names ⊆ solver parameters);
      the scalar / diagonal fast paths precede the dispatch and receive root and epsilon; fall-through raises;
C10.2 a reported CONVERGED has met the tolerance: the flag is CONVERGED iff the last residual <= tolerance;
C10.3 higher-order solver: the residual guard and the NaN/Inf guard dominate the return and are computed
      unconditionally from the returned X; the tf32 flag is restored on every exit;
C10.4 regularised-input discipline: once the ridge matrix A + epsilon*I is formed, the raw input is not read again.
"""

from __future__ import annotations

import ast
import itertools
from types import SimpleNamespace

from .. import astutil as A
from ..cfg import CFG
from ..dispatch import body_raises, find_chains, first_match, unknown_subclasses_rejected
from ..guards import MISSING, Interp, Unsupported
from ..loader import AnalysisError
from .c06 import _norm

MF = "matrix_functions"
MFT = "matrix_functions_types"


def dispatch_rules(ctx, rep, rule: str) -> None:
    repo = ctx.repo
    fi = repo.func(f"{MF}:matrix_inverse_root")
    m = fi.module
    chains = find_chains(repo, m, fi.node)
    if len(chains) != 1:
        raise AnalysisError(f"{rule}: expected one type-dispatch chain in matrix_inverse_root, found {len(chains)}")
    chain = chains[0]
    base = repo.cls(f"{MFT}:RootInvConfig")
    want = {"EigenConfig": "_matrix_inverse_root_eigen", "CoupledNewtonConfig": "_matrix_inverse_root_newton", "CoupledHigherOrderConfig": "_matrix_inverse_root_higher_order"}
    n = 0
    for ci in repo.concrete_subclasses(base):
        # arms before the type tests (is_diagonal) are value tests: skip them for type matching
        arm = None
        for a in chain:
            if a.kind in ("type_is", "isinstance"):
                r = a.matches(repo, ci)
                if r:
                    arm = a
                    break
            elif a.kind == "else":
                arm = a
        n += 1
        if arm is None or arm.kind == "else":
            rep.ob(rule, f"dispatch:{ci.name}", ci.name not in want and arm is not None and body_raises(repo, m, arm.body) == "NotImplementedError", fi.loc(), f"{ci.name}: no solver arm" + ("" if ci.name in want else " (unknown config: must raise NotImplementedError)"))
            continue
        calls = [c for s in arm.body for c in A.calls(s) if A.callee_name(repo, m, c).startswith(f"{MF}._matrix_inverse_root")]
        ok = len(calls) == 1 and A.callee_name(repo, m, calls[0]).split(".")[-1] == want.get(ci.name)
        detail = f"{ci.name} -> {[A.callee_name(repo, m, c).split('.')[-1] for c in calls]} (documented {want.get(ci.name)})"
        if ok:
            c = calls[0]
            solver = repo.func(f"{MF}:{want[ci.name]}")
            a_ok = _norm(A.keyword(c, "A")) == "A"
            eps_kw = "abs_epsilon" if "abs_epsilon" in solver.params else "epsilon"
            e_ok = _norm(A.keyword(c, eps_kw)) == "epsilon"
            r = _norm(A.keyword(c, "root"))
            root_ok = r == "root"
            if r == "root.numerator":
                # must be dominated by a denominator == 1 check that raises
                guards = [s for s in arm.body if isinstance(s, ast.If) and "root.denominator" in _norm(s.test) and "!= 1" in _norm(s.test) and any(isinstance(x, ast.Raise) for x in s.body)]
                root_ok = len(guards) == 1 and guards[0].lineno < c.lineno
            # config fields
            fields = [f[0] for f in repo.all_fields(ci)]
            star = [k for k in c.keywords if k.arg is None]
            if star:
                cfg_ok = all(_norm(k.value) == "asdict(root_inv_config)" for k in star) and set(fields) <= set(solver.params)
                fdetail = f"**asdict(config): fields {fields} ⊆ solver parameters: {set(fields) <= set(solver.params)}"
            else:
                passed = {k.arg: _norm(k.value) for k in c.keywords if _norm(k.value).startswith("root_inv_config.")}
                cfg_ok = all(v == f"root_inv_config.{k}" for k, v in passed.items()) and set(passed) == (set(fields) & set(solver.params))
                fdetail = f"explicit fields {sorted(passed)}; config fields that are solver parameters: {sorted(set(fields) & set(solver.params))}"
            ok = a_ok and e_ok and root_ok and cfg_ok
            detail += f"; forwards A: {a_ok}, epsilon as {eps_kw}: {e_ok}, root ({r}): {root_ok}; {fdetail}"
        rep.ob(rule, f"dispatch:{ci.name}", ok, fi.loc(arm.node), detail, sample=True)
    last = chain[-1]
    rep.ob(rule, "dispatch:fall-through", last.kind == "else" and body_raises(repo, m, last.body) == "NotImplementedError", fi.loc(last.node), "unknown root-inverse configs raise NotImplementedError")
    type_arms = [a for a in chain if a.kind in ("type_is", "isinstance", "else")]
    bad = unknown_subclasses_rejected(repo, m, type_arms, repo.concrete_subclasses(base))
    rep.ob(rule, "dispatch:unknown-subclasses-rejected", not bad, fi.loc(), "a root-inverse config of an unknown subclass raises NotImplementedError" + (f": {bad[:3]}" if bad else ""))
    rep.floor(rule, "RootInvConfig subclasses dispatched", n, 3)
    # fast paths
    cfg = CFG(fi.node)
    body = [s for s in fi.node.body if not (isinstance(s, ast.Expr) and isinstance(s.value, ast.Constant))]
    first = body[0]
    scalar_ok = isinstance(first, ast.If) and "numel(A) == 1" in _norm(first.test) and len(first.body) == 1 and isinstance(first.body[0], ast.Return) and {"root", "epsilon", "A"} <= A.names_in(first.body[0].value)
    rep.ob(rule, "fast-path:scalar", scalar_ok, fi.loc(first), f"1-element input returns `{_norm(first.body[0].value) if scalar_ok else '?'}` — must use A, epsilon and root", sample=True)
    diag = [c for c in A.calls(fi.node) if A.callee_name(repo, m, c) == f"{MF}._matrix_inverse_root_diagonal"]
    ok = len(diag) == 1 and _norm(A.keyword(diag[0], "A")) == "A" and _norm(A.keyword(diag[0], "root")) == "root" and _norm(A.keyword(diag[0], "epsilon")) == "epsilon"
    if ok:
        conds = [(t.ast.test, lab) for t, lab in cfg.branch_conditions(cfg.node_of(diag[0])) if t.kind == "test"]
        ok = any(_norm(t) == "is_diagonal" and lab == "T" for t, lab in conds)
    rep.ob(rule, "fast-path:diagonal", ok, fi.loc(diag[0]) if diag else fi.loc(), "the diagonal fast path runs only under is_diagonal and receives A, root, epsilon")


def convergence_flag(ctx, rep, rule: str) -> None:
    repo = ctx.repo
    for name in ("_matrix_inverse_root_newton", "_matrix_inverse_root_higher_order"):
        fi = repo.func(f"{MF}:{name}")
        m = fi.module
        n = 0
        for node in ast.walk(fi.node):
            if isinstance(node, ast.IfExp) and "NewtonConvergenceFlag.CONVERGED" in _norm(node):
                n += 1
                bad = []
                for err, tol in ((0.5, 1.0), (1.0, 1.0), (2.0, 1.0), (0.0, 0.0), (1e-9, 0.0)):
                    def resolve(nm):
                        if nm == "NewtonConvergenceFlag":
                            import types

                            return types.SimpleNamespace(CONVERGED="CONVERGED", REACHED_MAX_ITERS="REACHED_MAX_ITERS", EARLY_STOP="EARLY_STOP")
                        raise Unsupported(nm)
                    try:
                        v = Interp({"error": err, "tolerance": tol}, resolve_name=resolve).ev(node)
                    except Unsupported as u:
                        raise AnalysisError(f"{rule}: convergence flag expression outside the sub-language: {u}") from u
                    if (v == "CONVERGED") != (err <= tol):
                        bad.append((err, tol, v))
                rep.ob(rule, f"converged-iff-residual<=tolerance:{name}", not bad, fi.loc(node), f"`{_norm(node)}` must yield CONVERGED exactly when error <= tolerance" + (f"; at (error, tolerance)={bad[0][:2]} it yields {bad[0][2]}" if bad else ""), sample=True)
                # `error` is the residual of the returned coupled matrix: last assignment before the flag in source order is a norm of (M - I) / dist(M, I)
                asg = [x for x in A.walk_no_nested(fi.node) if isinstance(x, ast.Assign) and isinstance(x.targets[0], ast.Name) and x.targets[0].id == "error" and x.lineno < node.lineno]
                ok = bool(asg) and all(("identity" in _norm(x.value) and "M" in A.names_in(x.value)) or _norm(x.value) == "new_error" for x in asg)
                rep.ob(rule, f"residual-is-|M-I|:{name}", ok, fi.loc(asg[-1]) if asg else fi.loc(), "every assignment of `error` is a norm of M - I of the current coupled matrix (or the freshly computed new_error)")
        rep.floor(rule, f"{name} CONVERGED expressions", n, 1)
        # any other way to produce CONVERGED?
        par = A.parents(fi.node)
        others = [x for x in ast.walk(fi.node) if isinstance(x, ast.Attribute) and x.attr == "CONVERGED" and not isinstance(par.get(id(x)), ast.Compare)]
        rep.ob(rule, f"converged-only-from-checked-expression:{name}", len(others) == n, fi.loc(), f"{len(others)} occurrence(s) of CONVERGED, {n} inside residual-checked conditional expressions")


def higher_order_guards(ctx, rep, rule: str) -> None:
    repo = ctx.repo
    fi = repo.func(f"{MF}:_matrix_inverse_root_higher_order")
    cfg = CFG(fi.node)
    rets = [n for n in cfg.nodes if n.kind == "stmt" and isinstance(n.ast, ast.Return)]
    if len(rets) != 1:
        raise AnalysisError(f"{rule}: expected one return in _matrix_inverse_root_higher_order")
    ret = rets[0]
    xname = ret.ast.value.elts[0].id if isinstance(ret.ast.value, ast.Tuple) and isinstance(ret.ast.value.elts[0], ast.Name) else None
    # the residual variable: the returned name that is assigned from A_ridge @ matrix_power(X, p) - I
    ename = None
    for el in (ret.ast.value.elts if isinstance(ret.ast.value, ast.Tuple) else []):
        if isinstance(el, ast.Name) and any("matrix_power" in _norm(d) and "A_ridge" in _norm(d) for d in A.assignments_to(fi.node, el.id)):
            ename = el.id
    if ename is None:
        # fall back to any variable compared against a constant in a raising guard after the iteration
        for t in cfg.nodes:
            if t.kind == "test" and isinstance(t.ast.test, ast.Compare) and isinstance(t.ast.test.left, ast.Name) and isinstance(t.ast.test.ops[0], ast.Gt) and isinstance(t.ast.test.comparators[0], ast.Constant) and any(isinstance(x, ast.Raise) for x in t.ast.body):
                ename = t.ast.test.left.id
    # residual guard
    tests = [t for t in cfg.nodes if t.kind == "test" and isinstance(t.ast.test, ast.Compare) and isinstance(t.ast.test.left, ast.Name) and t.ast.test.left.id == ename and isinstance(t.ast.test.ops[0], ast.Gt)]
    ok = len(tests) == 1 and cfg.dominates(tests[0], ret) and any(isinstance(s, ast.Raise) for s in tests[0].ast.body)
    rep.ob(rule, "residual-guard-dominates-return", ok, fi.loc(tests[0].ast) if tests else fi.loc(), f"`if {ename} > <guard>: raise` lies on every path to the return", sample=True)
    te = [n for n in A.walk_no_nested(fi.node) if isinstance(n, ast.Assign) and isinstance(n.targets[0], ast.Name) and n.targets[0].id == ename]
    ok = len(te) == 1
    detail = f"{len(te)} assignment(s) of the guarded residual `{ename}`"
    if ok and tests:
        n = cfg.node_of(te[0])
        conds = []
        for t, lab in cfg.branch_conditions(n):
            if t.kind != "test":
                continue
            # a test whose other branch can only raise is a guard, not a condition of the computation
            other = [s for s, l in t.succ if l != lab]
            reach = set()
            for o in other:
                reach |= cfg.reachable(o)
            if cfg.exit in reach:
                conds.append((t, lab))
        names = A.names_in(te[0].value)
        ok = not conds and cfg.dominates(n, tests[0]) and {xname, "A_ridge", "identity"} <= names and "matrix_power" in _norm(te[0].value)
        detail = f"{ename} = `{_norm(te[0].value)[:90]}`: computed unconditionally ({not conds}) from the returned `{xname}`, A_ridge and I ({ {xname, 'A_ridge', 'identity'} <= names }), before the guard ({cfg.dominates(n, tests[0])}) — reusing the coupled-iteration proxy |M - I| would skip the guard exactly when M has drifted from A_ridge X^p"
    rep.ob(rule, "residual-recomputed-from-returned-X", ok, fi.loc(te[0]) if te else fi.loc(), detail, sample=True)
    # X is not reassigned between the residual and the guard except the documented powering afterwards
    nan = [t for t in cfg.nodes if t.kind == "test" and "isnan" in _norm(t.ast.test) and "isinf" in _norm(t.ast.test)]
    ok = len(nan) == 1 and cfg.dominates(nan[0], ret) and any(isinstance(s, ast.Raise) for s in nan[0].ast.body) and {xname} == {a for k in A.calls(nan[0].ast.test, nested=True) for a in A.names_in(k) if a == xname}
    last_x = max((n.lineno for n in A.walk_no_nested(fi.node) if isinstance(n, ast.Assign) and any(isinstance(t, ast.Name) and t.id == xname for t in n.targets)), default=0)
    ok = ok and nan[0].ast.lineno > last_x
    rep.ob(rule, "nan-inf-guard-after-last-X", ok, fi.loc(nan[0].ast) if nan else fi.loc(), f"the NaN/Inf test of `{xname}` follows its last assignment and dominates the return")
    # fractional roots: after the residual has been checked, X is raised to the root's denominator — exactly once
    qdefs = [n for n in A.walk_no_nested(fi.node) if isinstance(n, ast.Assign) and isinstance(n.targets[0], ast.Name) and _norm(n.value) == "root.denominator"]
    qname = qdefs[0].targets[0].id if len(qdefs) == 1 else None
    after = [n for n in A.walk_no_nested(fi.node) if isinstance(n, (ast.Assign, ast.AugAssign)) and te and n.lineno > te[0].lineno and any(isinstance(t, ast.Name) and t.id == xname for t in (n.targets if isinstance(n, ast.Assign) else [n.target]))]
    ok = qname is not None and len(after) == 1 and isinstance(after[0], ast.Assign) and _norm(after[0].value) == f"torch.linalg.matrix_power({xname}, {qname})"
    if ok:
        conds = [(t.ast.test, lab) for t, lab in cfg.branch_conditions(cfg.node_of(after[0])) if t.kind == "test" and qname in A.names_in(t.ast.test)]
        ok = all(_norm(t) in (f"{qname} > 1", f"{qname} != 1", f"{qname} >= 2") and lab == "T" for t, lab in conds)
    rep.ob(rule, "fractional-root-powering-is-X^q", ok, fi.loc(after[0]) if after else fi.loc(), f"for a root p/q the result of the coupled iteration (≈ A^(-1/p)) must be raised to exactly q = root.denominator by one matrix_power({xname}, {qname}); found {[_norm(n)[:60] for n in after]}", sample=True)
    # tf32 restore in finally
    tries = [n for n in A.walk_no_nested(fi.node) if isinstance(n, ast.Try)]
    ok = len(tries) == 1 and bool(tries[0].finalbody) and "allow_tf32 = tf32_flag" in _norm(ast.Module(body=tries[0].finalbody, type_ignores=[]))
    saved = any(isinstance(n, ast.Assign) and _norm(n.targets[0]) == "tf32_flag" and "allow_tf32" in _norm(n.value) and n.lineno < tries[0].lineno for n in A.walk_no_nested(fi.node)) if tries else False
    rep.ob(rule, "tf32-flag-restored-on-every-exit", ok and saved, fi.loc(tries[0]) if tries else fi.loc(), "the global tf32 flag is saved before and restored in a `finally` (also when a guard raises)")


def ridge_discipline(ctx, rep, rule: str) -> None:
    """After `A_ridge = A + epsilon * I` is formed the raw input may only be read for shape / dtype / device."""
    repo = ctx.repo
    n = 0
    for name in ("_matrix_inverse_root_newton", "_matrix_inverse_root_higher_order", "_matrix_inverse_root_eigen"):
        fi = repo.func(f"{MF}:{name}")
        ridge = [x for x in A.walk_no_nested(fi.node) if isinstance(x, ast.Assign) and isinstance(x.targets[0], ast.Name) and x.targets[0].id == "A_ridge" and "epsilon" in _norm(x.value)]
        if not ridge:
            continue
        n += 1
        line = max(x.lineno for x in A.walk_no_nested(fi.node) if isinstance(x, ast.Assign) and isinstance(x.targets[0], ast.Name) and x.targets[0].id == "A_ridge")
        par = A.parents(fi.node)
        bad = []
        for x in A.walk_no_nested(fi.node):
            if isinstance(x, ast.Name) and x.id == "A" and isinstance(x.ctx, ast.Load) and x.lineno > line:
                p = par.get(id(x))
                if isinstance(p, ast.Attribute) and p.attr in ("shape", "dtype", "device"):
                    continue
                bad.append(x)
        rep.ob(rule, f"ridge-discipline:{name}", not bad, fi.loc(bad[0]) if bad else fi.loc(ridge[0]), "after the regularised matrix A_ridge is formed, the raw A must not be used in the computation" + (f"; raw A is read at line(s) {sorted({b.lineno for b in bad})} (e.g. a scaling computed from ||A|| instead of ||A + eps I|| breaks the solver's convergence condition when epsilon dominates)" if bad else ""), sample=True)
        # the ridge uses the epsilon parameter and the identity
        ok = all({"A", "identity"} <= A.names_in(x.value) or {"A", "epsilon"} <= A.names_in(x.value) for x in ridge)
        rep.ob(rule, f"ridge-is-A+eps*I:{name}", ok, fi.loc(ridge[0]), f"A_ridge = `{_norm(ridge[0].value)}`")
    rep.floor(rule, "solvers forming a ridge matrix", n, 2)


def higher_order_ridge(ctx, rep, rule: str) -> None:
    """Regularisation of the higher-order coupled solver, interpreted on scalars (A = a, I = 1): the ridge is
    max(rel_epsilon * |A|_inf, epsilon); the regularised matrix is A + ridge * I and the spectral bound grows by the ridge."""
    from ..guards import MISSING, Interp, Raised, Unsupported

    repo = ctx.repo
    fi = repo.func(f"{MF}:_matrix_inverse_root_higher_order")
    m = fi.module
    params = fi.params
    if "rel_epsilon" not in params or "abs_epsilon" not in params:
        raise AnalysisError(f"{rule}: _matrix_inverse_root_higher_order has no rel_epsilon / abs_epsilon parameters")
    stmts = []
    for st in fi.node.body:
        stmts += st.body if isinstance(st, ast.Try) else [st]

    def hook(interp, call):
        d = A.callee_name(repo, m, call)
        if d == "torch.linalg.matrix_norm":
            return abs(interp.ev(call.args[0]))
        if d == "torch.eye":
            return 1.0
        from ..guards import scalar_tensor_ops

        r_ = scalar_tensor_ops(interp, call, d)
        if r_ is not MISSING:
            return r_
        if d in ("math.isfinite", "torch.isfinite"):
            return True
        if isinstance(call.func, ast.Name) and call.func.id == "isfinite":
            return True
        if isinstance(call.func, ast.Attribute) and call.func.attr == "item":
            return interp.ev(call.func.value)
        return MISSING

    bad = []
    n = 0
    for a, r, e in itertools.product([2.0, -5.0], [0.0, 0.25], [0.0, 0.5, 3.0]):
        env = {"A": a, "rel_epsilon": r, "abs_epsilon": e, "root": SimpleNamespace(numerator=2, denominator=1), "order": 3, "disable_tf32": False}
        it = Interp(env, call_hook=hook)
        for st in stmts:
            if any(A.callee_name(repo, m, c) == "torch.trace" for c in A.calls(st, nested=True)):
                break  # the scaling that follows the regularisation
            try:
                it.stmt(st, lambda x: ast.unparse(x))
            except (Unsupported, Raised, AttributeError, TypeError, KeyError):
                continue  # statements outside the scalar model (timers, logging, tensors of coefficients) do not feed the ridge
        ridge = max(r * abs(a), e)
        got_a, got_l = it.env.get("A_ridge"), it.env.get("lambda_max_approx")
        n += 1
        if not (isinstance(got_a, float) and abs(got_a - (a + ridge)) < 1e-12 and isinstance(got_l, float) and abs(got_l - (abs(a) + ridge)) < 1e-12):
            bad.append((a, r, e, got_a, got_l))
    rep.ob(rule, "higher-order:ridge", not bad, fi.loc(), f"{n} scalar cases (A, rel_epsilon, epsilon): A_ridge = A + max(rel_epsilon*|A|_inf, epsilon) I and the bound |A|_inf grows by the same ridge" + (f"; at A={bad[0][0]}, rel_epsilon={bad[0][1]}, epsilon={bad[0][2]} the code gives A_ridge={bad[0][3]}, bound={bad[0][4]}" if bad else ""), sample=True)


def run(ctx, rep) -> None:
    rep.rule("C10.1", "dispatch: one solver arm per config class forwarding A, root, epsilon and the config fields; fast paths first; fall-through raises")
    rep.rule("C10.2", "CONVERGED is produced only by an expression that is true iff the last |M - I| residual <= tolerance")
    rep.rule("C10.3", "higher-order solver: residual guard (recomputed from the returned X) and NaN/Inf guard dominate the return; tf32 flag restored in finally")
    rep.rule("C10.4", "after the ridge matrix is formed the raw input is only read for shape/dtype/device")
    rep.attempt("dispatch_rules", dispatch_rules, ctx, rep, "C10.1")
    rep.attempt("convergence_flag", convergence_flag, ctx, rep, "C10.2")
    rep.attempt("higher_order_guards", higher_order_guards, ctx, rep, "C10.3")
    rep.attempt("ridge_discipline", ridge_discipline, ctx, rep, "C10.4")
    from .common import tensor_arguments_are_inputs

    rep.rule("C10.9", "the solvers are functions of their tensor arguments: no in-place operation lands in the caller's matrix")
    rep.attempt("tensor_arguments_are_inputs", tensor_arguments_are_inputs, ctx, rep, "C10.9")
    from .common import memoised_results_are_read_only

    rep.attempt("memoised_results_are_read_only", memoised_results_are_read_only, ctx, rep, "C10.9")
    from .c12 import decomposition_structure

    rep.attempt("decomposition_structure", decomposition_structure, ctx, rep, "C10.7")
    from .c12 import defaults_agree_with_configs

    rep.attempt("defaults_agree_with_configs", defaults_agree_with_configs, ctx, rep, "C10.1")
    from .arith import newton_arithmetic
    from .c03 import exact_diagonal_flag

    rep.rule("C10.6", "coupled inverse Newton: initial scaling z = (p+1)/(2|A+eps I|_F), X0 = z^(1/p) I, M0 = z(A+eps I) and one iteration M' = (1-alpha)I + alpha M, X <- X M', M <- M'^p M as documented (exact term comparison, matrix products uninterpreted)")
    rep.attempt("newton_arithmetic", newton_arithmetic, ctx, rep, "C10.6")

    rep.rule("C10.5", "the diagonal fast path is taken only for exactly diagonal matrices")
    rep.attempt("exact_diagonal_flag", exact_diagonal_flag, ctx, rep, "C10.5")
    from .arith import eigen_root_arithmetic

    rep.rule("C10.7", "eigen solver and fast paths compute the documented formulas (exact term comparison): X = (Q * (lambda - min(lambda_min,0) + eps)^(-1/root)) @ Q^T; diag((d + eps)^(-1/root)); (a + eps)^(-1/root)")
    rep.rule("C10.8", "higher-order solver: the ridge is max(rel_epsilon * |A|_inf, epsilon), added to A and to the spectral bound")
    rep.attempt("higher_order_ridge", higher_order_ridge, ctx, rep, "C10.8")
    rep.attempt("eigen_root_arithmetic", eigen_root_arithmetic, ctx, rep, "C10.7")
    rep.assume("every accuracy bound of the statement and the agreement of fast paths with the general path are numerical and NOT decided; this is the weakest claimed property")
