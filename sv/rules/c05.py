"""C05 — blocks tile each parameter; blocking does not change the math (aliasing part).

C05.1 blocks are views of the parameter storage (points-to, strict polarity: no maybe-copy / fresh op on the chain);
C05.2 parameter and gradient blocks come from the same recipe: same split-size key, gradients viewed with the merged
      dims *stored* by the parameter path;
C05.3 update_params writes the parameter storage in place through those views (and only it does);
C05.4 multi_dim_split splits every dimension of every tensor order: a single fold over range(tensor.dim()) with one
      split size, torch.split the only producer, no early exit.
"""

from __future__ import annotations

import ast

from .. import astutil as A
from ..loader import AnalysisError
from ..pointsto import GRAD, PARAM
from .c04 import spaces_engine
from .c06 import _norm
from .common import DIST_MOD, short, who_may_write

UTILS = "distributed_shampoo.utils.shampoo_utils"


def blocks_are_views(ctx, rep, rule: str) -> None:
    repo = ctx.repo
    pts = ctx.engine("pts")
    sp = spaces_engine(ctx)
    for c in sp.dist_classes:
        ts = pts.tensors(pts.attr(c.qual, "_global_blocked_params"))
        extra = sorted(str(t[1][0]) if isinstance(t[1], tuple) else str(t[1]) for t in ts - {PARAM})
        rep.ob(rule, f"views:{c.name}._global_blocked_params", ts == {PARAM}, c.module.relpath, "every block must share storage with its parameter for every shape (view / split / detach / narrow only)" + (f"; a block may also be a separate tensor created at {extra} (reshape / contiguous / clone / to may copy), so updates would not reach the parameter" if extra else ""), sample=True)
        for attr in ("_local_blocked_params", "_local_masked_blocked_params"):
            ts2 = pts.tensors(pts.attr(c.qual, attr))
            rep.ob(rule, f"views:{c.name}.{attr}", ts2 == {PARAM}, c.module.relpath, f"`{attr}` must contain views of parameters only; points-to set: {sorted(str(t[1]) for t in ts2)}")
    # gradient blocks are views of the gradients
    for c in sp.dist_classes:
        meth = repo.lookup_method(c, "_merge_and_block_gradients")
        ret = set()
        for fr in pts.frames_of(meth.qual):
            if fr.selfcls is not None and fr.selfcls.qual == c.qual:
                ret |= pts.tensors(fr.ret)
        rep.ob(rule, f"views:{c.name}._merge_and_block_gradients()", ret == {GRAD}, meth.loc(), f"gradient blocks must be views of the parameters' gradients; points-to set: {sorted(str(t[1]) for t in ret)}")


def same_recipe(ctx, rep, rule: str) -> None:
    repo = ctx.repo
    base = repo.cls(f"{DIST_MOD}:DistributorInterface")
    mp, mg = repo.meth(base, "_merge_and_block_parameters"), repo.meth(base, "_merge_and_block_gradients")
    def splits(fi):
        return [c for c in A.calls(fi.node, nested=True) if A.callee_name(repo, fi.module, c).endswith("shampoo_utils.multi_dim_split")]
    sp_, sg_ = splits(mp), splits(mg)
    ok = len(sp_) == 1 and len(sg_) == 1
    detail = f"{len(sp_)} / {len(sg_)} multi_dim_split call(s)"
    if ok:
        size_ok = _norm(sp_[0].args[1]) == _norm(sg_[0].args[1])
        vp, vg = sp_[0].args[0], sg_[0].args[0]
        view_ok = all(isinstance(v, ast.Call) and isinstance(v.func, ast.Attribute) and v.func.attr == "view" and len(v.args) == 1 and isinstance(v.args[0], ast.Name) for v in (vp, vg))
        dims_p = vp.args[0].id if view_ok else None
        dims_g = vg.args[0].id if view_ok else None
        # both dims variables iterate the stored list
        def from_stored(fi, name):
            for n in A.walk_no_nested(fi.node):
                if isinstance(n, ast.For) and isinstance(n.iter, ast.Call) and isinstance(n.iter.func, ast.Name) and n.iter.func.id == "zip" and isinstance(n.target, ast.Tuple):
                    for tg, src in zip(n.target.elts, n.iter.args):
                        if isinstance(tg, ast.Name) and tg.id == name:
                            return _norm(src)
            return None
        src_p, src_g = from_stored(mp, dims_p), from_stored(mg, dims_g)
        stored_ok = src_p == src_g == "self._global_merged_dims_list"
        recomputed = [c for c in A.calls(mg.node, nested=True) if A.callee_name(repo, mg.module, c).endswith("shampoo_utils.merge_small_dims")]
        ok = size_ok and view_ok and stored_ok and not recomputed
        detail = f"same split size expression ({_norm(sp_[0].args[1])} vs {_norm(sg_[0].args[1])}): {size_ok}; both `.view(<dims>)` then split: {view_ok}; dims come from the stored _global_merged_dims_list for both: {stored_ok}; gradients never recompute merged dims: {not recomputed}"
    rep.ob(rule, "same-recipe:DistributorInterface", ok, mg.loc(), detail, sample=True)
    # merged dims computed once with the group's threshold and merge flag
    calls = [c for c in A.calls(mp.node, nested=True) if A.callee_name(repo, mp.module, c).endswith("shampoo_utils.merge_small_dims")]
    ok = len(calls) == 1 and _norm(calls[0].args[1]) == _norm(sp_[0].args[1]) if sp_ else False
    rep.ob(rule, "merge-threshold-is-split-size", ok, mp.loc(), "merge_small_dims and multi_dim_split use the same max_preconditioner_dim of the param group")


def _zip_partner(func, name: str, x):
    """`for x, name in zip(P, L)` where L (a local or a self attribute assigned once in func) is `tuple(E(v) for v in P ...)`:
    the element paired with x is E(x)."""
    if not isinstance(x, ast.Name):
        return None
    for loop in [n for n in A.walk_no_nested(func) if isinstance(n, (ast.For, ast.comprehension))]:
        t, it = loop.target, loop.iter
        if not (isinstance(t, ast.Tuple) and isinstance(it, ast.Call) and _norm(it.func) == "zip" and len(it.args) == len(t.elts)):
            continue
        names = [e.id if isinstance(e, ast.Name) else None for e in t.elts]
        if name not in names or x.id not in names:
            continue
        src, lst = it.args[names.index(x.id)], it.args[names.index(name)]
        key = _norm(lst)
        defs = [
            n.value
            for n in A.walk_no_nested(func)
            if isinstance(n, (ast.Assign, ast.AnnAssign)) and n.value is not None and any(_norm(tg) == key for tg in (n.targets if isinstance(n, ast.Assign) else [n.target]))
        ]
        if len(defs) != 1:
            return None
        e = defs[0]
        if isinstance(e, ast.Call) and _norm(e.func) in ("tuple", "list") and len(e.args) == 1:
            e = e.args[0]
        if isinstance(e, ast.Name):
            # a local list filled by `for v in P: [if …:] name.append(E(v))` and nothing else
            inits = A.assignments_to(func, e.id)
            apps = [c for c in A.calls(func) if isinstance(c.func, ast.Attribute) and isinstance(c.func.value, ast.Name) and c.func.value.id == e.id]
            loops = [lp for lp in A.walk_no_nested(func) if isinstance(lp, ast.For) and apps and any(c is apps[0] for c in ast.walk(lp))]
            if not (len(inits) == 1 and _norm(inits[0]) in ("[]", "list()") and len(apps) == 1 and apps[0].func.attr == "append" and len(apps[0].args) == 1 and len(loops) == 1):
                return None
            lp = loops[0]
            if not (isinstance(lp.target, ast.Name) and _norm(lp.iter) == _norm(src)):
                return None
            elt, var = apps[0].args[0], lp.target.id
        else:
            if not (isinstance(e, (ast.GeneratorExp, ast.ListComp)) and len(e.generators) == 1):
                return None
            g = e.generators[0]
            if not (isinstance(g.target, ast.Name) and _norm(g.iter) == _norm(src)):
                return None
            elt, var = e.elt, g.target.id
        if isinstance(elt, ast.Call) and _norm(elt.func) in ("tuple", "list") and len(elt.args) == 1:
            elt = elt.args[0]
        return _subst(elt, var, x)
    return None


def _subst(e, name, repl):
    import copy

    class T(ast.NodeTransformer):
        def visit_Name(self, n):
            return copy.deepcopy(repl) if n.id == name else n

    return T().visit(copy.deepcopy(e))


def merged_dims_of_the_viewed_tensor(ctx, rep, rule: str) -> None:
    """In every implementation of the parameter blocking, the dims a (sub-)tensor is viewed with before it is split are
    computed from THAT tensor's own size: merge_small_dims(x.size(), max_preconditioner_dim) under use_merge_dims, x.size()
    otherwise — not looked up in a table keyed by something coarser, not taken from another tensor."""
    repo = ctx.repo
    sp = spaces_engine(ctx)
    seen = set()
    n = 0
    for c in sp.dist_classes:
        fi = repo.lookup_method(c, "_merge_and_block_parameters")
        if fi is None or fi.qual in seen:
            continue
        seen.add(fi.qual)
        m = fi.module
        for call in [k for k in A.calls(fi.node, nested=True) if A.callee_name(repo, m, k).endswith("shampoo_utils.multi_dim_split")]:
            v = call.args[0] if call.args else A.keyword(call, "tensor")
            ok = False
            detail = "first argument is not `<tensor>.view(<dims>)`"
            if isinstance(v, ast.Call) and isinstance(v.func, ast.Attribute) and v.func.attr == "view" and len(v.args) == 1:
                x = _norm(v.func.value)
                d = v.args[0]
                if isinstance(d, ast.Name):
                    defs = A.assignments_to(fi.node, d.id)
                    d = defs[0] if len(defs) == 1 else _zip_partner(fi.node, d.id, v.func.value) or d
                txt = " ".join(_norm(d).split())
                want = {
                    f"merge_small_dims({x}.size(), self._param_group[MAX_PRECONDITIONER_DIM]) if self._param_group[USE_MERGE_DIMS] else {x}.size()",
                    f"merge_small_dims(tensor_shape={x}.size(), threshold=self._param_group[MAX_PRECONDITIONER_DIM]) if self._param_group[USE_MERGE_DIMS] else {x}.size()",
                }
                ok = A.tnorm(d) in {A.tnorm(w) for w in want}
                detail = f"`{x}` is viewed with `{txt[:120]}`"
            n += 1
            rep.ob(rule, f"merged-dims-of-the-viewed-tensor:{short(fi.qual)}", ok, fi.loc(call), detail + "; documented: merge_small_dims(<that tensor>.size(), max_preconditioner_dim) if use_merge_dims else <that tensor>.size()", sample=True)
    rep.floor(rule, "multi_dim_split call sites in _merge_and_block_parameters implementations", n, 3)


def split_structure(ctx, rep, rule: str) -> None:
    repo = ctx.repo
    pts = ctx.engine("pts")
    fi = repo.func(f"{UTILS}:multi_dim_split")
    rets = [n for n in A.walk_no_nested(fi.node) if isinstance(n, ast.Return)]
    fs = A.folds(repo, fi.module, fi.node)
    ok = len(rets) == 1 and len(fs) == 1
    detail = f"{len(rets)} return statement(s), {len(fs)} fold(s) (reduce or loop)"
    if ok:
        f = fs[0]
        tensor, size = fi.params[0], fi.params[1]
        dom_ok = A.tnorm(f.iter) == f"range({tensor}.ndim)"
        init_ok = A.expanded(fi.node, f.init) == f"({tensor},)"
        # the step re-splits every piece so far along that dimension: tuple(s for t in $acc for s in torch.split(t, size, dim=$0))
        step = ast.parse(f.step.replace("$acc", "ACC__").replace("$0", "DIM__"), mode="eval").body
        sc = [c for c in ast.walk(step) if isinstance(c, ast.Call) and A.callee_name(repo, fi.module, c) == "torch.split"]
        gens = [g for n in ast.walk(step) if isinstance(n, (ast.GeneratorExp, ast.ListComp)) for g in n.generators]
        lam_ok = len(sc) == 1 and len(sc[0].args) >= 2 and _norm(sc[0].args[1]) == size and _norm(A.keyword(sc[0], "dim")) == "DIM__" and any(_norm(g.iter) == "ACC__" and _norm(g.target) == _norm(sc[0].args[0]) for g in gens) and not any(g.ifs for g in gens)
        # the fold's result is what is returned
        res_ok = (f.form == "reduce" and rets[0].value is f.node) or (f.form == "loop" and isinstance(rets[0].value, ast.Name) and rets[0].value.id == f.result)
        ok = dom_ok and init_ok and lam_ok and res_ok
        detail += f"; fold over every dimension `range(tensor.dim())`: {dom_ok}; starts from the whole tensor: {init_ok}; each step torch.split(piece, split_size, dim=<that dimension>) of every piece: {lam_ok}; the fold's result is returned: {res_ok}"
    rep.ob(rule, "multi_dim_split:every-dimension-split", ok, fi.loc(), detail + " — an early exit or a shortened range leaves a dimension larger than max_preconditioner_dim for some tensor order", sample=True)
    ret = set()
    for fr in pts.frames_of(fi.qual):
        ret |= pts.tensors(fr.ret)
    rep.ob(rule, "multi_dim_split:returns-views", ret and ret <= {PARAM, GRAD}, fi.loc(), f"pieces share storage with the input tensor; points-to set over all call sites: {sorted(str(t[1]) for t in ret)}")
    # compress_list (order-preserving selection, length mismatch rejected) is decided by interpretation on concrete cases below
    # (utility_semantics) — the earlier text match on `tuple(compress(...))` false-alarmed on an equivalent zip/filter spelling


def run(ctx, rep) -> None:
    rep.rule("C05.5", "merge_small_dims: size-1 dims dropped; the next dim is fused into the last merged dim iff the product stays <= threshold, else a new dim is opened")
    from .common import utility_semantics as _us

    rep.attempt("utility_semantics", _us, ctx, rep, "C05.5", ("merge_small_dims",))
    rep.rule("C05.1", "every parameter / gradient block shares storage with its parameter / gradient (view-only derivation)")
    rep.rule("C05.2", "parameter and gradient blocks come from the same recipe (stored merged dims, same split size)")
    rep.rule("C05.3", "parameters are written in place, only by update_params, through those views")
    rep.rule("C05.4", "multi_dim_split splits every dimension (single fold over range(dim()), torch.split only, no early exit); compress_list is an order-preserving selection")
    rep.attempt("blocks_are_views", blocks_are_views, ctx, rep, "C05.1")
    rep.attempt("same_recipe", same_recipe, ctx, rep, "C05.2")
    rep.attempt("merged_dims_of_the_viewed_tensor", merged_dims_of_the_viewed_tensor, ctx, rep, "C05.2")
    rep.attempt("who_may_write", who_may_write, ctx, rep, "C05.3", only_kinds=set(), include_params=True)
    rep.attempt("split_structure", split_structure, ctx, rep, "C05.4")
    rep.attempt("utility_semantics", _us, ctx, rep, "C05.4", ("compress_list",))
    from .common import utility_semantics

    rep.rule("C05.7", "the pure utilities this property is built on compute what they document (concrete interpretation on small cases)")
    rep.attempt("utility_semantics", utility_semantics, ctx, rep, "C05.7", ("merge_small_dims", "compress_list", "generate_pairwise_indices"))
    from .c04 import _change_guards

    rep.rule("C05.6", "the masked parameter blocks handed to the update are re-derived whenever the set of gradients changes (guard on the selector itself, never on a count)")
    rep.attempt("_change_guards", _change_guards, ctx, rep, "C05.6")
    rep.assume("merge_small_dims arithmetic, exact-once coverage, row-major order, the block-size bound and the invariance 'optimising blocks = optimising separate parameters' need execution and are NOT decided")
    from .c01 import inverse_root_selection

    rep.rule("C05.8", "merging and blocking do not change the math of a block: each block gets the inverse root of its own order (the block's number of dimensions after merging), selected as documented")
    rep.attempt("inverse_root_selection", inverse_root_selection, ctx, rep, "C05.8")

