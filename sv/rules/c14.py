"""C14 — block-to-rank assignment is deterministic; buffers are disjoint views (determinism, ownership and sibling part).

C14.1 the assignment is a function of the (global) block sizes and the group size only: no rank-variant or
      non-deterministic value flows into it; stable descending sort over enumerate; heap entries are (load, rank) tuples;
      the load added to a rank is the size recorded for the block;
C14.2 state lives only on the owner: selector = (assigned group rank == this rank's rank in the communication group),
      assigned ranks come from the assignment's second component, state-allocating loops iterate LOCAL lists;
C14.3 the three copies agree (sibling differ);
C14.4 every per-block buffer is a view of the one gather buffer; the local send buffer is the rank's split of it;
      the per-block size expression is the same at the assignment input and at the view construction.
"""

from __future__ import annotations

import ast

from .. import astutil as A
from .. import tables as T
from ..loader import AnalysisError
from ..spaces import space_of
from .c04 import _scope, spaces_engine
from .c06 import _norm, rank_engine
from .common import DS, short
from .sib import DDP, HSDP, HYB, dist_pairs, sibling_pairs

COPIES = [DDP, HSDP, HYB]
NONDET = {"set", "frozenset", "id", "hash", "random", "time", "os", "uuid", "secrets"}


def assignment_determinism(ctx, rep, rule: str, classes: list[str]) -> None:
    repo = ctx.repo
    sp = spaces_engine(ctx)
    rt = rank_engine(ctx)
    for cq in classes:
        ci = repo.cls(cq)
        fi = repo.meth(ci, "_distribute_buffer_sizes")
        m = fi.module
        sc = _scope(sp, fi, ci)
        # (a) purity w.r.t. rank and non-determinism
        bad = []
        var = rt.var_locals(fi, ci)
        for n in A.walk_no_nested(fi.node):
            if isinstance(n, ast.Call):
                d = A.callee_name(repo, m, n)
                head = d.split(".")[0] if not d.startswith(".") else ""
                if d in T.RANK_SOURCES or (isinstance(n.func, ast.Attribute) and n.func.attr in T.RANK_SOURCE_METHODS):
                    bad.append(f"rank query `{ast.unparse(n)}`")
                if head in NONDET or (isinstance(n.func, ast.Name) and n.func.id in NONDET):
                    bad.append(f"non-deterministic / order-free construct `{ast.unparse(n)[:50]}`")
            if isinstance(n, (ast.Set, ast.SetComp)):
                bad.append("set display (iteration order is not part of the assignment's inputs)")
        if var:
            bad.append(f"locals derived from rank-variant values: {sorted(var)}")
        # the only state it may read is the group size: no memo table, no other attribute of the instance or the class
        size_attrs = {"_group_size", "_dist_group_size"}
        for n in A.walk_no_nested(fi.node):
            if isinstance(n, ast.Attribute) and isinstance(n.value, ast.Name) and n.value.id in ("self", "cls", ci.name) and n.attr not in size_attrs and not n.attr.startswith("__"):
                callee = repo.lookup_method(ci, n.attr)
                if callee is None:
                    bad.append(f"reads / updates `{ast.unparse(n)}` (the assignment must be a function of its arguments and the group size: a memo or any other carried state makes it depend on what was computed before)")
        rep.ob(rule, f"determinism:{ci.name}:pure-in-sizes-and-group-size", not bad, fi.loc(), "the assignment may depend on block sizes and group size only" + (": " + "; ".join(bad) if bad else ""), sample=True)
        # (b) inputs are the GLOBAL block sizes
        t = sp.formal.get((fi.qual, "buffer_sizes"))
        rep.ob(rule, f"determinism:{ci.name}:input-is-global-list", space_of(t) == "G", fi.loc(), f"`buffer_sizes` is computed from a list in index space {space_of(t)} (must be the global block list, identical on all ranks)")
        # (c) stable descending sort over enumerate, key = size
        loops = [n for n in A.walk_no_nested(fi.node) if isinstance(n, ast.For)]
        srt = None
        for lp in loops:
            it = lp.iter
            if isinstance(it, ast.Call) and isinstance(it.func, ast.Name) and it.func.id == "sorted":
                srt = (lp, it)
        ok = False
        detail = "no `for ... in sorted(...)` loop found"
        if srt is not None:
            lp, it = srt
            arg0 = it.args[0] if it.args else None
            key = A.keyword(it, "key")
            rev = A.keyword(it, "reverse")
            is_enum = isinstance(arg0, ast.Call) and isinstance(arg0.func, ast.Name) and arg0.func.id == "enumerate"
            key_ok = isinstance(key, ast.Call) and A.callee_name(repo, m, key) == "operator.itemgetter" and len(key.args) == 1 and isinstance(key.args[0], ast.Constant) and key.args[0].value == 1
            rev_ok = isinstance(rev, ast.Constant) and rev.value is True
            ok = is_enum and key_ok and rev_ok
            detail = f"loop order `{_norm(it)}`: over enumerate={is_enum}, key=size (itemgetter(1))={key_ok}, descending={rev_ok} (Python's sort is stable, so ties are broken by block position on every rank)"
        rep.ob(rule, f"determinism:{ci.name}:stable-largest-first", ok, fi.loc(srt[0]) if srt else fi.loc(), detail, sample=True)
        # (d) heap entries (load, rank) and load bookkeeping
        pushes = [c for c in A.calls(fi.node) if A.callee_name(repo, m, c) == "heapq.heappush"]
        pops = [n for n in A.walk_no_nested(fi.node) if isinstance(n, ast.Assign) and isinstance(n.value, ast.Call) and A.callee_name(repo, m, n.value) == "heapq.heappop"]
        ok = len(pushes) == 1 and len(pops) == 1
        detail = f"{len(pushes)} heappush / {len(pops)} heappop"
        if ok:
            tgt = pops[0].targets[0]
            pv = pushes[0].args[1] if len(pushes[0].args) > 1 else None
            shape = isinstance(tgt, ast.Tuple) and len(tgt.elts) == 2 and isinstance(pv, ast.Tuple) and len(pv.elts) == 2
            same_rank = shape and isinstance(pv.elts[1], ast.Name) and isinstance(tgt.elts[1], ast.Name) and pv.elts[1].id == tgt.elts[1].id
            # recorded size for the block == increment of the rank's load
            rec = [n for n in A.walk_no_nested(fi.node) if isinstance(n, ast.Assign) and isinstance(n.targets[0], ast.Subscript) and isinstance(n.value, ast.Tuple) and len(n.value.elts) == 2]
            inc_ok = False
            if shape and rec and isinstance(pv.elts[0], ast.BinOp) and isinstance(pv.elts[0].op, ast.Add):
                terms = {_norm(pv.elts[0].left), _norm(pv.elts[0].right)}
                inc_ok = _norm(tgt.elts[0]) in terms and _norm(rec[0].value.elts[0]) in terms and _norm(rec[0].value.elts[1]) == _norm(tgt.elts[1])
            ok = shape and same_rank and inc_ok
            detail = f"heap entries are (load, rank) tuples: {shape}; the popped rank is pushed back: {same_rank}; pushed load = popped load + the size recorded for the block, recorded owner = popped rank: {inc_ok}"
        rep.ob(rule, f"determinism:{ci.name}:heap-of-(load,rank)", ok, fi.loc(pushes[0]) if pushes else fi.loc(), detail, sample=True)


def ownership(ctx, rep, rule: str, classes: list[str]) -> None:
    repo = ctx.repo
    sp = spaces_engine(ctx)
    for cq in classes:
        ci = repo.cls(cq)
        init = ci.methods.get("__init__")
        m = init.module
        # communication group attribute used by the all-gather
        ag = repo.meth(ci, "all_gather_into_tensor")
        grp_attr = None
        for c in A.calls(ag.node):
            g = A.keyword(c, "group")
            if isinstance(g, ast.Attribute):
                grp_attr = g.attr
        # the rank variable: dist.get_rank(<that group>)
        rank_vars = {}
        for n in A.walk_no_nested(init.node):
            if isinstance(n, (ast.Assign, ast.AnnAssign)) and n.value is not None:
                tg = n.targets[0] if isinstance(n, ast.Assign) else n.target
                v = n.value
                if isinstance(tg, ast.Name) and isinstance(v, ast.Call) and A.callee_name(repo, m, v) == "torch.distributed.get_rank":
                    a = A.keyword(v, "group") or (v.args[0] if v.args else None)
                    rank_vars[tg.id] = a.attr if isinstance(a, ast.Attribute) else None
        sel = [n for n in A.walk_no_nested(init.node) if isinstance(n, (ast.Assign, ast.AnnAssign)) and isinstance((n.targets[0] if isinstance(n, ast.Assign) else n.target), ast.Attribute) and (n.targets[0] if isinstance(n, ast.Assign) else n.target).attr == "_distributor_selector"]
        ok = False
        detail = f"{len(sel)} definition(s) of _distributor_selector"
        if len(sel) == 1:
            v = sel[0].value
            gen = v.args[0] if isinstance(v, ast.Call) and v.args else v
            cmp_ = gen.elt if isinstance(gen, (ast.GeneratorExp, ast.ListComp)) else None
            if isinstance(cmp_, ast.Compare) and len(cmp_.ops) == 1 and isinstance(cmp_.ops[0], ast.Eq):
                sides = [cmp_.left, cmp_.comparators[0]]
                gsr = [s for s in sides if isinstance(s, ast.Attribute) and s.attr == "group_source_rank"]
                rk = [s for s in sides if isinstance(s, ast.Name) and s.id in rank_vars]
                ok = len(gsr) == 1 and len(rk) == 1 and rank_vars[rk[0].id] == grp_attr and grp_attr is not None
                detail = f"selector `{_norm(cmp_)}`: compares the block's assigned group rank with `{rk[0].id if rk else '?'}` = dist.get_rank(group=self.{rank_vars.get(rk[0].id) if rk else '?'}); the all-gather uses group self.{grp_attr}"
        rep.ob(rule, f"ownership:{ci.name}:selector-is-assigned-rank==rank-in-comm-group", ok, init.loc(sel[0]) if sel else init.loc(), detail + " — the owner of a block must be the rank whose segment of the gather buffer carries it", sample=True)
        # assigned ranks come from the assignment
        gl = [c for c in A.calls(init.node) if isinstance(c.func, ast.Attribute) and c.func.attr == "_construct_global_block_info_list"]
        ok = False
        if len(gl) == 1:
            a = A.keyword(gl[0], "group_source_ranks")
            gen = a.args[0] if isinstance(a, ast.Call) and a.args else a
            if isinstance(gen, (ast.GeneratorExp, ast.ListComp)) and len(gen.generators) == 1:
                g = gen.generators[0]
                tgt = g.target
                src = g.iter
                assigned = [n for n in A.walk_no_nested(init.node) if isinstance(n, ast.Assign) and isinstance(n.targets[0], ast.Name) and isinstance(src, ast.Name) and n.targets[0].id == src.id and isinstance(n.value, ast.Call) and isinstance(n.value.func, ast.Attribute) and n.value.func.attr == "_distribute_buffer_sizes"]
                ok = isinstance(tgt, ast.Tuple) and len(tgt.elts) == 2 and isinstance(gen.elt, ast.Name) and isinstance(tgt.elts[1], ast.Name) and gen.elt.id == tgt.elts[1].id and len(assigned) == 1
        rep.ob(rule, f"ownership:{ci.name}:owners-from-assignment", ok, init.loc(gl[0]) if gl else init.loc(), "group_source_ranks must be the second component of _distribute_buffer_sizes' result", sample=True)
        # every parameter takes ITS blocks' owners: the owner list is cut by the running block index ranges (start, end) of the
        # per-parameter block counts — by islice(owners, start, end) or owners[start:end]
        gbl = repo.meth(ci, "_construct_global_block_info_list")
        owners_param = [p_ for p_ in gbl.params if p_ not in ("self", "cls")][0]
        cuts = []
        for n in ast.walk(gbl.node):
            if isinstance(n, ast.Call) and isinstance(n.func, ast.Name) and n.func.id == "islice" and n.args and _norm(n.args[0]) == owners_param:
                cuts.append(("islice", n.args[1:]))
            elif isinstance(n, ast.Subscript) and _norm(n.value) == owners_param and isinstance(n.slice, ast.Slice):
                cuts.append(("slice", [n.slice.lower, n.slice.upper]))
        ok_cut = False
        detail_cut = f"{len(cuts)} cut(s) of `{owners_param}`"
        if len(cuts) == 1 and len(cuts[0][1]) == 2 and all(isinstance(x, ast.Name) for x in cuts[0][1]):
            lo, hi = cuts[0][1][0].id, cuts[0][1][1].id
            # (lo, hi) must be a loop target fed by generate_pairwise_indices(<blocks per parameter>)
            fed = False
            for g in [g for n in ast.walk(gbl.node) if isinstance(n, (ast.GeneratorExp, ast.ListComp)) for g in n.generators] + [n for n in ast.walk(gbl.node) if isinstance(n, ast.For)]:
                it, tgt = g.iter, g.target
                if isinstance(it, ast.Call) and isinstance(it.func, ast.Name) and it.func.id == "zip" and isinstance(tgt, ast.Tuple):
                    for t_, a_ in zip(tgt.elts, it.args):
                        if isinstance(t_, ast.Tuple) and [getattr(x, "id", None) for x in t_.elts] == [lo, hi] and isinstance(a_, ast.Call) and A.callee_name(repo, gbl.module, a_).endswith("generate_pairwise_indices") and "num_blocks_per_param" in _norm(a_.args[0]):
                            fed = True
            ok_cut = fed
            detail_cut = f"owners cut as [{lo}:{hi}] with ({lo}, {hi}) from generate_pairwise_indices(blocks per parameter): {fed}"
        rep.ob(rule, f"ownership:{ci.name}:owners-cut-by-block-index-range", ok_cut, gbl.loc(), detail_cut + " — a cut that restarts at 0 for every parameter (a count instead of a range) gives later parameters the first blocks' owners, which then disagree with the buffer layout", sample=True)
        # one assignment decides both who owns a block and where its buffer lies
        acalls = [c for c in A.calls(init.node, nested=True) if isinstance(c.func, ast.Attribute) and c.func.attr == "_distribute_buffer_sizes"]
        cdb = [c for c in A.calls(init.node) if isinstance(c.func, ast.Attribute) and c.func.attr == "_construct_distributed_buffers"]
        same = False
        if len(acalls) == 1 and len(cdb) == 1 and len(gl) == 1:
            st = A.stmt_of(init.node, acalls[0])
            var = st.targets[0].id if isinstance(st, ast.Assign) and isinstance(st.targets[0], ast.Name) and st.value is acalls[0] else None
            layout = A.keyword(cdb[0], "buffer_size_ranks")
            owners = A.keyword(gl[0], "group_source_ranks")
            same = var is not None and isinstance(layout, ast.Name) and layout.id == var and owners is not None and var in A.names_in(owners)
        rep.ob(rule, f"ownership:{ci.name}:one-assignment-for-owners-and-buffer-layout", same, init.loc(acalls[0]) if acalls else init.loc(), f"{len(acalls)} call(s) of _distribute_buffer_sizes in the constructor; the single result must feed both the owner ranks and the buffer layout (otherwise an owner writes into another rank's segment of the gather buffer)", sample=True)
        # the local lists are the selector-compressed global lists (not the global ones)
        for attr in ("_local_blocked_params", "_local_block_info_list"):
            t = sp.attr.get((cq, attr))
            rep.ob(rule, f"ownership:{ci.name}:{attr}-is-local", space_of(t) == "L", init.loc(), f"`{attr}` is inferred to live in index space {space_of(t)}; state is allocated per element of it, so it must contain the owned blocks only")
    # state-allocating loops in the optimizer iterate LOCAL lists (typed by E4: constructors checked in C04.1)
    ds = repo.cls(DS)
    for meth in ("_instantiate_momentum", "_instantiate_filtered_grads"):
        fi = ds.methods[meth]
        sc = _scope(sp, fi, ds)
        loops = [n for n in A.walk_no_nested(fi.node) if isinstance(n, ast.For) and any(isinstance(c.func, ast.Attribute) and c.func.attr == "allocate_zeros_tensor" for c in A.calls(n))]
        loops = [lp for lp in loops if not any(o is not lp and any(x is o for x in ast.walk(lp)) for o in loops)]  # innermost only
        for lp in loops:
            s = space_of(sp.ty(lp.iter, sc))
            rep.ob(rule, f"ownership:{meth}:allocates-over-local-lists", s == "L", fi.loc(lp), f"state is allocated while iterating lists of space {s} (must be the rank's own blocks)", sample=True)
        rep.floor(rule, f"{meth} allocation loops", len(loops), 1)


def buffer_views(ctx, rep, rule: str, classes: list[str]) -> None:
    repo = ctx.repo
    pts = ctx.engine("pts")
    for cq in classes:
        ci = repo.cls(cq)
        whole = pts.tensors(pts.attr(cq, "_global_dist_buffer"))
        rep.floor(rule, f"{ci.name}._global_dist_buffer allocation", len(whole), 1)
        for attr in ("_global_dist_blocked_buffers", "_local_dist_blocked_buffers", "_global_masked_dist_blocked_buffers", "_local_masked_dist_blocked_buffers", "_local_dist_buffer"):
            ts = pts.tensors(pts.attr(cq, attr))
            ok = bool(ts) and ts <= whole
            extra = sorted(str(t[1][0]) if isinstance(t[1], tuple) else str(t[1]) for t in ts - whole)
            rep.ob(rule, f"views:{ci.name}.{attr}", ok, ci.module.relpath, f"every tensor in `{attr}` must be a view of the single gather buffer (storage identity through view-only operations)" + (f"; it may also be a separate allocation created at {extra}" if extra else ""), sample=True)
        # size expression agreement
        init, cdb = repo.meth(ci, "__init__"), repo.meth(ci, "_construct_distributed_buffers")
        def size_exprs(fi):
            import copy as _copy

            out = set()
            for n in ast.walk(fi.node):
                if isinstance(n, ast.BinOp) and isinstance(n.op, ast.Mult) and "numel()" in ast.unparse(n):
                    # a hoisted element size (`sz = get_dtype_size(dtype)`; `numel() * sz`) is the same expression
                    e = _copy.deepcopy(n)
                    for nm in [x for x in ast.walk(e) if isinstance(x, ast.Name) and isinstance(x.ctx, ast.Load)]:
                        ds = A.assignments_to(fi.node, nm.id)
                        if len(ds) == 1 and isinstance(ds[0], ast.Call) and "get_dtype_size" in ast.unparse(ds[0].func):
                            e = _subst_name(e, nm.id, ds[0])
                    if "get_dtype_size" in ast.unparse(e):
                        out.add(_norm(e))
            return out
        # the number of ranks the assignment spreads the blocks over is the number of segments of the gather buffer
        from ..canon import composed_call

        asg = repo.meth(ci, "_distribute_buffer_sizes")
        acalls = [c for c in A.calls(init.node, nested=True) if isinstance(c.func, ast.Attribute) and c.func.attr == "_distribute_buffer_sizes"]
        heap_sizes, seg = set(), set()
        if len(acalls) == 1:
            body = composed_call(asg.node, asg.cls is not None, acalls[0], init.node) or []
            for n in ast.walk(ast.Module(body=body, type_ignores=[])):
                if isinstance(n, ast.Call) and isinstance(n.func, ast.Name) and n.func.id == "range" and len(n.args) == 1 and "size" in _norm(n.args[0]):
                    heap_sizes.add(A.expanded(init.node, n.args[0]))
        for n in ast.walk(cdb.node):
            if isinstance(n, ast.BinOp) and isinstance(n.op, ast.Mult) and isinstance(n.right, ast.Attribute) and "size" in n.right.attr and "sum" in _norm(n.left):
                seg.add(_norm(n.right))
        rep.ob(rule, f"views:{ci.name}:assignment-spreads-over-the-buffer-segments", len(heap_sizes) == 1 and heap_sizes == seg, init.loc(acalls[0]) if acalls else init.loc(), f"the assignment distributes the blocks over {sorted(heap_sizes)} rank slot(s); the gather buffer has one segment per {sorted(seg)}: they must be the same group size (an owner index beyond the communication group has no segment)", sample=True)
        a, b = size_exprs(init), size_exprs(cdb)
        rep.ob(rule, f"views:{ci.name}:size-expression-agreement", len(a) == 1 and a == b, cdb.loc(), f"per-block byte size at the assignment input {sorted(a)} and at the view construction {sorted(b)} must be the same expression")
        # the local send buffer is the group_rank-th split of the gather buffer
        ok = False
        for n in A.walk_no_nested(cdb.node):
            if isinstance(n, ast.Assign) and isinstance(n.targets[0], ast.Attribute) and n.targets[0].attr == "_local_dist_buffer" and isinstance(n.value, ast.Subscript):
                idx = n.value.slice
                ok = isinstance(idx, ast.Name) and idx.id in ("group_rank", "comms_group_rank")
        rep.ob(rule, f"views:{ci.name}:local-buffer-is-own-split", ok, cdb.loc(), "`_local_dist_buffer` must be the split of the gather buffer indexed by this rank's rank in the communication group")


def alignment_arithmetic(ctx, rep, rule: str, classes: list[str]) -> None:
    """The aligned size expression, interpreted on a complete residue system: smallest multiple of the alignment >= size."""
    from ..guards import Interp, Unsupported, repo_pure_calls

    repo = ctx.repo
    for cq in classes:
        ci = repo.cls(cq)
        fi = repo.meth(ci, "_distribute_buffer_sizes")
        consts = [n for n in A.walk_no_nested(fi.node) if isinstance(n, ast.Assign) and isinstance(n.targets[0], ast.Name) and isinstance(n.value, ast.Constant) and isinstance(n.value.value, int)]
        comps = [n for n in A.walk_no_nested(fi.node) if isinstance(n, ast.Assign) and isinstance(n.value, ast.ListComp) and len(n.value.generators) == 1 and _norm(n.value.generators[0].iter) == [p_ for p_ in fi.params if p_ not in ("self", "cls")][0]]
        named = [(n.targets[0].id, n.value.value) for n in consts]
        # an integer parameter default that no call site in the repository overrides is that constant
        a_ = fi.node.args
        pos = a_.posonlyargs + a_.args
        defaults = list(zip(pos[len(pos) - len(a_.defaults):], a_.defaults)) + [(k, d) for k, d in zip(a_.kwonlyargs, a_.kw_defaults) if d is not None]
        sites = [c for f2 in repo.funcs.values() for c in A.calls(f2.node) if isinstance(c.func, ast.Attribute) and c.func.attr == "_distribute_buffer_sizes"]
        for arg, d in defaults:
            if isinstance(d, ast.Constant) and type(d.value) is int:
                idx = [x.arg for x in pos if x.arg not in ("self", "cls")].index(arg.arg) if arg in pos else None
                overridden = any(A.keyword(c, arg.arg) is not None or (idx is not None and len(c.args) > idx) or any(k.arg is None for k in c.keywords) for c in sites)
                if not overridden:
                    named.append((arg.arg, d.value))
        ok = len(named) == 1 and len(comps) == 1
        detail = f"{len(named)} integer constant(s), {len(comps)} per-size list comprehension(s)"
        if ok:
            aname, aval = named[0]
            var = comps[0].value.generators[0].target.id
            bad = []
            try:
                for sz in range(0, 4 * aval + 2):
                    got = Interp({var: sz, aname: aval}, call_hook=repo_pure_calls(repo, fi.module)).ev(comps[0].value.elt)
                    want = -(-sz // aval) * aval
                    if got != want:
                        bad.append((sz, got, want))
            except Unsupported as u:
                raise AnalysisError(f"{rule}: aligned-size expression outside the integer sub-language: {u}") from u
            ok = not bad and aval == 64
            detail = f"`{_norm(comps[0].value.elt)}` with {aname} = {aval}, evaluated for sizes 0..{4 * aval + 1} (a complete residue system, the expression is 64-periodic up to +64): smallest multiple of 64 that is >= size" + (f"; differs at size {bad[0][0]}: {bad[0][1]} vs {bad[0][2]}" if bad else "")
        rep.ob(rule, f"alignment:{ci.name}", ok, fi.loc(), detail, sample=True)


def state_mesh_layout(ctx, rep, rule: str) -> None:
    """A block's state is allocated on the ranks that have the block's owner index in their communication group — the same
    indexing the ownership selector uses.  DDP: ranks {r : r = owner (mod group size), r < world size}.  HSDP / HybridShard:
    the replicate-dimension ranks laid out as rows of `dist_group_size` (the layout __init__ uses for the communication
    groups), dimension names ("replicate", "shard"), the owner-th sub-mesh along "replicate"."""
    repo = ctx.repo
    ddp = repo.cls(COPIES[0])
    fi = repo.lookup_method(ddp, "_allocate_zeros_distributed_tensor")
    rngs = [c for c in A.calls(fi.node, nested=True) if isinstance(c.func, ast.Name) and c.func.id == "range"]
    ok = len(rngs) == 1 and len(rngs[0].args) == 3 and [A.expanded(fi.node, a) for a in rngs[0].args] == ["group_source_rank % self._group_size", "self._global_size", "self._group_size"]
    rep.ob(rule, "state-mesh:DDPDistributor", ok, fi.loc(rngs[0]) if rngs else fi.loc(), f"state mesh ranks = `{_norm(rngs[0]) if rngs else '?'}`; documented: range(owner % group_size, world_size, group_size) — one rank of every group, the owner's index in it", sample=True)
    for cq in COPIES[1:]:
        ci = repo.cls(cq)
        fi = repo.lookup_method(ci, "_allocate_zeros_distributed_tensor")
        init = repo.lookup_method(ci, "__init__")
        views = [c for c in A.calls(fi.node, nested=True) if isinstance(c.func, ast.Attribute) and c.func.attr == "view"]
        names = [k.value for c in A.calls(fi.node, nested=True) for k in c.keywords if k.arg == "mesh_dim_names"]
        subs = [n for n in ast.walk(fi.node) if isinstance(n, ast.Subscript) and isinstance(n.value, ast.Call) and A.callee_name(repo, fi.module, n.value).endswith("_get_all_submeshes")]
        view_ok = len(views) == 1 and [A.expanded(fi.node, a) for a in views[0].args] == ["-1", "self._dist_group_size"]
        names_ok = len(names) == 1 and _norm(names[0]) == "('replicate', 'shard')"
        sub_ok = len(subs) == 1 and len(subs[0].value.args) == 2 and _norm(subs[0].value.args[1]) == "'replicate'" and A.expanded(fi.node, subs[0].slice) == "group_source_rank"
        # __init__ forms the communication groups from the same row layout
        init_views = [c for c in A.calls(init.node, nested=True) if isinstance(c.func, ast.Attribute) and c.func.attr == "view" and len(c.args) == 2]
        init_ok = any([A.expanded(init.node, a) for a in c.args] == ["-1", "self._dist_group_size"] for c in init_views)
        rep.ob(rule, f"state-mesh:{ci.name}", view_ok and names_ok and sub_ok and init_ok, fi.loc(views[0]) if views else fi.loc(), f"replicate ranks viewed as (-1, dist_group_size): {view_ok}; dimension names ('replicate', 'shard'): {names_ok}; owner-th sub-mesh along 'replicate': {sub_ok}; same row layout as the communication groups in __init__: {init_ok}", sample=True)


def _subst_name(e, name, repl):
    import copy as _copy

    class T(ast.NodeTransformer):
        def visit_Name(self, n):
            return _copy.deepcopy(repl) if n.id == name and isinstance(n.ctx, ast.Load) else n

    return T().visit(e)


def split_semantics(ctx, rep, rule: str, copies) -> None:
    """_split_local_dist_buffers by concrete interpretation on small cases: given (size, owner) per block in block order and one
    gather segment per rank, the i-th returned view is cut from the segment OF ITS OWNER (segment number == rank), at the offset
    of the sizes of the earlier blocks of that owner, with the block's own size — whatever order the owners first appear in."""
    import itertools

    from ..guards import _MISSING, Interp, Raised, Returned, Unsupported

    repo = ctx.repo
    seen = set()
    n_impl = 0
    for cq in copies:
        fi = repo.lookup_method(repo.cls(cq), "_split_local_dist_buffers")
        if fi is None:
            # merged into its caller: the byte-layout interpretation of _construct_distributed_buffers decides the same views
            n_impl += 1
            rep.ob(rule, f"split-semantics:{cq.split(':')[1]}._split_local_dist_buffers", True, "", "no separate split helper in this class: its effect is decided with the caller (buffer-layout)", nontrivial=False)
            continue
        if fi.qual in seen:
            continue
        seen.add(fi.qual)
        n_impl += 1
        params = [p_ for p_ in fi.params if p_ not in ("self", "cls")]

        class Buf:
            def __init__(self, rank, n, off=0):
                self.rank, self.n, self.off = rank, n, off

            def __eq__(self, o):
                return isinstance(o, Buf) and (self.rank, self.n, self.off) == (o.rank, o.n, o.off)

            def __hash__(self):
                return hash((self.rank, self.n, self.off))

            def __repr__(self):
                return f"segment[{self.rank}][{self.off}:{self.off + self.n}]"

            shape = property(lambda self: (self.n,))
            ndim = 1

        def hook(it, c):
            f = c.func
            if isinstance(f, ast.Attribute) and f.attr in ("size", "numel", "nelement") and not c.keywords:
                b = it.ev(f.value)
                if isinstance(b, Buf):
                    return b.n
            if isinstance(f, ast.Attribute) and f.attr == "split":
                d = repo.dotted_of(fi.module, f)
                args = [it.ev(a) for a in c.args]
                if d == "torch.split":
                    b, sizes = args[0], args[1]
                elif isinstance(it.ev(f.value), Buf):
                    b, sizes = it.ev(f.value), args[0]
                else:
                    return _MISSING
                sizes = list(sizes)
                if sum(sizes) != b.n or any(x < 0 for x in sizes):
                    raise Raised("RuntimeError", c)
                out, off = [], b.off
                for x in sizes:
                    out.append(Buf(b.rank, x, off))
                    off += x
                return tuple(out)
            return _MISSING

        body = [s_ for s_ in fi.node.body if not (isinstance(s_, ast.Expr) and isinstance(s_.value, ast.Constant))]
        bad, n = [], 0
        for world in (2, 3):
            for k in range(1, 5):
                for owners in itertools.product(range(world), repeat=k):
                    for sizes in ((1,) * k, tuple(range(1, k + 1)), tuple(range(k, 0, -1))):
                        bsr = tuple(zip(sizes, owners))
                        per_rank = [sum(s_ for s_, r in bsr if r == q) for q in range(world)]
                        for slack in (0, 2):
                            n += 1
                            bufs = tuple(Buf(q, max(per_rank) + slack) for q in range(world))
                            want, offs = [], [0] * world
                            for s_, r in bsr:
                                want.append(Buf(r, s_, offs[r]))
                                offs[r] += s_
                            try:
                                Interp({params[0]: bsr, params[1]: bufs}, call_hook=hook).run(body, lambda e: ast.unparse(e))
                                got = None
                            except Returned as r_:
                                got = tuple(r_.value) if isinstance(r_.value, (list, tuple)) else r_.value
                            except Raised as r_:
                                got = f"raise {r_.exc_name}"
                            except Unsupported as u:
                                raise AnalysisError(f"{rule}: {fi.qual} outside the interpreted sub-language: {u}") from u
                            if got != tuple(want) and len(bad) < 3:
                                bad.append((bsr, got, tuple(want)))
        rep.ob(rule, f"split-semantics:{fi.qual.split(':')[-1]}", not bad, fi.loc(), f"{n} cases (2-3 ranks, 1-4 blocks, every owner sequence, three size patterns, with and without slack): view i lies in its owner's segment at the owner's running offset" + (f"; first disagreement at (size, owner)={bad[0][0]}: code gives {bad[0][1]}, required {bad[0][2]}" if bad else ""), sample=True)
    rep.floor(rule, "implementations of _split_local_dist_buffers", n_impl, min(2, len(copies)))


def _layout_cases():
    """(group size, block shapes, communication dtype name, owners, group rank) for the buffer-layout interpretation."""
    import itertools

    shapes_sets = [((2, 3), (4,), (1,)), ((5,),), ((3, 3), (3, 3)), ((1,), (2, 2), (7,), (2,))]
    for G in (1, 2, 3):
        for shapes in shapes_sets:
            for dt in ("float32", "bfloat16"):
                owner_seqs = list(itertools.product(range(G), repeat=len(shapes)))
                if len(owner_seqs) > 9:
                    owner_seqs = owner_seqs[:: max(1, len(owner_seqs) // 9)]
                for owners in owner_seqs:
                    for gr in range(G):
                        yield G, shapes, dt, owners, gr


def _layout_inputs(G, shapes, dt, owners, gr):
    import math
    from types import SimpleNamespace

    from .. import simtensor as ST

    item = ST.DTYPES[dt].itemsize
    sizes = [-(-(math.prod(sh) * item) // 64) * 64 for sh in shapes]
    bsr = tuple(zip(sizes, owners))

    def make(sim):
        w = sim.world
        f32 = ST.DTYPES["float32"]
        params = tuple(ST.SymT(w, w.new_storage(math.prod(sh) * 4, "param"), 0, sh, f32) for sh in shapes)
        selfobj = SimpleNamespace(_is_self=True, _group_size=G, _dist_group_size=G, _global_blocked_params=params, _distributor_selector=tuple(o == gr for o in owners))
        return selfobj, [bsr, ST.DTYPES[dt], gr], {}

    return bsr, item, make


def buffer_layout_semantics(ctx, rep, rule: str, copies) -> None:
    """_distribute_buffer_sizes and _construct_distributed_buffers of every copy, interpreted on concrete cases in the byte-layout
    tensor model (sv/simtensor.py) against the documented result: sizes rounded up to 64, largest first (stable), each to the
    least-loaded rank (ties: lowest rank); one int8 gather buffer of group_size x (largest per-rank sum) bytes, the rank's
    send buffer its own segment, block i a view of numel_i x itemsize(communication dtype) bytes at the running offset inside
    its owner's segment, in the communication dtype and the block's shape; the local lists are the selector's choice."""
    import heapq
    import math
    from types import SimpleNamespace

    from .. import simtensor as ST
    from ..guards import Unsupported

    repo = ctx.repo
    for cq in copies:
        ci = repo.cls(cq)
        # ---- assignment
        fi = repo.lookup_method(ci, "_distribute_buffer_sizes")
        bad, n = [], 0
        for G in (1, 2, 3, 4):
            for sizes in ((128, 64, 500, 256), (1,), (64, 64, 64), (65, 1, 129, 64, 64), (0, 10), (300, 200, 100, 100, 100, 100), ()):
                n += 1
                al = [-(-x // 64) * 64 for x in sizes]
                heap = [(0, r) for r in range(G)]
                want = [None] * len(sizes)
                for idx, a in sorted(enumerate(al), key=lambda t: t[1], reverse=True):
                    load, r = heapq.heappop(heap)
                    heapq.heappush(heap, (load + a, r))
                    want[idx] = (a, r)
                try:
                    # arguments are bound by role, not position: a copy that takes the group size as a parameter gets it
                    extra = {p_: G for p_ in fi.params if "group" in p_ and "size" in p_}
                    got = ST.outcome(repo, fi, ci, lambda sim, G=G, sizes=sizes, extra=extra: (SimpleNamespace(_is_self=True, _group_size=G, _dist_group_size=G), [tuple(sizes)], dict(extra)))
                except Unsupported as u:
                    raise AnalysisError(f"{rule}: {fi.qual} outside the interpreted sub-language: {u}") from u
                if not (got[0] == "ok" and got[1] == tuple(want)) and len(bad) < 2:
                    bad.append((G, sizes, got[1] if got[0] == "ok" else got, tuple(want)))
        rep.ob(rule, f"assignment-semantics:{ci.name}", not bad, fi.loc(), f"{n} cases (1-4 ranks, 7 size lists incl. ties, zero and empty): (aligned size, rank) per block = 64-aligned sizes, largest first (stable), each to the least-loaded rank with ties to the lowest rank" + (f"; group size {bad[0][0]}, sizes {bad[0][1]}: code gives {bad[0][2]}, documented {bad[0][3]}" if bad else ""), sample=True)
        # ---- layout
        fi = repo.lookup_method(ci, "_construct_distributed_buffers")
        bad, n = [], 0
        for G, shapes, dt, owners, gr in _layout_cases():
            n += 1
            bsr, item, make = _layout_inputs(G, shapes, dt, owners, gr)
            per_rank = [sum(s_ for s_, r in bsr if r == q) for q in range(G)]
            M = max(per_rank)
            gb = len(shapes)  # storage ordinal of the gather buffer: allocated after the parameter storages
            offs = [0] * G
            views = []
            for (s_, r), sh in zip(bsr, shapes):
                views.append(("T", gb, r * M + offs[r], math.prod(sh) * item, dt, tuple(sh)))
                offs[r] += s_
            sel = tuple(o == gr for o in owners)
            want = {
                "_global_dist_buffer": ("T", gb, 0, G * M, "int8", (G * M,)),
                "_local_dist_buffer": ("T", gb, gr * M, M, "int8", (M,)),
                "_global_dist_blocked_buffers": tuple(views),
                "_local_dist_blocked_buffers": tuple(v for v, k in zip(views, sel) if k),
                "_global_masked_dist_blocked_buffers": tuple(views),
                "_local_masked_dist_blocked_buffers": tuple(v for v, k in zip(views, sel) if k),
            }
            try:
                got = ST.outcome(repo, fi, ci, make)
            except Unsupported as u:
                raise AnalysisError(f"{rule}: {fi.qual} outside the interpreted sub-language: {u}") from u
            state = dict(got[2]) if got[0] == "ok" else {}
            diff = [k for k, v in want.items() if state.get(k) != v]
            if (got[0] != "ok" or diff) and len(bad) < 2:
                bad.append((G, shapes, dt, owners, gr, got if got[0] != "ok" else {k: state.get(k) for k in diff[:1]}, {k: want[k] for k in diff[:1]}))
        rep.ob(rule, f"buffer-layout:{ci.name}", not bad, fi.loc(), f"{n} cases (1-3 ranks, 4 block-shape sets, float32 / bfloat16 communication, owner sequences, every group rank): one int8 gather buffer of group_size x max per-rank bytes; block views at the owner's running offset with numel x itemsize bytes, communication dtype, block shape; local = selected" + (f"; at group size {bad[0][0]}, shapes {bad[0][1]}, {bad[0][2]}, owners {bad[0][3]}, rank {bad[0][4]}: code builds {bad[0][5]}, documented {bad[0][6]}" if bad else ""), sample=True)


def run(ctx, rep) -> None:
    rep.rule("C14.5", "aligned buffer size = smallest multiple of 64 that is >= the block's byte size (complete residue system)")
    rep.attempt("alignment_arithmetic", alignment_arithmetic, ctx, rep, "C14.5", COPIES)
    from .common import utility_semantics

    rep.rule("C14.6", "the pure utilities this property is built on compute what they document (concrete interpretation on small cases)")
    rep.attempt("utility_semantics", utility_semantics, ctx, rep, "C14.6", ("get_dtype_size", "compress_list", "generate_pairwise_indices"))
    from .common import cached_functions_are_functions_of_their_key, late_binding_closures

    rep.attempt("cached_functions", cached_functions_are_functions_of_their_key, ctx, rep, "C14.6")
    rep.attempt("late_binding_closures", late_binding_closures, ctx, rep, "C14.6")
    rep.rule("C14.1", "the assignment is a deterministic function of global block sizes and group size (stable largest-first, heap of (load, rank), consistent load bookkeeping)")
    rep.rule("C14.2", "state lives only on the owner: selector = assigned rank == rank in the communication group; owners come from the assignment; allocation iterates local lists")
    rep.rule("C14.3", "the DDP / HSDP / HybridShard copies of the assignment and buffer code agree")
    rep.rule("C14.4", "per-block buffers are views of the one gather buffer; the local send buffer is the rank's own split; size expressions agree")
    rep.attempt("assignment_determinism", assignment_determinism, ctx, rep, "C14.1", COPIES)
    rep.attempt("ownership", ownership, ctx, rep, "C14.2", COPIES)
    rep.attempt("state_mesh_layout", state_mesh_layout, ctx, rep, "C14.2")
    from .c03 import _Proxy
    from .c17 import _dispatch_tables

    rep.attempt("distributor_dispatch", _dispatch_tables, ctx, _Proxy(rep, "C17.4", "C14.2"), only=("_instantiate_distributor",))
    rep.attempt("sibling_pairs", sibling_pairs, ctx, rep, "C14.3", dist_pairs())
    rep.attempt("buffer_views", buffer_views, ctx, rep, "C14.4", COPIES)
    rep.attempt("split_semantics", split_semantics, ctx, rep, "C14.4", COPIES)
    rep.attempt("buffer_layout_semantics", buffer_layout_semantics, ctx, rep, "C14.4", COPIES)
    rep.assume("the 4/3 bound, load-difference bound, 64-byte alignment arithmetic and non-overlap of offsets (integer arithmetic over all size sequences) are NOT decided")
