"""C13 — failed root computations are tolerated N times then raised; stored roots/eigenbases are finite.

C13.1 fault containment: the matrix routine runs inside `try ... except Exception` whose handler keeps the stored
      matrix, logs and records a failure; success is recorded after the call; one tracker per block, judged once per block;
C13.2 only finite values are stored: every copy_ into an inverse root / eigenbasis is dominated by a NaN/Inf test on the
      same value (in the dtype it is stored in) raising PreconditionerValueError outside the try; the factor-matrix check
      dominates the routine; the refresh precedes the parameter update of the group;
C13.3 counter transition: success resets, failure increments, raise iff new count > tolerance — on the block's own counter;
C13.4 counters survive mask changes: no subscript store on the step path goes into a masked (re-created) list.
"""

from __future__ import annotations

import ast
import itertools
from types import SimpleNamespace

from .. import astutil as A
from ..cfg import CFG
from ..guards import Interp, Raised, Unsupported
from ..loader import AnalysisError
from ..spaces import space_of
from .c04 import _scope, spaces_engine
from .common import DS, PL_MOD, short

LISTS = {
    f"{PL_MOD}:ShampooPreconditionerList": ("matrix_functions.matrix_inverse_root", "inv_factor_matrices"),
    f"{PL_MOD}:EigenvalueCorrectedShampooPreconditionerList": ("matrix_functions.matrix_eigenvectors", "factor_matrices_eigenvectors"),
}
# results whose entries are bounded by 1 in magnitude: a narrowing cast after the finiteness check cannot overflow
BOUNDED_RESULTS = {"matrix_functions.matrix_eigenvectors": "columns of an orthonormal eigenbasis are unit vectors (|entries| <= 1)"}


def _dtype_tag(repo, m, e: ast.AST, env: dict[str, object], depth: int = 0):
    """('of', name): has the dtype of tensor variable `name`;  None unknown."""
    if isinstance(e, ast.Name):
        if e.id in env and depth < 6:
            return env[e.id]
        return ("of", e.id)
    if isinstance(e, ast.Call):
        f = e.func
        if isinstance(f, ast.Attribute) and f.attr == "to":
            d = A.keyword(e, "dtype") or (e.args[0] if e.args else None)
            if isinstance(d, ast.Attribute) and d.attr == "dtype":
                return _dtype_tag(repo, m, d.value, env, depth + 1)
            if d is None:
                return _dtype_tag(repo, m, f.value, env, depth + 1)
            return ("expr", ast.unparse(d))
        if isinstance(f, ast.Attribute) and f.attr in ("double", "float", "half", "bfloat16"):
            return ("expr", f.attr)
        name = A.callee_name(repo, m, e)
        if name.startswith("matrix_functions."):
            a = A.keyword(e, "A") or (e.args[0] if e.args else None)
            return _dtype_tag(repo, m, a, env, depth + 1) if a is not None else None
        if isinstance(f, ast.Attribute):
            return _dtype_tag(repo, m, f.value, env, depth + 1)
        return None
    if isinstance(e, ast.BinOp):
        l = _dtype_tag(repo, m, e.left, env, depth + 1)
        return l if l is not None else _dtype_tag(repo, m, e.right, env, depth + 1)
    if isinstance(e, ast.Attribute):
        return _dtype_tag(repo, m, e.value, env, depth + 1)
    return None


def counter_writers(ctx, rep, rule: str) -> None:
    """The per-block failure counters change only through the tolerance routine: the local list is created once (in the state
    initialisation) and never rebuilt, the masked list is only its compression by the gradient selector, and element stores
    happen only inside _raise_exception_if_failure_tolerance_exceeded — a streak survives steps without a gradient."""
    repo = ctx.repo
    base = repo.cls(f"{PL_MOD}:BaseShampooPreconditionerList")
    n = 0
    for c in repo.subclasses(base):
        for fi in c.methods.values():
            for st in ast.walk(fi.node):
                tgts = st.targets if isinstance(st, ast.Assign) else ([st.target] if isinstance(st, (ast.AnnAssign, ast.AugAssign)) else [])
                aliases = {s_.targets[0].id for s_ in ast.walk(fi.node) if isinstance(s_, ast.Assign) and len(s_.targets) == 1 and isinstance(s_.targets[0], ast.Name) and "failed_amortized_computation_counter_list" in ast.unparse(s_.value) and isinstance(s_.value, ast.Attribute)}
                for t in tgts:
                    txt = ast.unparse(t)
                    if isinstance(t, ast.Subscript) and isinstance(t.value, ast.Name) and t.value.id in aliases:
                        txt = "self._local_failed_amortized_computation_counter_list[...]"  # a store through a plain alias of the list
                    if "failed_amortized_computation_counter_list" not in txt:
                        continue
                    n += 1
                    local = "_local_failed" in txt
                    whole = isinstance(t, ast.Attribute)
                    if whole and local:
                        ok = fi.name == "_initialize_state_lists"
                        why = "the local counter list is created once, in the state initialisation"
                    elif whole:
                        v = getattr(st, "value", None)
                        ok = fi.name in ("_initialize_state_lists", "compress_preconditioner_list") and v is not None and ("compress_list(" in ast.unparse(v) or ast.unparse(v).endswith("_local_failed_amortized_computation_counter_list"))
                        why = "the masked counter list is the local list or its compression by the gradient selector"
                    else:
                        ok = fi.name == "_raise_exception_if_failure_tolerance_exceeded"
                        why = "element stores happen only in the tolerance routine"
                    rep.ob(rule, f"counter-writers:{c.name}.{fi.name}", ok, fi.loc(st), f"`{ast.unparse(st)[:90]}`: {why}", sample=(n % 3 == 0))
    rep.floor(rule, "stores to the failure-counter lists", n, 1)


def error_class_reaches_the_caller(ctx, rep, rule: str) -> None:
    """The NaN/Inf rejection leaves step() as a PreconditionerValueError: no `try` on the way up (in any function of the
    repository from which a `raise PreconditionerValueError` is reachable) has a handler that would catch it — a handler for
    PreconditionerValueError, ValueError, Exception, BaseException or a bare `except` — unless that handler re-raises the
    exception it caught (`raise` / `raise <the bound name>`, no `from`-less replacement)."""
    repo = ctx.repo
    pts = ctx.engine("pts")
    g = pts.call_graph()
    pve = "PreconditionerValueError"
    raisers = {fi.qual for fi in repo.funcs.values() for n in A.walk_no_nested(fi.node) if isinstance(n, ast.Raise) and n.exc is not None and pve in ast.unparse(n.exc)}
    rep.floor(rule, "functions that raise PreconditionerValueError", len(raisers), 1)
    # functions from which a raiser is reachable
    reach = set(raisers)
    changed = True
    while changed:
        changed = False
        for q, cs in g.items():
            if q not in reach and any(c in reach for c in cs):
                reach.add(q)
                changed = True
    catching = {pve, "ValueError", "Exception", "BaseException"}
    n = 0
    for q in sorted(reach):
        fi = repo.funcs.get(q)
        if fi is None:
            continue
        for tr in [t for t in A.walk_no_nested(fi.node) if isinstance(t, ast.Try)]:
            body = ast.Module(body=tr.body, type_ignores=[])
            # can the body raise it?  a direct raise, or a call whose callee reaches a raiser
            direct = any(isinstance(x, ast.Raise) and x.exc is not None and pve in ast.unparse(x.exc) for x in ast.walk(body))
            via = any(any(c in reach for c in pts.callees(q, c_)) for c_ in A.calls(body, nested=True))
            if not (direct or via):
                continue
            for h in tr.handlers:
                names = {x.split(".")[-1] for x in ([ast.unparse(e) for e in h.type.elts] if isinstance(h.type, ast.Tuple) else [ast.unparse(h.type)])} if h.type is not None else {"<bare>"}
                if not (names & catching or "<bare>" in names):
                    continue
                n += 1
                last = h.body[-1] if h.body else None
                rethrows = isinstance(last, ast.Raise) and (last.exc is None or (isinstance(last.exc, ast.Name) and last.exc.id == h.name)) and last.cause is None
                rep.ob(rule, f"error-class-reaches-the-caller:{short(q)}", rethrows, fi.loc(h), f"`except {', '.join(sorted(names))}` around code that can raise PreconditionerValueError" + (" re-raises the caught exception unchanged" if rethrows else " replaces or swallows it: the NaN/Inf rejection would leave step() as another exception class (or not at all)"))
    rep.ob(rule, "error-class-reaches-the-caller:handlers-on-the-way-up", True, "", f"{len(reach)} function(s) can reach a `raise PreconditionerValueError`; {n} handler(s) on the way up could catch it", nontrivial=False)


def idx_name(x) -> str:
    return str(x)


def run(ctx, rep) -> None:
    repo = ctx.repo
    pts = ctx.engine("pts")
    rep.rule("C13.1", "fault containment: matrix routine inside try/except Exception; handler keeps the stored matrix, warns, records failure; success recorded after the call; one tracker per block")
    rep.rule("C13.2", "only finite values are stored: NaN/Inf test on the stored-dtype value dominates copy_, raises PreconditionerValueError outside the try; factor check dominates the routine; refresh precedes the parameter update")
    rep.rule("C13.3", "counter transition: success => 0; failure => +1 and raise iff count > tolerance; applied to the block's own (local) counter")
    rep.rule("C13.4", "no subscript store on the step path goes into a masked list (a snapshot re-created on every mask change)")
    rep.rule("C13.5", "the tolerance is the block's own: the preconditioner config handed to the lists is the parameter group's, counters are created per list")
    from .common import hyperparameters_from_group, per_group_fresh

    rep.attempt("hyperparameters_from_group", hyperparameters_from_group, ctx, rep, "C13.5")
    rep.attempt("per_group_fresh", per_group_fresh, ctx, rep, "C13.5", ["distributed_shampoo.distributed_shampoo:DistributedShampoo._instantiate_shampoo_preconditioner_list"])
    rep.attempt("error_class_reaches_the_caller", error_class_reaches_the_caller, ctx, rep, "C13.2")
    rep.attempt("counter_writers", counter_writers, ctx, rep, "C13.3")
    from .common import tensor_arguments_are_inputs

    rep.rule("C13.6", "the matrix routines never write into the tensors they are handed (the stored factor / eigenbasis passed as estimate survives a failure mid-routine unchanged)")
    rep.attempt("tensor_arguments_are_inputs", tensor_arguments_are_inputs, ctx, rep, "C13.6")
    kinds = pts.state_kinds()
    judged: list = []  # (caller, call of the tolerance routine, tracker variable, enumerate index variable)
    for cq, (routine, kind) in LISTS.items():
        ci = repo.cls(cq)
        fi = repo.lookup_method(ci, "_amortized_computation")
        if fi is None or fi.is_abstract:
            raise AnalysisError(f"{ci.name}._amortized_computation not found")
        m = fi.module
        cfg = CFG(fi.node)
        tries = [n for n in ast.walk(fi.node) if isinstance(n, ast.Try) and any(A.callee_name(repo, m, c) == routine for c in A.calls(ast.Module(body=n.body, type_ignores=[])))]
        rep.floor("C13.1", f"{ci.name}._amortized_computation try around {routine.split('.')[-1]}", len(tries), 1)
        all_routine_calls = [c for c in A.calls(fi.node) if A.callee_name(repo, m, c) == routine]
        copies = [w for w in pts.writes if w.func == fi.qual and any(kind in kinds.get(t, ()) for t in w.dst)]
        rep.floor("C13.2", f"{ci.name}._amortized_computation stores {kind}", len(copies), 1)
        for tr in tries:
            body_calls = [c for c in A.calls(ast.Module(body=tr.body, type_ignores=[])) if A.callee_name(repo, m, c) == routine]
            call = body_calls[0]
            # ---- handler type
            hs = tr.handlers
            types = [ast.unparse(h.type) if h.type is not None else "<bare>" for h in hs]
            rep.ob("C13.1", f"{ci.name}:handler-type", len(hs) == 1 and types == ["Exception"], fi.loc(tr), f"handler(s) catch {types}; the property requires exactly `except Exception` (narrower lets failures escape, bare/BaseException swallows interrupts)", sample=True)
            h = hs[0]
            # ---- the value that is stored afterwards
            computed = None
            st = A.stmt_of(fi.node, call)
            if isinstance(st, ast.Assign) and isinstance(st.targets[0], ast.Name):
                computed = st.targets[0].id
            dsts = []
            for w in copies:
                c = w.node
                if isinstance(c, ast.Call) and isinstance(c.func, ast.Attribute) and c.func.attr == "copy_" and isinstance(c.func.value, ast.Name) and c.args and isinstance(c.args[0], ast.Name) and c.args[0].id == computed:
                    dsts.append(c)
            stored_var = dsts[0].func.value.id if dsts else None
            rep.ob("C13.1", f"{ci.name}:computed-value-is-what-is-stored", computed is not None and len(dsts) >= 1, fi.loc(call), f"result of {routine.split('.')[-1]} is bound to `{computed}` and stored by `{ast.unparse(dsts[0]) if dsts else '<no copy_ of it>'}`")
            # handler keeps the stored matrix
            keeps = [n for n in h.body if isinstance(n, ast.Assign) and isinstance(n.targets[0], ast.Name) and n.targets[0].id == computed and isinstance(n.value, ast.Name) and n.value.id == stored_var]
            rep.ob("C13.1", f"{ci.name}:handler-keeps-stored-matrix", len(keeps) == 1, fi.loc(h), f"on failure `{computed}` must be rebound to the currently stored `{stored_var}` (so the last good matrix is kept)", sample=True)
            # tracker bookkeeping
            def appends(stmts, value):
                out = []
                for s in stmts:
                    for c in A.calls(s):
                        if isinstance(c.func, ast.Attribute) and c.func.attr == "append" and c.args and isinstance(c.args[0], ast.Constant) and c.args[0].value is value:
                            out.append(c)
                return out
            # success is recorded where an exception of the routine skips it: after the call inside the try body, or in the
            # try's `else:` clause (runs only when the body raised nothing)
            in_else = appends(tr.orelse, True)
            ok_true = appends(tr.body, True) + in_else
            ok_false = appends(h.body, False)
            after_call = bool(ok_true) and (bool(in_else) or ok_true[0].lineno > call.end_lineno) and not appends(tr.body, False) and not appends(tr.orelse, False)
            rep.ob("C13.1", f"{ci.name}:success-recorded-after-call", len(ok_true) == 1 and after_call, fi.loc(tr), "`append(True)` must follow the routine call inside the try body (an exception then skips it)", sample=True)
            rep.ob("C13.1", f"{ci.name}:failure-recorded-in-handler", len(ok_false) == 1 and not appends(h.body, True), fi.loc(h), "handler must record exactly one failure")
            warns = [c for s in h.body for c in A.calls(s) if ast.unparse(c.func).endswith("logger.warning")]
            rep.ob("C13.1", f"{ci.name}:failure-logged", len(warns) >= 1, fi.loc(h), "handler must log a warning")
            # tracker created per block, judged once per block after the inner loop
            tracker = ok_true[0].func.value.id if ok_true and isinstance(ok_true[0].func.value, ast.Name) else None
            loops = A.enclosing_loops(fi.node, tr)
            ok_scope = False
            detail = "tracker scoping"
            if tracker and len(loops) == 2:
                outer, inner = loops
                creates = [n for n in outer.body if isinstance(n, (ast.Assign, ast.AnnAssign)) and isinstance((n.targets[0] if isinstance(n, ast.Assign) else n.target), ast.Name) and (n.targets[0] if isinstance(n, ast.Assign) else n.target).id == tracker]
                judge = [s for s in outer.body if any(any(q.replace(":", ".").endswith("._raise_exception_if_failure_tolerance_exceeded") for q in pts.callees(fi.qual, c)) for c in A.calls(s))]
                idx_inner = outer.body.index(inner) if inner in outer.body else -1
                ok_scope = len(creates) == 1 and len(judge) == 1 and idx_inner >= 0 and outer.body.index(creates[0]) < idx_inner < outer.body.index(judge[0])
                if ok_scope:
                    jc = [c for c in A.calls(judge[0]) if any(q.replace(":", ".").endswith("._raise_exception_if_failure_tolerance_exceeded") for q in pts.callees(fi.qual, c))][0]
                    enum_idx = outer.target.elts[0].id if isinstance(outer.target, ast.Tuple) and isinstance(outer.target.elts[0], ast.Name) and isinstance(outer.iter, ast.Call) and isinstance(outer.iter.func, ast.Name) and outer.iter.func.id == "enumerate" else None
                    # which tracker and which index reach the counter is decided on caller and callee together (C13.3)
                    ok_scope = enum_idx is not None
                    judged.append((fi, jc, tracker, enum_idx))
                    if enum_idx is not None and outer.iter.args:
                        # the index handed to the tolerance routine is a position in the *masked* lists (it is mapped through
                        # the masked->local table): the enumerated iterable must yield one element per masked block, so no
                        # filter / slice / compress may sit between the masked lists and enumerate
                        src = ast.parse(A.expanded(fi.node, outer.iter.args[0]), mode="eval").body
                        thin = [n for n in ast.walk(src) if (isinstance(n, ast.comprehension) and n.ifs) or (isinstance(n, ast.Call) and ast.unparse(n.func).split(".")[-1] in ("filter", "compress", "compress_list", "islice", "takewhile", "dropwhile", "filterfalse")) or (isinstance(n, ast.Subscript) and isinstance(n.slice, ast.Slice))]
                        start = [k for k in outer.iter.keywords if k.arg == "start"] or outer.iter.args[1:]
                        rep.ob("C13.3", f"{ci.name}:enumerate-index-spans-the-masked-lists", not thin and not start, fi.loc(outer), f"`{idx_name(enum_idx)}` is used as a position in the masked lists; enumerate runs over `{ast.unparse(outer.iter.args[0])[:120]}`" + (" which filters / slices / offsets its elements, so positions shift whenever an element is dropped" if thin or start else ""), sample=True)
                detail = f"tracker `{tracker}` created once per block before the factor loop, judged once per block after it: {ok_scope}"
            rep.ob("C13.1", f"{ci.name}:tracker-per-block", ok_scope, fi.loc(tr), detail, sample=True)
            # ---- C13.2 finiteness check dominates the copy, on the same value, outside the try
            for c in dsts:
                cn = cfg.node_of(c)
                checks = []
                for t in cfg.nodes:
                    if t.kind != "test" or not cfg.dominates(t, cn):
                        continue
                    txt_calls = [A.callee_name(repo, m, k) for k in A.calls(t.ast.test, nested=True)]
                    nan = [k for k in A.calls(t.ast.test, nested=True) if A.callee_name(repo, m, k) == "torch.isnan" or (isinstance(k.func, ast.Attribute) and k.func.attr == "isnan")]
                    inf = [k for k in A.calls(t.ast.test, nested=True) if A.callee_name(repo, m, k) == "torch.isinf" or (isinstance(k.func, ast.Attribute) and k.func.attr == "isinf")]
                    def subj(k):
                        return ast.unparse(k.args[0]) if k.args else ast.unparse(k.func.value)
                    if nan and inf and {subj(k) for k in nan + inf} == {computed} and isinstance(t.ast.test, ast.BoolOp) and isinstance(t.ast.test.op, ast.Or):
                        raises = [s for s in t.ast.body if isinstance(s, ast.Raise)]
                        exc = ast.unparse(raises[0].exc.func) if raises and isinstance(raises[0].exc, ast.Call) else None
                        in_try = any(t.ast in ast.walk(x) for x in ast.walk(fi.node) if isinstance(x, ast.Try) and any(t.ast in ast.walk(b) for b in x.body))
                        # every path through the True edge raises (copy unreachable)
                        tsucc = [s for s, lab in t.succ if lab == "T"]
                        reach = set()
                        for s0 in tsucc:
                            reach |= cfg.reachable(s0)
                        if exc == "PreconditionerValueError" and not in_try and cn not in reach:
                            checks.append(t)
                rep.ob("C13.2", f"{ci.name}:finite-check-dominates-copy", len(checks) >= 1, fi.loc(c), f"`{ast.unparse(c)}` must be dominated by `if isnan({computed}).any() or isinf({computed}).any(): raise PreconditionerValueError` outside the try ({len(checks)} such test(s) found)", sample=True)
                # dtype of the checked value == dtype it is stored in
                env = {}
                for n in A.walk_no_nested(fi.node):
                    if isinstance(n, ast.Assign) and isinstance(n.targets[0], ast.Name) and n.targets[0].id not in (stored_var,):
                        env.setdefault(n.targets[0].id, None)
                tags = set()
                for n in A.walk_no_nested(fi.node):
                    if isinstance(n, ast.Assign) and isinstance(n.targets[0], ast.Name) and n.targets[0].id == computed:
                        local_env = {}
                        for n2 in A.walk_no_nested(fi.node):
                            if isinstance(n2, ast.Assign) and isinstance(n2.targets[0], ast.Name) and n2.targets[0].id != computed and n2.targets[0].id != stored_var:
                                local_env[n2.targets[0].id] = _dtype_tag(repo, m, n2.value, {})
                        tags.add(_dtype_tag(repo, m, n.value, local_env))
                want = ("of", stored_var)
                bounded = routine in BOUNDED_RESULTS
                ok = tags <= {want} or bounded
                rep.ob("C13.2", f"{ci.name}:checked-value-has-stored-dtype", ok, fi.loc(c), f"the value tested for NaN/Inf must already have the dtype it is stored in (copy_ casts implicitly: a finite wide value can overflow after the check); dtype provenance of `{computed}`: {sorted(map(str, tags))}, stored in dtype of `{stored_var}`" + (f"; exempt: {BOUNDED_RESULTS[routine]}" if bounded and not tags <= {want} else ""), sample=True)
        # ---- factor-matrix check dominates the routine and is outside the try
        chk = [c for c in A.calls(fi.node) if any(q.replace(":", ".").endswith("._check_factor_matrix_for_diagonality_nan_and_inf") for q in pts.callees(fi.qual, c))]
        ok = len(chk) == 1 and all_routine_calls and cfg.dominates(cfg.node_of(chk[0]), cfg.node_of(all_routine_calls[0])) and not any(chk[0] in ast.walk(b) for tr in tries for b in tr.body)
        subj_ok = False
        if chk and all_routine_calls:
            callee = repo.func(f"{PL_MOD}:BaseShampooPreconditionerList._check_factor_matrix_for_diagonality_nan_and_inf")
            a1 = A.arg_of(chk[0], callee, "factor_matrix")
            a2 = A.keyword(all_routine_calls[0], "A") or (all_routine_calls[0].args[0] if all_routine_calls[0].args else None)
            subj_ok = a1 is not None and a2 is not None and ast.unparse(a1) == ast.unparse(a2)
        rep.ob("C13.2", f"{ci.name}:factor-check-dominates-routine", bool(ok and subj_ok), fi.loc(chk[0]) if chk else fi.loc(), f"the NaN/Inf check of the factor matrix must dominate the matrix routine, be outside the try, and test the matrix handed to the routine ({subj_ok})", sample=True)
    # the shared factor check raises PreconditionerValueError for NaN and for Inf
    chkf = repo.func(f"{PL_MOD}:BaseShampooPreconditionerList._check_factor_matrix_for_diagonality_nan_and_inf")
    found = {"isnan": False, "isinf": False}
    for n in A.walk_no_nested(chkf.node):
        if isinstance(n, ast.If):
            for k in A.calls(n.test, nested=True):
                nm = A.callee_name(repo, chkf.module, k)
                for key in found:
                    if nm == "torch." + key or nm == "." + key:
                        raises = [s for s in n.body if isinstance(s, ast.Raise)]
                        if raises and isinstance(raises[0].exc, ast.Call) and ast.unparse(raises[0].exc.func) == "PreconditionerValueError" and ast.unparse(k.args[0] if k.args else k.func.value) == "factor_matrix":
                            found[key] = True
    rep.ob("C13.2", "factor-check:nan-and-inf-raise", all(found.values()), chkf.loc(), f"factor check raises PreconditionerValueError on NaN ({found['isnan']}) and on Inf ({found['isinf']})", sample=True)
    ccfg = CFG(chkf.node)
    scans = [t for t in ccfg.nodes if t.kind == "test" and ("isnan" in ast.unparse(t.ast.test) or "isinf" in ast.unparse(t.ast.test))]
    every = len(scans) >= 2 and all(ccfg.all_paths_pass(ccfg.entry, [ccfg.exit], lambda x, t=t: x is t) for t in scans)
    rep.ob("C13.2", "factor-check:scans-on-every-path", every, chkf.loc(), "every path through the factor check evaluates both the NaN and the Inf scan before returning (an early return, e.g. for still-diagonal factors, would let a non-finite factor through the diagonal fast path)", sample=True)
    # refresh precedes the parameter update of the group
    impl = repo.method(DS, "_per_group_step_impl")
    icfg = CFG(impl.node)
    upd = [c for c in A.calls(impl.node) if f"{DS}._update_preconditioners" in pts.callees(impl.qual, c)]
    app = [c for c in A.calls(impl.node) if any(q.replace(":", ".").endswith(".update_params") for q in pts.callees(impl.qual, c))]
    reach_am = any(q.replace(":", ".").endswith("._amortized_computation") for q in pts.reachable_funcs([f"{DS}._update_preconditioners"]))
    ok = len(upd) == 1 and len(app) == 1 and reach_am and icfg.dominates(icfg.node_of(upd[0]), icfg.node_of(app[0]))
    rep.ob("C13.2", "refresh-precedes-parameter-update", ok, impl.loc(), "the call that can raise PreconditionerValueError dominates update_params in the group step (no parameter of the group is modified first)", sample=True)
    rep.attempt("_counter_transition", _counter_transition, ctx, rep, judged)
    rep.attempt("_write_through", _write_through, ctx, rep)
    rep.assume("torch semantics of isnan / isinf / copy_ (copy_ casts to the destination dtype)")


def _counter_transition(ctx, rep, judged: list) -> None:
    """The tolerance routine is simulated *from each call site* (callee body with the call's argument expressions in place
    of its parameters), over outcome lists x counts x tolerances x block positions: success => the block's own local
    counter becomes 0; failure => +1 and the passed exception is raised iff the new count exceeds the tolerance; no other
    counter changes.  Checking the composition makes the rule independent of which side translates the masked index."""
    from ..canon import composed_call

    repo = ctx.repo
    fi = repo.func(f"{PL_MOD}:BaseShampooPreconditionerList._raise_exception_if_failure_tolerance_exceeded")
    rep.floor("C13.3", "call sites of the tolerance routine", len(judged), 2)
    trackers = [[True], [True, True], [False], [True, False], [False, False], []]
    class Foreign:
        """A value the simulation knows nothing about (a name that is neither the list's state nor the call's inputs): any
        comparison with it raises, so a tolerance taken from anywhere but the list's own config shows up as a disagreement."""

        def __init__(self, name: str) -> None:
            self._n = name

        def __getattr__(self, a: str):
            return Foreign(f"{self._n}.{a}")

        def __repr__(self) -> str:
            return f"<{self._n}>"

    for caller, call, tracker_var, idx_var in judged:
        # the call's arguments with the caller's pure locals spelled out (a hoisted `tolerance = self._config.x` is that path)
        import copy as _copy

        call = _copy.deepcopy(call)
        call.args = [ast.parse(A.expanded(caller.node, a), mode="eval").body for a in call.args]
        for k in call.keywords:
            k.value = ast.parse(A.expanded(caller.node, k.value), mode="eval").body
        body = composed_call(fi.node, True, call, caller.node)
        if body is None:
            raise AnalysisError(f"C13.3: cannot compose {short(caller.qual)} with the tolerance routine")
        holder = ast.Module(body=body, type_ignores=[])
        attrs = sorted({n.attr for n in ast.walk(holder) if isinstance(n, ast.Attribute) and isinstance(n.value, ast.Name) and n.value.id == "self"})
        exc_arg = None
        bad = []
        n = 0
        for tracker, c, tol, idx in itertools.product(trackers, range(0, 5), range(0, 4), (0, 1)):
            local_counters = [7, 7, 7]
            masked_to_local = [2, 0]
            target = masked_to_local[idx]
            local_counters[target] = c
            selfobj = SimpleNamespace()
            for a in attrs:
                if "index" in a:
                    setattr(selfobj, a, list(masked_to_local))
                elif "counter" in a:
                    if "masked" in a:
                        setattr(selfobj, a, [c if i == idx else 7 for i in range(2)])
                    else:
                        setattr(selfobj, a, list(local_counters))
                elif a == "_preconditioner_config":
                    setattr(selfobj, a, SimpleNamespace(num_tolerated_failed_amortized_computations=tol))
            env = {"self": selfobj, tracker_var: list(tracker), idx_var: idx}
            it = Interp(env, resolve_name=lambda nm: Foreign(nm))
            raised = None
            try:
                it.run([s for s in body if not (isinstance(s, ast.Expr) and isinstance(s.value, ast.Constant))], lambda e: ast.unparse(e))
            except Raised as r:
                raised = r.exc_name
            except Unsupported as u:
                raise AnalysisError(f"C13.3: tolerance routine (composed with {short(caller.qual)}) outside the sub-language: {u}") from u
            want_c = 0 if all(tracker) else c + 1
            want_raise = (not all(tracker)) and (c + 1 > tol)
            got_local = getattr(selfobj, next((a for a in attrs if "counter" in a and "masked" not in a), ""), None)
            got_masked = getattr(selfobj, next((a for a in attrs if "counter" in a and "masked" in a), ""), None)
            if got_local is not None:
                exp = [7, 7, 7]
                exp[target] = want_c
                ok_c = got_local == exp
            else:
                ok_c = got_masked is not None and got_masked[idx] == want_c
            n += 1
            if not ok_c or (raised is not None) != want_raise or (raised not in (None, "exception", "ValueError")):
                bad.append((tracker, c, tol, idx, raised, got_local if got_local is not None else got_masked))
        rep.ob(
            "C13.3",
            f"counter-transition:{short(caller.qual)}",
            not bad,
            caller.loc(),
            f"{n} (outcomes, count, tolerance, block) cases through the call in {short(caller.qual)}: success => counter 0, failure => +1 and raise the passed exception iff new count > tolerance, only the block's own (local) counter changes"
            + (f"; first disagreement: tracker={bad[0][0]}, count={bad[0][1]}, tolerance={bad[0][2]}, masked index={bad[0][3]} -> raised={bad[0][4]}, counters={bad[0][5]}" if bad else ""),
            sample=True,
        )


def _write_through(ctx, rep) -> None:
    repo = ctx.repo
    pts = ctx.engine("pts")
    sp = spaces_engine(ctx)
    step_funcs = pts.reachable_funcs([f"{DS}.step"])
    n = 0
    for q in sorted(step_funcs):
        fi = repo.funcs.get(q)
        if fi is None or fi.cls is None:
            continue
        classes = [c for c in sp.pl_classes + sp.dist_classes + [sp.ds] if repo.is_subclass(c, fi.cls)]
        for node in A.walk_no_nested(fi.node):
            tgt = None
            if isinstance(node, ast.Assign) and isinstance(node.targets[0], ast.Subscript):
                tgt = node.targets[0]
            elif isinstance(node, ast.AugAssign) and isinstance(node.target, ast.Subscript):
                tgt = node.target
            if tgt is None or isinstance(tgt.slice, ast.Slice):
                continue
            for c in classes:
                t = sp.ty(tgt.value, _scope(sp, fi, c))
                s = space_of(t)
                if s is None:
                    continue
                n += 1
                ok = s not in ("LM", "GM")
                rep.ob("C13.4", f"substore:{short(q)}@{c.name}:{ast.unparse(tgt.value)}", ok, fi.loc(node), f"`{ast.unparse(node)[:90]}` stores into a list of space {s}" + ("" if ok else " — masked lists are re-created from the local lists on every gradient-selector change, so this update is lost (a block can then fail forever without exceeding the tolerance)"), sample=True)
    rep.floor("C13.4", "subscript stores into per-block lists on the step path", n, 2)
