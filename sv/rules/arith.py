"""Arithmetic of the documented recurrences, decided by exact term comparison (E11: sv/shadow.py + sv/terms.py).

Each rule interprets one function on a representative element with symbolic inputs, for every case of a finite split
over its scalar flags, and compares the resulting terms with the documented recurrence as rational functions.
The oracles below are transcribed from the property statements and the algorithm comments in the code
("G_tilde <- beta1 * G_tilde + (1 - beta1) * G", "M <- momentum_param * M + (1 - dampening) * P", ...).
"""

from __future__ import annotations

import ast
import itertools
from fractions import Fraction

from .. import astutil as A
from ..guards import Unsupported
from ..loader import AnalysisError
from ..report import NotShown
from ..shadow import Cell, ListRep, Obj, Shadow
from ..terms import Atoms, Rat
from .common import DS, PL_MOD, short


def _mk(repo, inline=None, opaque=None, decide=None):
    atoms = Atoms()
    sh = Shadow(repo, atoms, inline=set(inline or ()), opaque=dict(opaque or {}), decide=decide)
    return atoms, sh


def _scalar(atoms, case_val, name):
    """case value: a number (concrete) or GEN -> generic symbol"""
    if case_val is GEN:
        return Rat.sym(atoms, name)
    return case_val


GEN = "<generic>"


def _cmp(rep, rule, key, where, got, want, what, case, bad):
    if got is None or not (got == want):
        bad.append((case, what, str(got), str(want)))


def _report(rep, rule, key, where, n, bad, text):
    detail = f"{n} case(s) of the flag split compared as exact rational functions with the documented recurrence: {text}"
    if bad:
        c, what, got, want = bad[0]
        detail += f"; first disagreement in case {c}: {what} is `{got[:220]}`, documented `{want[:220]}`"
    rep.ob(rule, key, not bad, where, detail, sample=True)


# ------------------------------------------------------------------------------------------------ optimizer step
def step_arithmetic(ctx, rep, rule: str) -> None:
    """Whole group step: _per_group_step_impl with its seven helpers inlined; preconditioners opaque."""
    repo = ctx.repo
    impl = repo.method(DS, "_per_group_step_impl")
    helpers = {"_add_l2_regularization", "_update_preconditioners", "_compute_filtered_grad_list", "_precondition_and_grafting", "_apply_decoupled_weight_decay", "_update_momentum"}
    n = 0
    bad: list = []
    splits = itertools.product([0.0, GEN], [True, False], [0.0, GEN], ["same", GEN], [True, False], [0.0, GEN], [True, False], [(False, False), (True, False), (True, True)])
    for wd, dec, b1, b3, ubc, mu, nest, (gnn, ugm) in splits:
        applied: list = []

        def precond(tag):
            def f(sh, args, kw, recv=None):
                x = kw.get("masked_grad_list", args[0] if args else None)
                return ListRep(Cell(Rat.app(sh.atoms, tag, (sh.rat(x.elem),))))
            return f

        atoms = Atoms()

        def method(sh, args, kw, recv=None):
            return None

        def precondition(sh, args, kw, recv=None):
            tag = getattr(recv, "name", "list")
            x = kw.get("masked_grad_list", args[0] if args else None)
            return ListRep(Cell(Rat.app(sh.atoms, f"precondition[{tag}]", (sh.rat(x.elem),))))

        def update_params(sh, args, kw, recv=None):
            x = kw.get("masked_blocked_search_directions", args[0] if args else None)
            applied.append(sh.rat(x.elem))
            return None

        sh = Shadow(repo, atoms, inline=helpers, opaque={"update_preconditioners": method, "precondition": precondition, "update_params": update_params})
        g, w, f, m = (Cell(Rat.sym(atoms, s)) for s in ("g", "w", "f", "m"))
        g0, w0, f0, m0 = g.v, w.v, f.v, m.v
        state = {
            "masked_blocked_grads": ListRep(g), "masked_blocked_params": ListRep(w), "masked_filtered_grad_list": ListRep(f), "masked_momentum_list": ListRep(m),
            "shampoo_preconditioner_list": Obj("shampoo"), "grafting_preconditioner_list": Obj("graft"), "distributor": Obj("distributor"),
        }  # fmt: skip
        beta1 = _scalar(atoms, b1, "beta1")
        beta3 = beta1 if b3 == "same" else Rat.sym(atoms, "beta3")
        env = {
            "state_lists": state, "step": Cell(Rat.sym(atoms, "step")), "lr": Cell(Rat.sym(atoms, "lr")), "beta1": beta1, "beta3": beta3,
            "weight_decay": _scalar(atoms, wd, "wd"), "momentum_param": _scalar(atoms, mu, "mu"), "dampening": Rat.sym(atoms, "damp"),
            "grafting_config_not_none": gnn, "perform_amortized_computation": False, "use_decoupled_weight_decay": dec, "use_bias_correction": ubc,
            "use_grafting_method": ugm, "use_nesterov": nest,
        }  # fmt: skip
        case = dict(weight_decay=wd, decoupled=dec, beta1=b1, beta3=b3, bias_correction=ubc, momentum=mu, nesterov=nest, grafting=gnn, warm_up=ugm)
        try:
            sh.run(impl, env, Obj("self"))
        except Unsupported as u:
            raise AnalysisError(f"{rule}: group step outside the element-wise sub-language: {u}") from u
        n += 1
        S = lambda name: Rat.sym(atoms, name)  # noqa: E731
        one = Rat.const(atoms, 1)
        # ---- documented recurrence
        wdv = Rat.const(atoms, 0) if wd == 0.0 else S("wd")
        g1 = g0 + (wdv * w0 if (wd != 0.0 and not dec) else 0)
        if b1 == 0.0:
            f1, gbar = f0, g1
        else:
            bb1 = S("beta1")
            bb3 = bb1 if b3 == "same" else S("beta3")
            f1 = bb1 * f0 + (one - bb1) * g1
            gbar = bb3 * f0 + (one - bb3) * g1
            if ubc:
                gbar = gbar / (one - bb3 * Rat.app(atoms, "pow", (bb1, S("step") - 1)))
        app = lambda tag, x: Rat.app(atoms, f"precondition[{tag}]", (x,))  # noqa: E731
        if ugm:
            p = app("graft", gbar)
        else:
            p = app("shampoo", gbar)
            if gnn:
                p = p * (Rat.app(atoms, "norm", (app("graft", gbar),)) / (Rat.app(atoms, "norm", (p,)) + Fraction(1, 10**16)))
        p1 = p + (wdv * w0 if (wd != 0.0 and dec) else 0)
        if mu == 0.0:
            m1, p2 = m0, p1
        else:
            m1 = S("mu") * m0 + (one - S("damp")) * p1
            p2 = ((one - S("damp")) * p1 + S("mu") * m1) if nest else m1
        want_applied = -S("lr") * p2
        _cmp(rep, rule, "", "", f.v, f1, "filtered gradient state", case, bad)
        _cmp(rep, rule, "", "", m.v, m1, "momentum state", case, bad)
        _cmp(rep, rule, "", "", applied[0] if len(applied) == 1 else None, want_applied, "update handed to update_params", case, bad)
        _cmp(rep, rule, "", "", w.v, w0, "parameters before update_params (must be untouched by the step body)", case, bad)
    _report(rep, rule, "group-step-recurrence", impl.loc(), n, bad, "G <- G + wd*W (coupled); G_tilde <- beta1*G_tilde + (1-beta1)*G; G_bar <- (beta3*G_tilde + (1-beta3)*G)/(1 - beta3*beta1^(step-1)); P <- graft | shampoo [* ||graft||/(||shampoo||+1e-16)]; P <- P + wd*W (decoupled); M <- mu*M + (1-damp)*P; P <- (1-damp)*P + mu*M | M; update = -lr*P")
    # parameter application of the default distributor: W <- W + update
    up = repo.func("distributed_shampoo.utils.shampoo_distributor:Distributor.update_params")
    atoms = Atoms()
    sh = Shadow(repo, atoms)
    wc, dc = Cell(Rat.sym(atoms, "w")), Cell(Rat.sym(atoms, "d"))
    selfo = Obj("self", {"_local_masked_blocked_params": ListRep(wc)})
    try:
        sh.run(up, {"masked_blocked_search_directions": ListRep(dc)}, selfo)
    except Unsupported as u:
        raise NotShown(rule, f"interpretable:Distributor.update_params", "", f"Distributor.update_params cannot be compared with the documented recurrence: it uses a construct the term interpreter does not model ({u}) — the documented computation has no such step") from u
    ok = wc.v == Rat.sym(atoms, "w") + Rat.sym(atoms, "d") and dc.v == Rat.sym(atoms, "d")
    rep.ob(rule, "parameters-move-by-the-update", ok, up.loc(), f"Distributor.update_params: W <- `{wc.v}` (documented W + update)", sample=True)


# ------------------------------------------------------------------------------------------------ diagonal (grafting) preconditioner
def adagrad_arithmetic(ctx, rep, rule: str) -> None:
    repo = ctx.repo
    ci = repo.cls(f"{PL_MOD}:AdagradPreconditionerList")
    up, pre = repo.meth(ci, "update_preconditioners"), repo.meth(ci, "precondition")
    n = 0
    bad: list = []
    for b2, ubc in itertools.product([1.0, GEN], [True, False]):
        atoms = Atoms()

        def decide(t, sh, b2=b2):
            txt = " ".join(ast.unparse(t).split())
            if txt == "self._beta2 < 1.0":
                return b2 is GEN
            return None

        sh = Shadow(repo, atoms, decide=decide)
        v, g, bc = Cell(Rat.sym(atoms, "v")), Cell(Rat.sym(atoms, "g")), Cell(Rat.sym(atoms, "bc2"))
        selfo = Obj("self", {"_masked_preconditioner_list": ListRep(v), "_beta2": _scalar(atoms, b2, "beta2"), "_use_bias_correction": ubc, "_bias_correction2": bc, "_epsilon": Rat.sym(atoms, "eps"), "__class__": Obj("cls"), "update_preconditioners": Obj("m"), "precondition": Obj("m")})
        selfo.fields["__class__"].fields["__name__"] = "cls"
        for o in (selfo.fields["update_preconditioners"], selfo.fields["precondition"]):
            o.fields["__name__"] = "m"
        try:
            sh.run(up, {"masked_grad_list": ListRep(g), "step": Cell(Rat.sym(atoms, "step"))}, selfo)
        except Unsupported as u:
            raise NotShown(rule, f"interpretable:AdagradPreconditionerList.update_preconditioners", "", f"AdagradPreconditionerList.update_preconditioners cannot be compared with the documented recurrence: it uses a construct the term interpreter does not model ({u}) — the documented computation has no such step") from u
        S = lambda s: Rat.sym(atoms, s)  # noqa: E731
        one = Rat.const(atoms, 1)
        want_v = S("v") + S("g") * S("g") if b2 == 1.0 else S("beta2") * S("v") + (one - S("beta2")) * S("g") * S("g")
        want_bc = one - Rat.app(atoms, "pow", (S("beta2"), S("step"))) if (ubc and b2 is GEN) else S("bc2")
        case = dict(beta2=b2, bias_correction=ubc)
        n += 1
        _cmp(rep, rule, "", "", v.v, want_v, "second-moment accumulator", case, bad)
        got_bc = selfo.fields["_bias_correction2"]
        _cmp(rep, rule, "", "", sh.rat(got_bc), want_bc, "bias-correction term", case, bad)
        _cmp(rep, rule, "", "", g.v, S("g"), "gradient (must not be modified)", case, bad)
        # precondition with symbolic accumulator / bias correction
        atoms2 = Atoms()
        sh2 = Shadow(repo, atoms2)
        v2, g2, bc2 = Cell(Rat.sym(atoms2, "v")), Cell(Rat.sym(atoms2, "g")), Cell(Rat.sym(atoms2, "bc2"))
        self2 = Obj("self", {"_masked_preconditioner_list": ListRep(v2), "_bias_correction2": bc2, "_epsilon": Rat.sym(atoms2, "eps"), "__class__": selfo.fields["__class__"], "precondition": selfo.fields["precondition"]})
        try:
            out = sh2.run(pre, {"masked_grad_list": ListRep(g2)}, self2)
        except Unsupported as u:
            raise NotShown(rule, f"interpretable:AdagradPreconditionerList.precondition", "", f"AdagradPreconditionerList.precondition cannot be compared with the documented recurrence: it uses a construct the term interpreter does not model ({u}) — the documented computation has no such step") from u
        S2 = lambda s: Rat.sym(atoms2, s)  # noqa: E731
        want = S2("g") / ((S2("v") / S2("bc2")).sqrt() + S2("eps"))
        _cmp(rep, rule, "", "", sh2.rat(out.elem) if isinstance(out, ListRep) else None, want, "preconditioned gradient", case, bad)
        _cmp(rep, rule, "", "", v2.v, S2("v"), "accumulator (precondition must not modify state)", case, bad)
        _cmp(rep, rule, "", "", g2.v, S2("g"), "input gradient (precondition must not modify it)", case, bad)
    _report(rep, rule, "diagonal-preconditioner-recurrence", up.loc(), n, bad, "V <- V + G^2 (beta2 = 1) | beta2*V + (1-beta2)*G^2; bias_correction2 <- 1 - beta2^step iff bias correction and beta2 < 1; direction = G / (sqrt(V / bias_correction2) + epsilon)")


# ------------------------------------------------------------------------------------------------ Kronecker factors
def factor_arithmetic(ctx, rep, rule: str) -> None:
    repo = ctx.repo
    base = repo.cls(f"{PL_MOD}:BaseShampooPreconditionerList")
    fi = repo.meth(base, "_update_factor_matrices")
    n = 0
    bad: list = []
    for b2 in (1.0, GEN):
        atoms = Atoms()
        sh = Shadow(repo, atoms, opaque={"distributed_shampoo.utils.shampoo_utils.compress_list": lambda sh, args, kw: ListRep(sh.sym("k"))})
        L, g = Cell(Rat.sym(atoms, "L")), Cell(Rat.sym(atoms, "g"))
        kf = Obj("kf", {"factor_matrices": ListRep(L)})
        nm = Obj("m")
        nm.fields["__name__"] = "m"
        cl = Obj("cls")
        cl.fields["__name__"] = "cls"
        selfo = Obj("self", {"_beta2": _scalar(atoms, b2, "beta2"), "_masked_order_list": ListRep(Rat.sym(atoms, "order")), "_masked_preconditioned_dims_selector_list": ListRep(Obj("sel")), "_masked_kronecker_factors_list": ListRep(kf), "__class__": cl, "_update_factor_matrices": nm})
        try:
            sh.run(fi, {"masked_grad_list": ListRep(g)}, selfo)
        except Unsupported as u:
            raise NotShown(rule, f"interpretable:_update_factor_matrices", "", f"_update_factor_matrices cannot be compared with the documented recurrence: it uses a construct the term interpreter does not model ({u}) — the documented computation has no such step") from u
        S = lambda s: Rat.sym(atoms, s)  # noqa: E731
        T = Rat.app(atoms, "tensordot", (S("g"), S("g")))
        want = S("L") + T if b2 == 1.0 else S("beta2") * S("L") + (Rat.const(atoms, 1) - S("beta2")) * T
        n += 1
        _cmp(rep, rule, "", "", L.v, want, "factor matrix", dict(beta2=b2), bad)
        _cmp(rep, rule, "", "", g.v, S("g"), "gradient (must not be modified)", dict(beta2=b2), bad)
    _report(rep, rule, "factor-accumulation", fi.loc(), n, bad, "L_k <- L_k + G (x)_k G (beta2 = 1) | beta2*L_k + (1-beta2)*(G (x)_k G), with G (x)_k G = tensordot(G, G) over all dims but k")
    # contraction dims: all dimensions except k, for both operands
    td = [c for c in A.calls(fi.node, nested=True) if A.callee_name(repo, fi.module, c) == "torch.tensordot"]
    ok = False
    if len(td) == 1:
        d = A.keyword(td[0], "dims")
        txt = " ".join(ast.unparse(d).split()) if d is not None else ""
        ok = txt == "[[*chain(range(k), range(k + 1, order))]] * 2"
        if not ok and d is not None:
            ok = _dims_all_but_k(ast.parse(A.expanded(repo.owner(td[0]).node if repo.owner(td[0]) is not None else fi.node, d, displays=True), mode="eval").body)
    rep.ob(rule, "contraction-over-all-dims-but-k", ok, fi.loc(td[0]) if td else fi.loc(), "tensordot(G, G, dims=[[all dims except k]] * 2) — the mode-k Gram matrix")


def _dims_all_but_k(d: ast.AST) -> bool:
    """Evaluate the dims expression for small (order, k) with a closed evaluator over range/chain/list displays."""
    import itertools as it

    def ev(e, env):
        if isinstance(e, ast.Constant):
            return e.value
        if isinstance(e, ast.Name):
            return env[e.id]
        if isinstance(e, ast.BinOp) and isinstance(e.op, (ast.Add, ast.Sub, ast.Mult)):
            a, b = ev(e.left, env), ev(e.right, env)
            return a + b if isinstance(e.op, ast.Add) else a - b if isinstance(e.op, ast.Sub) else a * b
        if isinstance(e, (ast.List, ast.Tuple)):
            out = []
            for x in e.elts:
                if isinstance(x, ast.Starred):
                    out.extend(ev(x.value, env))
                else:
                    out.append(ev(x, env))
            return out
        if isinstance(e, ast.Call) and isinstance(e.func, ast.Name) and e.func.id in ("range", "chain", "list", "tuple"):
            args = [ev(a, env) for a in e.args]
            if e.func.id == "range":
                return list(range(*args))
            if e.func.id == "chain":
                return list(it.chain(*args))
            return list(args[0])
        if isinstance(e, ast.ListComp) and len(e.generators) == 1 and isinstance(e.generators[0].target, ast.Name):
            g = e.generators[0]
            out = []
            for v in ev(g.iter, env):
                env2 = dict(env, **{g.target.id: v})
                if all(ev(c, env2) for c in g.ifs):
                    out.append(ev(e.elt, env2))
            return out
        if isinstance(e, ast.Compare) and len(e.ops) == 1:
            a, b = ev(e.left, env), ev(e.comparators[0], env)
            return {ast.NotEq: a != b, ast.Eq: a == b, ast.Lt: a < b, ast.Gt: a > b}[type(e.ops[0])]
        raise Unsupported("dims expression")

    try:
        for order in range(1, 5):
            for k in range(order):
                want = [i for i in range(order) if i != k]
                got = ev(d, {"order": order, "k": k})
                if [list(x) for x in got] != [want, want]:
                    return False
        return True
    except (Unsupported, KeyError, TypeError):
        return False


def inverse_root_wiring(ctx, rep, rule: str) -> None:
    repo = ctx.repo
    ci = repo.cls(f"{PL_MOD}:ShampooPreconditionerList")
    fi = repo.meth(ci, "_amortized_computation")
    n = 0
    bad: list = []
    for mult, ubc, b2 in itertools.product((None, GEN), (True, False), (1.0, GEN)):
        atoms = Atoms()

        def inv_root(sh, args, kw):
            return Cell(Rat.app(sh.atoms, "matrix_inverse_root", (sh.rat(kw["A"]), sh.rat(kw["root"]), sh.rat(kw["epsilon"]))))

        def noop(sh, args, kw, recv=None):
            return None

        def decide(t, sh, b2=b2):
            txt = ast.unparse(t)
            if "isnan" in txt or "isinf" in txt:
                return False
            if " ".join(txt.split()) == "self._beta2 < 1.0":
                return b2 is GEN
            return None

        sh = Shadow(repo, atoms, opaque={"matrix_functions.matrix_inverse_root": inv_root, "_check_factor_matrix_for_diagonality_nan_and_inf": noop, "_raise_exception_if_failure_tolerance_exceeded": noop, "distributed_shampoo.utils.shampoo_preconditioner_list.BaseShampooPreconditionerList._check_factor_matrix_for_diagonality_nan_and_inf": noop}, decide=decide)
        L, X = Cell(Rat.sym(atoms, "L")), Cell(Rat.sym(atoms, "X"))
        kf = Obj("kf", {"factor_matrices": ListRep(L), "inv_factor_matrices": ListRep(X), "is_factor_matrices_diagonal": ListRep(Cell(Rat.sym(atoms, "diag"))), "factor_matrix_indices": ListRep("idx")})
        cfg = Obj("cfg", {} if mult is None else {"exponent_multiplier": Rat.sym(atoms, "mult")})
        pc = Obj("pc", {"amortized_computation_config": cfg})
        nm, cl = Obj("m"), Obj("cls")
        nm.fields["__name__"] = cl.fields["__name__"] = "n"
        selfo = Obj("self", {"_masked_kronecker_factors_list": ListRep(kf), "_masked_root_list": ListRep(Rat.sym(atoms, "root")), "_bias_correction2": Cell(Rat.sym(atoms, "bc2")), "_epsilon": Rat.sym(atoms, "eps"), "_preconditioner_config": pc, "__class__": cl, "_amortized_computation": nm, "_use_bias_correction": ubc, "_beta2": _scalar(atoms, b2, "beta2")})
        selfo.cls = ci
        try:
            sh.run(fi, {}, selfo)
        except Unsupported as u:
            raise NotShown(rule, f"interpretable:ShampooPreconditionerList._amortized_computation", "", f"ShampooPreconditionerList._amortized_computation cannot be compared with the documented recurrence: it uses a construct the term interpreter does not model ({u}) — the documented computation has no such step") from u
        S = lambda s: Rat.sym(atoms, s)  # noqa: E731
        root = S("root") if mult is None else S("root") / S("mult")
        want = Rat.app(atoms, "matrix_inverse_root", (S("L") / S("bc2"), root, S("eps")))
        n += 1
        case = dict(exponent_multiplier=mult, bias_correction=ubc, beta2=b2)
        _cmp(rep, rule, "", "", X.v, want, "stored inverse root", case, bad)
        _cmp(rep, rule, "", "", L.v, S("L"), "factor matrix (must not be modified by the refresh)", case, bad)
    _report(rep, rule, "inverse-root-refresh", fi.loc(), n, bad, "inv_factor <- matrix_inverse_root(A = factor / bias_correction2, root = root / exponent_multiplier, epsilon = epsilon)")


# ------------------------------------------------------------------------------------------------ SOAP
def soap_arithmetic(ctx, rep, rule: str) -> None:
    repo = ctx.repo
    ci = repo.cls(f"{PL_MOD}:EigenvalueCorrectedShampooPreconditionerList")
    up, pre = repo.meth(ci, "_update_eigenvalue_corrections"), repo.meth(ci, "precondition")
    n = 0
    bad: list = []

    def rot(sh, args, kw, recv=None):
        d = kw.get("dims")
        tag = "rotate_back" if (isinstance(d, tuple) and list(map(list, d)) == [[0], [1]]) else "rotate"
        return Cell(Rat.app(sh.atoms, tag, (sh.rat(kw["grad"]),)))

    for b2, basis in itertools.product([1.0, GEN], [True, False]):
        def decide(t, sh, basis=basis):
            if ".any()" in ast.unparse(t):
                return basis
            return None

        nm, cl = Obj("m"), Obj("cls")
        nm.fields["__name__"] = cl.fields["__name__"] = "n"
        atoms = Atoms()
        sh = Shadow(repo, atoms, opaque={"_precondition_grad": rot}, decide=decide)
        c, g = Cell(Rat.sym(atoms, "c")), Cell(Rat.sym(atoms, "g"))
        kf = Obj("kf", {"factor_matrices_eigenvectors": ListRep(Cell(Rat.sym(atoms, "Q"))), "corrected_eigenvalues": c})
        selfo = Obj("self", {"_beta2": _scalar(atoms, b2, "beta2"), "_masked_preconditioned_dims_selector_list": ListRep(Obj("sel")), "_masked_kronecker_factors_list": ListRep(kf), "__class__": cl, "_update_eigenvalue_corrections": nm})
        try:
            sh.run(up, {"masked_grad_list": ListRep(g)}, selfo)
        except Unsupported as u:
            raise NotShown(rule, f"interpretable:_update_eigenvalue_corrections", "", f"_update_eigenvalue_corrections cannot be compared with the documented recurrence: it uses a construct the term interpreter does not model ({u}) — the documented computation has no such step") from u
        S = lambda s: Rat.sym(atoms, s)  # noqa: E731
        r = Rat.app(atoms, "rotate", (S("g"),)) if basis else S("g")
        want = S("c") + r * r if b2 == 1.0 else S("beta2") * S("c") + (Rat.const(atoms, 1) - S("beta2")) * r * r
        case = dict(beta2=b2, basis_exists=basis)
        n += 1
        _cmp(rep, rule, "", "", c.v, want, "corrected eigenvalues", case, bad)
        _cmp(rep, rule, "", "", g.v, S("g"), "gradient (must not be modified)", case, bad)
        # precondition
        atoms2 = Atoms()
        sh2 = Shadow(repo, atoms2, opaque={"_precondition_grad": rot}, decide=decide)
        c2, g2 = Cell(Rat.sym(atoms2, "c")), Cell(Rat.sym(atoms2, "g"))
        kf2 = Obj("kf", {"factor_matrices_eigenvectors": ListRep(Cell(Rat.sym(atoms2, "Q"))), "corrected_eigenvalues": c2})
        self2 = Obj("self", {"_masked_preconditioned_dims_selector_list": ListRep(Obj("sel")), "_masked_kronecker_factors_list": ListRep(kf2), "_masked_root_list": ListRep(Rat.sym(atoms2, "root")), "_bias_correction2": Cell(Rat.sym(atoms2, "bc2")), "_epsilon": Rat.sym(atoms2, "eps"), "__class__": cl, "precondition": nm})
        try:
            out = sh2.run(pre, {"masked_grad_list": ListRep(g2)}, self2)
        except Unsupported as u:
            raise NotShown(rule, f"interpretable:EigenvalueCorrected precondition", "", f"EigenvalueCorrected precondition cannot be compared with the documented recurrence: it uses a construct the term interpreter does not model ({u}) — the documented computation has no such step") from u
        S2 = lambda s: Rat.sym(atoms2, s)  # noqa: E731
        denom = Rat.app(atoms2, "pow", (S2("c") / S2("bc2") + S2("eps"), 1 / S2("root")))
        inner = (Rat.app(atoms2, "rotate", (S2("g"),)) if basis else S2("g")) / denom
        want2 = Rat.app(atoms2, "rotate_back", (inner,)) if basis else inner
        got = None
        if isinstance(out, tuple) and len(out) == 1:
            got = sh2.rat(out[0])
        elif isinstance(out, list) and len(out) == 1:
            got = sh2.rat(out[0])
        elif isinstance(out, ListRep):
            got = sh2.rat(out.elem)
        _cmp(rep, rule, "", "", got, want2, "preconditioned gradient", case, bad)
        _cmp(rep, rule, "", "", c2.v, S2("c"), "corrected eigenvalues (precondition must not modify state)", case, bad)
        _cmp(rep, rule, "", "", g2.v, S2("g"), "input gradient (precondition must work on a copy)", case, bad)
    _report(rep, rule, "soap-recurrence", up.loc(), n, bad, "C <- C + rot(G)^2 (beta2 = 1) | beta2*C + (1-beta2)*rot(G)^2; direction = rot_back( rot(G) / (C / bias_correction2 + epsilon)^(1/root) ), rot = identity before a basis exists")


# ------------------------------------------------------------------------------------------------ QR / orthogonal iteration
def qr_iteration_arithmetic(ctx, rep, rule: str) -> None:
    """One representative orthogonal iteration: Q <- qr(A @ Q).Q; error = ||Q_prev - Q|| / ||Q_prev||; columns sorted by the
    Rayleigh quotients einsum('ij, ik, kj -> j', Q, A, Q); the loop runs while iteration < max_iterations and error > tolerance."""
    from ..guards import Interp

    repo = ctx.repo
    fi = repo.func("matrix_functions:_compute_orthogonal_iterations")
    atoms = Atoms()

    def qr(sh, args, kw):
        return Obj("qr", {"Q": Cell(Rat.app(sh.atoms, "qr.Q", (sh.rat(args[0]),)))})

    def einsum(sh, args, kw):
        spec = args[0] if isinstance(args[0], str) else "?"
        return Cell(Rat.app(sh.atoms, "einsum", tuple(sh.rat(a) for a in args[1:]), key=" ".join(spec.split())))

    def norm(sh, args, kw, recv=None):
        return Cell(Rat.app(sh.atoms, "norm", (sh.rat(recv),)))

    def argsort(sh, args, kw, recv=None):
        return Cell(Rat.app(sh.atoms, "argsort", (sh.rat(recv),)))

    def subscript(sh, base, sl, fr, fi_):
        parts = sl.elts if isinstance(sl, ast.Tuple) else [sl]
        if len(parts) == 2 and isinstance(parts[0], ast.Slice) and parts[0].lower is None and parts[0].upper is None:
            return Cell(Rat.app(sh.atoms, "columns", (base.v, sh.rat(sh.ev(parts[1], fr, fi_)))))
        raise Unsupported("tensor subscript")

    def decide(t, sh):
        if isinstance(t, ast.Call) and isinstance(t.func, ast.Attribute) and t.func.attr == "any":
            return True  # a non-zero estimate exists (the zero-estimate fallback is checked below)
        return None

    sh = Shadow(repo, atoms, opaque={"torch.linalg.qr": qr, "torch.einsum": einsum, "norm": norm, "argsort": argsort, "subscript": subscript}, decide=decide)
    sh.loop_once = True
    Acell, Q0 = Cell(Rat.sym(atoms, "A")), Cell(Rat.sym(atoms, "Q"))
    try:
        out = sh.run(fi, {"A": Acell, "eigenvectors_estimate": Q0, "max_iterations": Rat.sym(atoms, "max_iter"), "tolerance": Rat.sym(atoms, "tol")})
    except Unsupported as u:
        raise NotShown(rule, f"interpretable:_compute_orthogonal_iterations", "", f"_compute_orthogonal_iterations cannot be compared with the documented recurrence: it uses a construct the term interpreter does not model ({u}) — the documented computation has no such step") from u
    S = lambda n: Rat.sym(atoms, n)  # noqa: E731
    Qn = Rat.app(atoms, "qr.Q", (Rat.app(atoms, "matmul", (S("A"), S("Q"))),))
    ray = Rat.app(atoms, "einsum", (Qn, S("A"), Qn), key="ij, ik, kj -> j")
    want = Rat.app(atoms, "columns", (Qn, Rat.app(atoms, "argsort", (ray,))))
    bad = []
    _cmp(rep, rule, "", "", sh.rat(out) if isinstance(out, Cell) else None, want, "returned basis", {}, bad)
    # the error of the iteration: recover it from the frame is not possible; re-interpret the loop body for `error`
    wl = [n for n in A.walk_no_nested(fi.node) if isinstance(n, ast.While)]
    ok_loop = False
    if len(wl) == 1:
        errs = [n for n in wl[0].body if isinstance(n, ast.Assign) and isinstance(n.targets[0], ast.Name) and n.targets[0].id == "error"]
        if len(errs) == 1:
            atoms2 = Atoms()
            sh2 = Shadow(repo, atoms2, opaque={"norm": norm, "sub": lambda sh, args, kw, recv=None: Cell(sh.rat(recv) - sh.rat(args[0]))})
            fr = {"last_Q": Cell(Rat.sym(atoms2, "Qprev")), "Q": Cell(Rat.sym(atoms2, "Qnew"))}
            try:
                e = sh2.ev(errs[0].value, fr, fi)
                want_e = Rat.app(atoms2, "norm", (Rat.sym(atoms2, "Qprev") - Rat.sym(atoms2, "Qnew"),)) / Rat.app(atoms2, "norm", (Rat.sym(atoms2, "Qprev"),))
                _cmp(rep, rule, "", "", sh2.rat(e), want_e, "relative change used by the stopping rule", {}, bad)
            except Unsupported as u:
                raise NotShown(rule, f"interpretable:error expression", "", f"error expression cannot be compared with the documented recurrence: it uses a construct the term interpreter does not model ({u}) — the documented computation has no such step") from u
        # loop condition
        cond_bad = []
        for it_, mx, er, tol in itertools.product([0, 1, 2], [1, 2], [0.0, 0.5, 1.0], [0.5]):
            got = bool(Interp({"iteration": it_, "max_iterations": mx, "error": er, "tolerance": tol}).ev(wl[0].test))
            if got != (it_ < mx and er > tol):
                cond_bad.append((it_, mx, er, tol))
        ok_loop = not cond_bad
    rep.ob(rule, "qr-loop-condition", ok_loop, fi.loc(wl[0]) if wl else fi.loc(), "the orthogonal iteration continues while iteration < max_iterations and error > tolerance")
    _report(rep, rule, "qr-iteration-recurrence", fi.loc(), 1, bad, "Q <- qr(A @ Q).Q; error = ||Q_prev - Q|| / ||Q_prev|| (relative change); result = Q[:, argsort(einsum('ij, ik, kj -> j', Q, A, Q))]")
    # zero-estimate fallback
    first = next((n for n in fi.node.body if isinstance(n, ast.If)), None)
    ok = False
    if first is not None and " ".join(ast.unparse(first.test).split()) == "not eigenvectors_estimate.any()":
        call, k = A.returned_component(first.body)
        dec = repo.func("matrix_functions:matrix_eigenvalue_decomposition")
        ok = call is not None and k == 1 and A.callee_name(repo, fi.module, call) == "matrix_functions.matrix_eigenvalue_decomposition" and ast.unparse(A.arg_of(call, dec, "A") or ast.Constant(value=None)) == "A"
    rep.ob(rule, "qr-zero-estimate-falls-back-to-eigh", ok, fi.loc(first) if first is not None else fi.loc(), "a zero estimate falls back to the eigendecomposition's eigenvectors")


# ------------------------------------------------------------------------------------------------ coupled inverse Newton
def newton_arithmetic(ctx, rep, rule: str) -> None:
    """Initialisation and one iteration of the coupled inverse Newton method, as in the routine's own documentation:
    alpha = -1/p; z = (p+1)/(2 |A + eps I|_F); X0 = z^(1/p) I; M0 = z (A + eps I); M' = (1-alpha) I + alpha M; X <- X M'; M <- M'^p M;
    error = dist(M, I).  Matrix products are uninterpreted (non-commutative) functions."""
    repo = ctx.repo
    fi = repo.func("matrix_functions:_matrix_inverse_root_newton")
    atoms = Atoms()
    app = lambda name: (lambda sh, args, kw: Cell(Rat.app(sh.atoms, name, tuple(sh.rat(a) for a in args if not isinstance(a, str)))))  # noqa: E731

    def dist(sh, args, kw):
        return Cell(Rat.app(sh.atoms, "dist", (sh.rat(args[0]), sh.rat(args[1]))))

    def decide(t, sh):
        txt = " ".join(ast.unparse(t).split())
        if txt in ("error <= tolerance",):
            return True
        return None

    sh = Shadow(repo, atoms, opaque={"torch.eye": lambda sh, a, k: Cell(sh.sym("I")), "torch.linalg.norm": app("fro_norm"), "torch.dist": dist, "torch.linalg.matrix_power": app("matrix_power")}, decide=decide)
    sh.loop_once = True
    try:
        out = sh.run(fi, {"A": Cell(Rat.sym(atoms, "A")), "root": Rat.sym(atoms, "p"), "epsilon": Rat.sym(atoms, "eps"), "max_iterations": Rat.sym(atoms, "max_iter"), "tolerance": Rat.sym(atoms, "tol")})
    except Unsupported as u:
        raise NotShown(rule, f"interpretable:_matrix_inverse_root_newton", "", f"_matrix_inverse_root_newton cannot be compared with the documented recurrence: it uses a construct the term interpreter does not model ({u}) — the documented computation has no such step") from u
    S = lambda n: Rat.sym(atoms, n)  # noqa: E731
    one = Rat.const(atoms, 1)
    Ar = S("A") + S("eps") * S("I")
    z = (S("p") + 1) / (2 * Rat.app(atoms, "fro_norm", (Ar,)))
    alpha = -one / S("p")
    X0 = (z ** (-alpha)) * S("I")
    M0 = z * Ar
    Mp = alpha * M0 + (one - alpha) * S("I")
    X1 = Rat.app(atoms, "matmul", (X0, Mp))
    M1 = Rat.app(atoms, "matmul", (Rat.app(atoms, "matrix_power", (Mp, S("p"))), M0))
    err = Rat.app(atoms, "dist", (M1, S("I")))
    bad: list = []
    ok_shape = isinstance(out, tuple) and len(out) == 5
    if ok_shape:
        _cmp(rep, rule, "", "", sh.rat(out[0]), X1, "X after one iteration", {}, bad)
        _cmp(rep, rule, "", "", sh.rat(out[1]), M1, "M after one iteration", {}, bad)
        _cmp(rep, rule, "", "", sh.rat(out[4]), err, "reported error", {}, bad)
    else:
        bad.append(({}, "return value", str(out)[:80], "(X, M, flag, iteration, error)"))
    _report(rep, rule, "coupled-newton-recurrence", fi.loc(), 1, bad, "alpha = -1/p; z = (p+1)/(2|A+eps I|_F); X0 = z^(1/p) I; M0 = z (A+eps I); M' = (1-alpha) I + alpha M; X <- X M'; M <- M'^p M; error = dist(M, I)")
    # loop condition
    from ..guards import Interp

    wl = [n for n in A.walk_no_nested(fi.node) if isinstance(n, ast.While)]
    ok = False
    if len(wl) == 1:
        ok = all(bool(Interp({"error": e, "tolerance": 0.5, "iteration": i, "max_iterations": m}).ev(wl[0].test)) == (e > 0.5 and i < m) for e in (0.1, 0.5, 0.9) for i in (0, 1, 2) for m in (1, 2))
    rep.ob(rule, "coupled-newton-loop-condition", ok, fi.loc(wl[0]) if wl else fi.loc(), "iterate while error > tolerance and iteration < max_iterations")


# ------------------------------------------------------------------------------------------------ eigen / diagonal / scalar inverse roots
def eigen_root_arithmetic(ctx, rep, rule: str) -> None:
    """X = Q diag((lambda - min(lambda_min [- eps], 0) [+ eps])^(-1/root)) Q^T on both enhance_stability branches; the diagonal and
    1-element fast paths compute (a + eps)^(-1/root) element-wise."""
    repo = ctx.repo
    fi = repo.func("matrix_functions:_matrix_inverse_root_eigen")
    bad: list = []
    n = 0
    for enh in (False, True):
        atoms = Atoms()
        seen = {}

        def eig(sh, args, kw, seen=seen):
            seen["decomposed"] = sh.rat(args[0])
            return (Cell(sh.sym("L")), Cell(sh.sym("Q")))

        un = lambda name: (lambda sh, args, kw, recv=None: Cell(Rat.app(sh.atoms, name, tuple(sh.rat(a) for a in ([recv] if recv is not None else []) + list(args) if not isinstance(a, str)))))  # noqa: E731

        def decide(t, sh):
            if " ".join(ast.unparse(t).split()) == "root <= 0":
                return False
            return None

        sh = Shadow(repo, atoms, opaque={"matrix_functions.matrix_eigenvalue_decomposition": eig, "torch.eye": lambda sh, a, k: Cell(sh.sym("I")), "torch.min": un("min"), "torch.minimum": un("minimum"), "unsqueeze": lambda sh, a, k, recv=None: recv}, decide=decide)
        try:
            out = sh.run(fi, {"A": Cell(Rat.sym(atoms, "A")), "root": Rat.sym(atoms, "root"), "epsilon": Rat.sym(atoms, "eps"), "retry_double_precision": True, "eigen_decomp_offload_device": "", "enhance_stability": enh})
        except Unsupported as u:
            raise NotShown(rule, f"interpretable:_matrix_inverse_root_eigen", "", f"_matrix_inverse_root_eigen cannot be compared with the documented recurrence: it uses a construct the term interpreter does not model ({u}) — the documented computation has no such step") from u
        S = lambda x: Rat.sym(atoms, x)  # noqa: E731
        mn = Rat.app(atoms, "min", (S("L"),))
        zero = Rat.const(atoms, 0)
        if enh:
            want_dec = S("A") + S("eps") * S("I")
            Ls = S("L") - Rat.app(atoms, "minimum", (mn - S("eps"), zero))
        else:
            want_dec = S("A")
            Ls = S("L") - Rat.app(atoms, "minimum", (mn, zero)) + S("eps")
        X = Rat.app(atoms, "matmul", (S("Q") * Rat.app(atoms, "pow", (Ls, Rat.const(atoms, -1) / S("root"))), Rat.app(atoms, "transpose", (S("Q"),))))
        case = dict(enhance_stability=enh)
        n += 1
        _cmp(rep, rule, "", "", seen.get("decomposed"), want_dec, "decomposed matrix", case, bad)
        _cmp(rep, rule, "", "", sh.rat(out[0]) if isinstance(out, tuple) else None, X, "inverse root", case, bad)
    _report(rep, rule, "eigen-inverse-root-formula", fi.loc(), n, bad, "decompose A (or A + eps I with enhance_stability); lambda <- lambda - min(lambda_min [- eps], 0) [+ eps]; X = (Q * lambda^(-1/root)) @ Q^T")
    # fast paths
    for name, build in (("_matrix_inverse_root_diagonal", None),):
        fd = repo.func(f"matrix_functions:{name}")
        atoms = Atoms()
        un = lambda nm: (lambda sh, args, kw, recv=None: Cell(Rat.app(sh.atoms, nm, tuple(sh.rat(a) for a in ([recv] if recv is not None else []) + list(args) if not isinstance(a, str)))))  # noqa: E731
        sh = Shadow(repo, atoms, opaque={"torch.diag": un("diag"), "torch.diagonal": un("diagonal")}, decide=lambda t, sh: False if " ".join(ast.unparse(t).split()) == "root <= 0" else None)
        try:
            out = sh.run(fd, {"A": Cell(Rat.sym(atoms, "A")), "root": Rat.sym(atoms, "root"), "epsilon": Rat.sym(atoms, "eps")})
        except Unsupported as u:
            raise NotShown(rule, f"interpretable:{name}", "", f"{name} cannot be compared with the documented recurrence: it uses a construct the term interpreter does not model ({u}) — the documented computation has no such step") from u
        S = lambda x: Rat.sym(atoms, x)  # noqa: E731
        want = Rat.app(atoms, "diag", (Rat.app(atoms, "pow", (Rat.app(atoms, "diagonal", (S("A"),)) + S("eps"), Rat.const(atoms, -1) / S("root"))),))
        ok = isinstance(out, Cell) and out.v == want
        rep.ob(rule, "diagonal-fast-path-formula", ok, fd.loc(), f"diag((diagonal(A) + eps)^(-1/root)); got `{out.v if isinstance(out, Cell) else out}`", sample=True)
    mi = repo.func("matrix_functions:matrix_inverse_root")
    first = next((x for x in mi.node.body if isinstance(x, ast.If)), None)
    ok = False
    if first is not None and first.body and isinstance(first.body[0], ast.Return):
        atoms = Atoms()
        sh = Shadow(repo, atoms)
        try:
            v = sh.ev(first.body[0].value, {"A": Cell(Rat.sym(atoms, "A")), "epsilon": Rat.sym(atoms, "eps"), "root": Rat.sym(atoms, "root")}, mi)
            want = Rat.app(atoms, "pow", (Rat.sym(atoms, "A") + Rat.sym(atoms, "eps"), Rat.const(atoms, -1) / Rat.sym(atoms, "root")))
            ok = sh.rat(v) == want
        except Unsupported as u:
            raise NotShown(rule, f"interpretable:scalar fast path", "", f"scalar fast path cannot be compared with the documented recurrence: it uses a construct the term interpreter does not model ({u}) — the documented computation has no such step") from u
    rep.ob(rule, "scalar-fast-path-formula", ok, mi.loc(first) if first is not None else mi.loc(), "1-element input: (A + eps)^(-1/root)", sample=True)
