"""C15 — shard-to-tensor-block recovery yields views (view, guard and sibling part).

C15.1 views only: every returned block aliases the given shard through view operations only (points-to, strict polarity);
      pieces are concatenated left + center + right;
C15.2 guards: non-flat shard => ValueError before any tensor op; empty range => [] ; last dimension => the block itself;
      the outer function returns only what the recursive helper returns;
C15.3 the FSDP and HSDP copies agree;
C15.4 recursion is well-founded and three-way: every recursive call increases `dimension`; the whole-block descent happens
      only when center_start > center_end strictly (equality means the range straddles one boundary and must be split there).
"""

from __future__ import annotations

import ast

from .. import astutil as A
from ..cfg import CFG
from ..loader import AnalysisError
from ..pointsto import GRAD, PARAM
from .common import short
from .sib import FSDP, HSDP, sibling_pairs


def _root_name(e: ast.AST) -> str | None:
    while isinstance(e, (ast.Attribute, ast.Subscript, ast.Call)):
        e = e.func if isinstance(e, ast.Call) else e.value
    return e.id if isinstance(e, ast.Name) else None


def recovery_rules(ctx, rep, prefix: str, classes: list[str]) -> None:
    repo = ctx.repo
    pts = ctx.engine("pts")
    for cq in classes:
        ci = repo.cls(cq)
        outer = ci.methods.get("_split_tensor_block_recovery")
        if outer is None:
            raise AnalysisError(f"{ci.name}._split_tensor_block_recovery not found")
        inner = A.worker(repo, outer)
        # offsets inside the helper are relative to the helper's current block: every narrow / view is applied to that block,
        # and the enclosing routine's whole shard is not touched from inside the helper (another coordinate space)
        blk = inner.params[0]
        outer_shard = outer.params[0]
        cuts = [c for c in A.calls(inner.node, nested=True) if isinstance(c.func, ast.Attribute) and c.func.attr in ("narrow", "view", "__getitem__", "select", "split")]
        wrong = [c for c in cuts if c.func.attr == "narrow" and _root_name(c.func.value) != blk]
        leaks = [n for n in ast.walk(inner.node) if isinstance(n, ast.Name) and n.id == outer_shard and outer_shard != blk]
        # every recursion level collects its own pieces: the helper never appends to / extends a list of the enclosing call
        own = set(inner.params) | {n.id for n in A.walk_no_nested(inner.node) if isinstance(n, ast.Name) and isinstance(n.ctx, ast.Store)}
        shared = [c for c in A.calls(inner.node) if isinstance(c.func, ast.Attribute) and c.func.attr in ("append", "extend", "insert", "__iadd__") and isinstance(c.func.value, ast.Name) and c.func.value.id not in own]
        shared += [n for n in A.walk_no_nested(inner.node) if isinstance(n, ast.AugAssign) and isinstance(n.target, ast.Name) and n.target.id not in own]
        rep.ob(f"{prefix}.1", f"accumulators-are-per-level:{ci.name}", not shared, inner.loc(shared[0] if shared else None), "the recursive helper accumulates into lists it creates itself" + (f"; `{ast.unparse(shared[0])[:70]}` mutates a list of the enclosing scope, shared by all recursion levels: pieces of a nested level are emitted again by its ancestors" if shared else ""), sample=True)
        rep.ob(f"{prefix}.1", f"coordinates:{ci.name}:narrow-on-the-current-block", bool(cuts) and not wrong and not leaks, inner.loc(wrong[0] if wrong else (leaks[0] if leaks else None)), f"{len(cuts)} narrow/view call(s) in the recursive helper: each narrows `{blk}` (offsets are block-relative)" + (f"; `{ast.unparse(wrong[0])[:80]}` narrows something else" if wrong else "") + (f"; the helper refers to the enclosing routine's `{outer_shard}`" if leaks else ""), sample=True)
        # ---- .1 views only
        ret = set()
        for fr in pts.frames_of(outer.qual):
            ret |= pts.tensors(fr.ret)
        fresh = sorted(str(t[1][0]) for t in ret if t not in (PARAM, GRAD) and isinstance(t[1], tuple))
        rep.ob(f"{prefix}.1", f"views:{ci.name}._split_tensor_block_recovery", bool(ret) and not fresh, outer.loc(), "every returned block must share storage with the given shard (only narrow/view on the path)" + (f"; some blocks may be separate allocations created at {fresh}" if fresh else f"; returned storages: {sorted(t[1] for t in ret)}"), sample=True)
        blocked = pts.tensors(pts.attr(cq, "_global_blocked_params"))
        rep.ob(f"{prefix}.1", f"views:{ci.name}._global_blocked_params", blocked == {PARAM}, ci.module.relpath, f"parameter blocks built from recovered sub-tensors must alias the parameter storage only; points-to set: {sorted(str(t[1]) for t in blocked)}")
        # concatenation order
        rets = [n for n in A.walk_no_nested(inner.node) if isinstance(n, ast.Return) and isinstance(n.value, ast.BinOp)]
        order_ok = False
        if rets:
            txt = " ".join(ast.unparse(rets[-1].value).split())
            parts = [p.strip() for p in txt.split("+")]
            order_ok = len(parts) == 3 and "left" in parts[0] and "center" in parts[1] and "right" in parts[2]
        rep.ob(f"{prefix}.1", f"order:{ci.name}:left+center+right", order_ok, inner.loc(rets[-1]) if rets else inner.loc(), "pieces are returned in range order: left + center + right")
        # ---- .2 guards
        body = [s for s in outer.node.body if not (isinstance(s, ast.Expr) and isinstance(s.value, ast.Constant))]
        first = body[0] if body else None
        shard = outer.params[0]
        flat_tests = {f"len({shard}.size()) != 1", f"{shard}.dim() != 1", f"{shard}.ndim != 1", f"len({shard}.shape) != 1", f"not {shard}.dim() == 1", f"not len({shard}.size()) == 1"}
        g_ok = isinstance(first, ast.If) and " ".join(ast.unparse(first.test).split()) in flat_tests and any(isinstance(s, ast.Raise) and "ValueError" in ast.unparse(s) for s in first.body)
        rep.ob(f"{prefix}.2", f"guard:{ci.name}:non-flat-shard-raises-first", g_ok, outer.loc(first) if first is not None else outer.loc(), "a shard that is not 1-D is rejected with ValueError before anything else", sample=True)
        outer_rets = [n for n in A.walk_no_nested(outer.node) if isinstance(n, ast.Return)]
        only_helper = all(isinstance(r.value, ast.Call) and isinstance(r.value.func, ast.Name) and r.value.func.id == inner.name for r in outer_rets) and len(outer_rets) == 1
        rep.ob(f"{prefix}.2", f"guard:{ci.name}:outer-returns-helper-result-only", only_helper, outer.loc(), f"the routine must return exactly the recursive helper's result ({len(outer_rets)} return statement(s)); a shortcut bypasses the empty-range and shape handling", sample=True)
        icfg = CFG(inner.node)
        ibody = [s for s in inner.node.body if not isinstance(s, ast.Assert) and not (isinstance(s, ast.Expr) and isinstance(s.value, (ast.Constant, ast.JoinedStr)))]
        e_ok = len(ibody) >= 2 and isinstance(ibody[0], ast.If) and isinstance(ibody[0].test, ast.Compare) and isinstance(ibody[0].test.ops[0], ast.Eq) and {ast.unparse(ibody[0].test.left), ast.unparse(ibody[0].test.comparators[0])} == {"block_end_idx", "block_start_idx"} and len(ibody[0].body) == 1 and isinstance(ibody[0].body[0], ast.Return) and isinstance(ibody[0].body[0].value, ast.List) and not ibody[0].body[0].value.elts
        rep.ob(f"{prefix}.2", f"guard:{ci.name}:empty-range-yields-no-blocks", e_ok, inner.loc(ibody[0]) if ibody else inner.loc(), "`if block_end_idx == block_start_idx: return []` is the first action of the helper")
        b_ok = len(ibody) >= 2 and isinstance(ibody[1], ast.If) and "dimension" in ast.unparse(ibody[1].test) and "len(original_shape) - 1" in ast.unparse(ibody[1].test) and isinstance(ibody[1].test.ops[0], ast.Eq) and len(ibody[1].body) == 1 and isinstance(ibody[1].body[0], ast.Return) and isinstance(ibody[1].body[0].value, ast.List) and len(ibody[1].body[0].value.elts) == 1 and isinstance(ibody[1].body[0].value.elts[0], ast.Name) and ibody[1].body[0].value.elts[0].id == inner.params[0]
        rep.ob(f"{prefix}.2", f"guard:{ci.name}:last-dimension-returns-block", b_ok, inner.loc(ibody[1]) if len(ibody) > 1 else inner.loc(), "at the last dimension the block is returned unchanged; this base case precedes every recursive call")
        # ---- .4 recursion
        rec = [c for c in A.calls(inner.node) if isinstance(c.func, ast.Name) and c.func.id == inner.name]
        rep.floor(f"{prefix}.4", f"{ci.name} recursive calls", len(rec), 3)
        for i, c in enumerate(rec):
            d = A.keyword(c, "dimension") or (c.args[1] if len(c.args) > 1 else None)
            ok = d is not None and " ".join(ast.unparse(d).split()) == "dimension + 1"
            rep.ob(f"{prefix}.4", f"recursion:{ci.name}:call{i}:dimension+1", ok, inner.loc(c), f"recursive call passes dimension=`{ast.unparse(d) if d is not None else None}`; it must be `dimension + 1` (bounded by the last-dimension base case)")
        # (the three-way case analysis `start < end` / `start > end` / equal is decided by interpretation: C15.6 recovery-semantics;
        # the earlier shape-of-code rule false-alarmed on a reordering of the two mutually exclusive arms)


def slab_arithmetic(ctx, rep, rule: str, classes: list[str]) -> None:
    """Integer expressions of the split, interpreted on complete small boxes: the center slab starts at the smallest
    multiple of the slab size >= block start and ends at the largest multiple <= block end; narrow() offsets / lengths are
    relative to the block start and tile [start, end) as left | center | right."""
    import itertools

    from ..guards import Interp, Unsupported, repo_pure_calls

    repo = ctx.repo
    for cq in classes:
        ci = repo.cls(cq)
        inner = A.worker(repo, repo.meth(ci, "_split_tensor_block_recovery"))
        defs = {n.targets[0].id: n.value for n in A.walk_no_nested(inner.node) if isinstance(n, ast.Assign) and isinstance(n.targets[0], ast.Name)}
        need = ["center_split_start_idx", "center_split_end_idx", "center_split_start_idx_in_block", "length_of_center_split", "left_split_tensor_size", "center_split_end_idx_in_block", "right_split_tensor_size"]
        missing = [n for n in need if n not in defs]
        if missing:
            raise AnalysisError(f"{rule}: expected locals {missing} not found in {ci.name}'s recovery helper")
        bad = []
        n = 0
        try:
            for rs, s, ln in itertools.product(range(1, 7), range(0, 14), range(0, 20)):
                e = s + ln
                env = {"remaining_size": rs, "block_start_idx": s, "block_end_idx": e}
                it = Interp(env, call_hook=repo_pure_calls(repo, inner.module))  # a shared helper (`align_up(x, n)`) is followed into
                for nm in need:
                    it.env[nm] = it.ev(defs[nm])
                v = it.env
                cs, ce = -(-s // rs) * rs, (e // rs) * rs
                n += 1
                want = {"center_split_start_idx": cs, "center_split_end_idx": ce, "center_split_start_idx_in_block": cs - s, "length_of_center_split": ce - cs, "left_split_tensor_size": cs - s, "center_split_end_idx_in_block": ce - s, "right_split_tensor_size": e - ce}
                for k, w in want.items():
                    if v[k] != w:
                        bad.append((rs, s, e, k, v[k], w))
        except Unsupported as u:
            raise AnalysisError(f"{rule}: split index expressions outside the integer sub-language: {u}") from u
        rep.ob(rule, f"slab-indices:{ci.name}", not bad, inner.loc(), f"{n} (slab size, start, end) points: center = [ceil(start/size)*size, floor(end/size)*size), offsets relative to the block start, left/right sizes complement it" + (f"; at size={bad[0][0]}, start={bad[0][1]}, end={bad[0][2]}: {bad[0][3]} = {bad[0][4]}, expected {bad[0][5]}" if bad else ""), sample=True)
        # remaining_size is the product of the trailing dims; the center view is [-1] + trailing dims
        rs_def = defs.get("remaining_size")
        ok = rs_def is not None and " ".join(ast.unparse(rs_def).split()) == "prod(original_shape[dimension + 1:])"
        ns = defs.get("new_shape")
        ok2 = ns is not None and " ".join(ast.unparse(ns).split()) == "[-1] + list(original_shape[dimension + 1:])"
        rep.ob(rule, f"slab-shape:{ci.name}", ok and ok2, inner.loc(), "slab size = prod(shape[d+1:]) and the center piece is viewed as [-1, *shape[d+1:]]")
        # narrow() calls use those offsets / lengths
        nar = [c for c in A.calls(inner.node, nested=True) if isinstance(c.func, ast.Attribute) and c.func.attr == "narrow"]
        sigs = sorted((" ".join(ast.unparse(c.args[1] if len(c.args) > 1 else A.keyword(c, "start")).split()), " ".join(ast.unparse(c.args[2] if len(c.args) > 2 else A.keyword(c, "length")).split())) for c in nar)
        want_sigs = sorted([("center_split_start_idx_in_block", "length_of_center_split"), ("left_split_start_idx_in_block", "left_split_tensor_size"), ("center_split_end_idx_in_block", "right_split_tensor_size")])
        left0 = defs.get("left_split_start_idx_in_block")
        rep.ob(rule, f"slab-narrow:{ci.name}", sigs == want_sigs and isinstance(left0, ast.Constant) and left0.value == 0, inner.loc(), f"narrow(0, offset, length) pairs {sigs}: center, left (from 0) and right pieces use their own offset and length")
        # recursive calls get the matching flat index ranges
        rec = [c for c in A.calls(inner.node) if isinstance(c.func, ast.Name) and c.func.id == inner.name and "narrow" in ast.unparse(c)]
        ranges = sorted((" ".join(ast.unparse(A.keyword(c, "block_start_idx")).split()), " ".join(ast.unparse(A.keyword(c, "block_end_idx")).split())) for c in rec)
        rep.ob(rule, f"slab-recursion-ranges:{ci.name}", ranges == sorted([("block_start_idx", "center_split_start_idx"), ("center_split_end_idx", "block_end_idx")]), inner.loc(), f"left recursion covers [start, center_start), right recursion covers [center_end, end): {ranges}")


def recovery_semantics(ctx, rep, rule: str, classes: list[str]) -> None:
    """_split_tensor_block_recovery of every copy interpreted in the byte-layout tensor model on small shapes, exhaustively over
    (start, end), plus ranges beyond offset 256: the result is, in order, exactly the maximal slabs of the original tensor that
    tile [start, end) — each a view of the shard at (flat offset - start) with the slab's shape; a shard that is not 1-D
    (0-dim included) raises ValueError; an empty range gives no blocks."""
    import itertools
    import math

    from .. import simtensor as ST
    from ..guards import Unsupported

    repo = ctx.repo

    def oracle(S, s, e):
        def rec(s, e, d):
            if s == e:
                return []
            if d == len(S) - 1:
                return [(s, (e - s,))]
            r = math.prod(S[d + 1:])
            cs, ce = -(-s // r) * r, e // r * r
            if cs < ce:
                return rec(s, cs, d + 1) + [(cs, ((ce - cs) // r,) + tuple(S[d + 1:]))] + rec(ce, e, d + 1)
            if cs > ce:
                return rec(s, e, d + 1)
            return rec(s, cs, d + 1) + rec(ce, e, d + 1)

        return rec(s, e, 0)

    cases = []
    for S in [(5,), (3, 4), (4, 6), (1, 7), (6, 1), (2, 3, 5), (3, 3, 3), (2, 2, 2, 3)]:
        n = math.prod(S)
        for s, e in itertools.combinations_with_replacement(range(n + 1), 2):
            cases.append((S, s, e))
    cases += [((40, 16), 320, 333), ((40, 16), 300, 640), ((6, 10, 10), 250, 420), ((6, 10, 10), 300, 300), ((3, 200), 257, 600), ((2, 3, 100), 0, 600), ((2, 3, 100), 299, 301)]
    for cq in classes:
        ci = repo.cls(cq)
        fi = repo.lookup_method(ci, "_split_tensor_block_recovery")
        if fi is None:
            raise AnalysisError(f"{rule}: {ci.name}._split_tensor_block_recovery not found")
        bad = []
        try:
            for S, s, e in cases:
                def mk(sim, S=S, s=s, e=e):
                    w = sim.world
                    shard = ST.SymT(w, w.new_storage((e - s) * 4, "shard"), 0, (e - s,), ST.DTYPES["float32"])
                    return None, [shard, tuple(S), s, e], {}

                got = ST.outcome(repo, fi, ci, mk)
                want = tuple(("T", 0, (off - s) * 4, math.prod(sh) * 4, "float32", tuple(sh)) for off, sh in oracle(S, s, e))
                if not (got[0] == "ok" and got[1] == want) and len(bad) < 2:
                    bad.append((S, s, e, got[1] if got[0] == "ok" else got, want))
            # shards that are not flat
            for shape in ((), (2, 3), (1, 1)):
                def mk2(sim, shape=shape):
                    w = sim.world
                    n_ = math.prod(shape)
                    shard = ST.SymT(w, w.new_storage(n_ * 4, "shard"), 0, shape, ST.DTYPES["float32"])
                    return None, [shard, (4, 6), 0, n_], {}

                got = ST.outcome(repo, fi, ci, mk2)
                if got != ("raise", "ValueError") and len(bad) < 3:
                    bad.append(((4, 6), f"shard of shape {shape}", "", got, "raise ValueError"))
        except Unsupported as u:
            raise AnalysisError(f"{rule}: {fi.qual} outside the interpreted sub-language: {u}") from u
        rep.ob(rule, f"recovery-semantics:{ci.name}", not bad, fi.loc(), f"{len(cases)} (shape, start, end) cases (8 small shapes exhaustively, 7 ranges beyond offset 256) and 3 non-flat shards: the blocks are the maximal slabs tiling [start, end), views of the shard in range order; non-flat shards raise ValueError" + (f"; for shape {bad[0][0]}, range [{bad[0][1]}, {bad[0][2]}): code gives {bad[0][3]}, documented {bad[0][4]}" if bad else ""), sample=True)


def run(ctx, rep) -> None:
    rep.rule("C15.5", "integer arithmetic of one split: center = [ceil(start/size)*size, floor(end/size)*size), offsets/lengths of the three pieces tile the block (complete small boxes)")
    rep.attempt("slab_arithmetic", slab_arithmetic, ctx, rep, "C15.5", [FSDP, HSDP])
    rep.rule("C15.1", "every recovered block is a view of the given shard (view-only derivation); pieces concatenated in range order")
    rep.rule("C15.2", "guards: non-flat shard raises first; empty range yields []; last dimension returns the block; outer returns only the helper's result")
    rep.rule("C15.4", "recursion increases `dimension` at every call; whole-block descent only under strict center_start > center_end")
    rep.attempt("recovery_rules", recovery_rules, ctx, rep, "C15", [FSDP, HSDP])
    rep.rule("C15.6", "the recovery of every copy, interpreted on small shapes exhaustively, returns exactly the maximal slabs tiling the range as views of the shard")
    rep.attempt("recovery_semantics", recovery_semantics, ctx, rep, "C15.6", [FSDP, HSDP])
    rep.assume("that the pieces partition [start,end), are slabs of the stated form and are minimal in number is integer arithmetic over all shapes and ranges: NOT decided")
