"""C06 — DDP Shampoo equals serial Shampoo and keeps replicas identical (collective-uniformity and buffer-protocol part).

C06.1 collective uniformity: every collective / process-group-creating call is reached in a rank-invariant control
      context with rank-invariant group-defining arguments (E5), along every call-graph path from __init__/step;
C06.2 buffer protocol of update_params: fill local send buffers -> all-gather -> apply ALL gathered (masked) blocks to
      the global masked parameter list; after the gather parameters are written only from the gathered buffers;
C06.3 index spaces of the distributor's own lists and their re-masking (E4), for this distributor's module;
C06.4 the three copies of the distribution code agree (E8) and the block-to-rank assignment is deterministic (see C14.1).
"""

from __future__ import annotations

import ast

from .. import astutil as A
from .. import tables as T
from ..cfg import CFG
from ..loader import AnalysisError
from ..pointsto import PARAM
from ..rank import RankTaint
from ..spaces import space_of
from .c04 import _scope, mask_completeness, spaces_engine, typing_sites
from .common import DS, short
from .sib import DDP, HSDP, HYB, dist_pairs, sibling_pairs


def rank_engine(ctx) -> RankTaint:
    if "rank" not in ctx._cache:
        ctx._cache["rank"] = RankTaint(ctx.repo, ctx.engine("pts"), spaces_engine(ctx))
    return ctx._cache["rank"]


def _norm(e: ast.AST | None) -> str:
    return " ".join(ast.unparse(e).split()) if e is not None else "<none>"


def collective_uniformity(ctx, rep, rule: str, only_classes: set[str] | None = None) -> None:
    """only_classes: restrict to sinks whose call chains pass through methods of these class names (None = all)."""
    repo = ctx.repo
    pts = ctx.engine("pts")
    rt = rank_engine(ctx)
    sinks = []
    for (caller, nid), callees in pts.calls.items():
        for c in callees:
            if c in T.COLLECTIVE_SINKS:
                node = pts.call_nodes.get(nid)
                if node is not None and getattr(node, "lineno", 0) > 0:
                    sinks.append((caller, node, c))
    seen_sites = set()
    n_sites = 0
    for caller, node, sink in sorted(sinks, key=lambda s: (s[0], s[1].lineno)):
        if (caller, id(node)) in seen_sites:
            continue
        seen_sites.add((caller, id(node)))
        fi = repo.funcs[caller]
        nchains, bad = rt.context_offences(caller, node)
        cached = any(d.endswith("functools.cache") or d.endswith("functools.lru_cache") for d in fi.decorators)
        # restrict to chains through the classes of interest
        def chain_classes(ch):
            return {q.split(":")[1].split(".")[0] for q in ch}
        relevant_chains = nchains
        if only_classes is not None:
            all_chains = rt.chains(caller)
            relevant_chains = sum(1 for ch in all_chains if chain_classes([c for c, _ in ch] + [caller]) & only_classes)
            bad = [(ch, offs) for ch, offs in bad if chain_classes(ch) & only_classes]
            if relevant_chains == 0 and not (chain_classes([caller]) & only_classes):
                continue
        n_sites += 1
        arg_offs = rt.arg_offences(fi, node) if not cached else []
        reported = set()
        for ch, offs in bad:
            # the function that enters the (possibly cached) sink
            entry_fn = ch[-2] if (cached and len(ch) >= 2) else ch[-1]
            if cached and _cache_exempt(ctx, rt, ch, fi):
                continue
            for o in offs:
                if o.what == "loop" and "rank-local index space" in o.text:
                    # one defect, many allocation sites: state is allocated while iterating the rank's own blocks
                    key = f"sink:{sink}@{short(entry_fn)}<-loop-over-rank-local-lists"
                else:
                    subj = A.emptiness_normal(o.node.test) if hasattr(o.node, "test") else getattr(o.node, "iter", o.node)
                    if o.what == "branch" and o.required is not None and hasattr(o.node, "test"):
                        # polarity-independent: the key names the condition under which the collective is SKIPPED
                        # (`if not xs: continue` and `if xs: <rest of the loop body>` are one finding)
                        from ..canon import simplify_test

                        subj = simplify_test(ast.UnaryOp(op=ast.Not(), operand=subj)) if o.required else simplify_test(subj)
                    key = f"sink:{sink}@{short(entry_fn)}<-{o.what}:{short(o.func)}:{_norm(subj)[:90]}"
                if key in reported:
                    continue
                reported.add(key)
                rep.ob(
                    rule,
                    key,
                    False,
                    fi.loc(node),
                    f"{T.COLLECTIVE_SINKS[sink]}; call chain {' -> '.join(short(q) for q in ch)}; in {short(o.func)} it is {o.text} — ranks for which the condition differs do not take part, the others block",
                )
        for o in arg_offs:
            rep.ob(rule, f"sink:{sink}@{short(caller)}<-arg:{_norm(o.node)[:60]}", False, fi.loc(node), f"{T.COLLECTIVE_SINKS[sink]}; {o.text}")
        if not reported and not arg_offs:
            rep.ob(rule, f"sink:{sink}@{short(caller)}:uniform", True, fi.loc(node), f"{T.COLLECTIVE_SINKS[sink]}; reached through {relevant_chains} call chain(s) from __init__/step, all in rank-invariant control context" + (" (or covered by an earlier rank-invariant call to the cached function with the same arguments)" if cached else ""), sample=True)
    rep.floor(rule, "collective-effect call sites reached from __init__/step", n_sites, 2)
    rep.notes["rank_invariance_assumptions"] = ["parameter shapes", "gradient presence per parameter", "hyperparameters", "world size", "device-mesh layout"]
    rep.assume("rank-invariant by assumption (premises of C06-C08): parameter shapes, gradient presence, hyperparameters, world size, mesh layout")
    rep.assume("torch 2.5.1: _mesh_resources._get_all_submeshes creates sub-meshes with _init_backend=False (no process groups); DeviceMesh(...) creates groups collectively")


def _cache_exempt(ctx, rt, chain: list[str], cached_fi) -> bool:
    """A rank-variant call to a functools.cache'd mesh factory is harmless if the same class's __init__ already made a
    rank-invariant call with the same mesh_dim_names and the same reshape width (the cache then returns the existing mesh)."""
    repo = ctx.repo
    if len(chain) < 2:
        return False
    entering = repo.funcs.get(chain[-2])
    if entering is None or entering.cls is None:
        return False
    def mesh_calls(fi):
        out = []
        for c in A.calls(fi.node, nested=True):
            d = repo.dotted_of(fi.module, c.func)
            if d and repo.func_by_dotted(d) is cached_fi:
                out.append(c)
        return out
    def signature(c, fi):
        dims = _norm(A.keyword(c, "mesh_dim_names"))
        # the mesh expression together with the definitions of the single-assignment locals it names (a named reshape is the reshape)
        seen_names: set[str] = set()
        exprs = [A.keyword(c, "mesh") or c]
        for e in exprs:
            for nm in [x.id for x in ast.walk(e) if isinstance(x, ast.Name) and isinstance(x.ctx, ast.Load)]:
                if nm not in seen_names and len(exprs) < 12:
                    seen_names.add(nm)
                    ds = A.assignments_to(fi.node, nm)
                    if len(ds) == 1:
                        exprs.append(ds[0])
        widths = sorted({_norm(v.args[1]) for e in exprs for v in ast.walk(e) if isinstance(v, ast.Call) and isinstance(v.func, ast.Attribute) and v.func.attr == "view" and len(v.args) == 2})
        return dims, tuple(widths)
    here = [signature(c, entering) for c in mesh_calls(entering)]
    init = repo.lookup_method(entering.cls, "__init__")
    if init is None or not here:
        return False
    for c in mesh_calls(init):
        if signature(c, init) in here and signature(c, init)[1]:
            # that call must itself be in rank-invariant context
            if not rt.local_context(init, c):
                _, bad = rt.context_offences(init.qual, c)
                if not bad:
                    return True
    return False


def buffer_protocol(ctx, rep, rule: str, cls_q: str) -> None:
    repo = ctx.repo
    pts = ctx.engine("pts")
    sp = spaces_engine(ctx)
    ci = repo.cls(cls_q)
    fi = repo.lookup_method(ci, "update_params")
    cfg = CFG(fi.node)
    sc = _scope(sp, fi, ci)
    top_if = [n for n in fi.node.body if isinstance(n, ast.If)]
    if len(top_if) != 1 or "_communicate_params" not in ast.unparse(top_if[0].test):
        raise AnalysisError(f"{rule}: {ci.name}.update_params is not an if/else on _communicate_params")
    branches = {"communicate_params": top_if[0].body, "communicate_updates": top_if[0].orelse}
    buffer_store = pts.tensors(pts.attr(cls_q, "_global_dist_buffer"))
    for bname, body in branches.items():
        mod = ast.Module(body=body, type_ignores=[])
        inside = {id(n) for n in ast.walk(mod)}
        writes = sorted([w for w in pts.writes if w.func == fi.qual and id(w.node) in inside], key=lambda w: w.node.lineno)
        gathers = [c for c in A.calls(mod) if any(q.replace(":", ".").endswith(".all_gather_into_tensor") for q in pts.callees(fi.qual, c))]
        ok = len(gathers) == 1
        if not ok:
            rep.ob(rule, f"protocol:{ci.name}:{bname}:one-gather", False, fi.loc(), f"{len(gathers)} all-gather call(s) in the {bname} branch; exactly one is required on every step")
            continue
        g = gathers[0]
        gn = cfg.node_of(g)
        def info(w):
            c = w.node
            dst = c.args[0] if isinstance(c, ast.Call) and c.args else None
            src = c.args[1] if isinstance(c, ast.Call) and len(c.args) > 1 else None
            return dst, src, space_of(sp.ty(dst, sc)) if dst is not None else None, space_of(sp.ty(src, sc)) if src is not None else None
        before = [w for w in writes if w.node.lineno < g.lineno]
        after = [w for w in writes if w.node.lineno > g.lineno]
        fills = [w for w in before if w.dst and set(w.dst) <= buffer_store]
        # FILL: local masked send buffers written before the gather, dominating it
        fill_ok = len(fills) == 1 and info(fills[0])[2] == "LM" and cfg.dominates(cfg.node_of(fills[0].node), gn)
        rep.ob(rule, f"protocol:{ci.name}:{bname}:fill-before-gather", fill_ok, fi.loc(g), f"exactly one write into the rank's own (local masked) send buffers must dominate the all-gather; found {[_norm(w.node)[:70] for w in fills]}", sample=True)
        if fills:
            dst, src, ds, ss = info(fills[0])
            if bname == "communicate_params":
                pre = [w for w in before if PARAM in w.dst]
                src_is_params = src is not None and PARAM in pts.tensors(pts.expr(fi.qual, src, cls_q))
                ok2 = len(pre) == 1 and pre[0].node.lineno < fills[0].node.lineno and info(pre[0])[2] == "LM" and src_is_params and ss == "LM"
                rep.ob(rule, f"protocol:{ci.name}:{bname}:local-update-then-fill", ok2, fi.loc(fills[0].node), "the owner updates its local masked parameters first, then sends those parameters", sample=True)
            else:
                formal = "masked_blocked_search_directions"
                ok2 = isinstance(src, ast.Name) and src.id == formal and not [w for w in before if PARAM in w.dst]
                rep.ob(rule, f"protocol:{ci.name}:{bname}:fill-from-directions", ok2, fi.loc(fills[0].node), "the owner sends its search directions; no parameter is written before the gather", sample=True)
        # APPLY: after the gather, parameters are written exactly once, the GLOBAL masked list from the GLOBAL masked buffers
        pw = [w for w in after if PARAM in w.dst]
        ok3 = len(pw) == 1
        detail = f"{len(pw)} parameter write(s) after the all-gather"
        if pw:
            for w in pw:
                dst, src, ds, ss = info(w)
                src_buf = src is not None and bool(pts.tensors(pts.expr(fi.qual, src, cls_q))) and pts.tensors(pts.expr(fi.qual, src, cls_q)) <= buffer_store
                good = ds == "GM" and ss == "GM" and src_buf and cfg.dominates(gn, cfg.node_of(w.node))
                ok3 = ok3 and good
                detail += f"; `{_norm(w.node)[:80]}`: destination space {ds}, source space {ss}, source is the gather buffer: {src_buf}"
        rep.ob(rule, f"protocol:{ci.name}:{bname}:apply-all-gathered-blocks", ok3, fi.loc(pw[0].node) if pw else fi.loc(g), detail + " — every rank must apply all gathered blocks (global masked list) and nothing else, so that replicas hold identical (communication-dtype rounded) values", sample=True)
        other = [w for w in after if PARAM not in w.dst and not (set(w.dst) <= buffer_store)]
        rep.ob(rule, f"protocol:{ci.name}:{bname}:no-buffer-write-after-gather", not [w for w in after if set(w.dst) <= buffer_store and w.dst], fi.loc(g), "the gather buffer is not modified between the all-gather and its application")
    # the gather itself: whole buffer out, this rank's segment in, on the communication group
    ag = repo.lookup_method(ci, "all_gather_into_tensor")
    calls = [c for c in A.calls(ag.node) if A.callee_name(repo, ag.module, c) == "torch.distributed.all_gather_into_tensor"]
    ok = len(calls) == 1
    if ok:
        c = calls[0]
        args = [_norm(a) for a in c.args]
        grp = _norm(A.keyword(c, "group"))
        ok = args[:2] == ["self._global_dist_buffer", "self._local_dist_buffer"] and grp in ("self._dist_group", "self._comms_dist_group")
    rep.ob(rule, f"protocol:{ci.name}:gather-arguments", ok, ag.loc(), "all_gather_into_tensor(global buffer, this rank's segment, group=<communication group>)", sample=True)


COMM_DTYPES = {"BF16": "torch.bfloat16", "FP16": "torch.float16", "FP32": "torch.float32", "DEFAULT": "torch.float32"}


def comm_dtype_table(ctx, rep, rule: str, cls_q: str) -> None:
    """The constructor's selection of the communication dtype, walked once per CommunicationDType member: the member named
    BF16 / FP16 / FP32 must select the torch dtype of that name, DEFAULT selects float32 (no rounding)."""
    repo = ctx.repo
    ci = repo.cls(cls_q)
    init = repo.lookup_method(ci, "__init__")
    m = init.module
    enum_ci = repo.cls("distributed_shampoo.shampoo_types:CommunicationDType")
    members = [t.id for st in enum_ci.node.body if isinstance(st, ast.Assign) for t in st.targets if isinstance(t, ast.Name)]
    if sorted(members) != sorted(COMM_DTYPES):
        rep.ob(rule, f"comm-dtype:{ci.name}:members", False, enum_ci.module.relpath, f"CommunicationDType members {members} differ from the documented set {sorted(COMM_DTYPES)}")
        return
    # the statement list that decides: the block of __init__ containing an `if` on the config's communication dtype
    blocks = [b for b in _blocks_of(init.node) if any(isinstance(st, ast.If) and any("communication_dtype" in a and "CommunicationDType." in a for a in A.test_atoms(st.test)) for st in b)]
    if not blocks:
        raise AnalysisError(f"{ci.name}.__init__: no statement selecting the communication dtype found")
    # outermost block (an elif arm is a nested block of the same chain); only the statements that test the dtype are walked
    block = [st for st in blocks[0] if isinstance(st, ast.If) and any("communication_dtype" in a and "CommunicationDType." in a for a in A.test_atoms(st.test))]
    atoms = set()
    for st in ast.walk(ast.Module(body=block, type_ignores=[])):
        if isinstance(st, ast.If):
            atoms |= A.test_atoms(st.test)
    n = 0
    for member in members:
        val = {}
        for a in atoms:
            if "CommunicationDType." in a and "communication_dtype" in a and " == " in a:
                val[a] = f"CommunicationDType.{member}" in a.replace(" ", "").split("==")
        stmts, end = A.walk_path(block, val)
        chosen = [repo.dotted_of(m, st.value) or _norm(st.value) for st in stmts if isinstance(st, ast.Assign) and any("dtype" in _norm(t) for t in st.targets) and isinstance(st.value, ast.Attribute)]
        ok = not end.startswith("unknown") and chosen[-1:] == [COMM_DTYPES[member]]
        n += 1
        rep.ob(rule, f"comm-dtype:{ci.name}:{member}", ok, init.loc(block[0]), f"CommunicationDType.{member} selects {chosen[-1] if chosen else end}; documented {COMM_DTYPES[member]}", sample=True)
    rep.floor(rule, f"{ci.name} communication dtype cases", n, 4)


def _blocks_of(fn: ast.AST):
    for n in ast.walk(fn):
        for fld in ("body", "orelse", "finalbody"):
            v = getattr(n, fld, None)
            if isinstance(v, list) and v and isinstance(v[0], ast.stmt):
                yield v


def allocation_forwards_request(ctx, rep, rule: str, cls_q: str) -> None:
    """The distributor's state allocator hands the requested size and dtype to the zeros factory and uses every parameter it
    is given (a dropped dtype gives float32 state where the caller asked for another precision)."""
    repo = ctx.repo
    ci = repo.cls(cls_q)
    fi = repo.lookup_method(ci, "_allocate_zeros_distributed_tensor")
    if fi is None:
        raise AnalysisError(f"{ci.name} has no _allocate_zeros_distributed_tensor")
    params = [p for p in fi.params if p != "self"]
    used = {n.id for n in ast.walk(fi.node) if isinstance(n, ast.Name) and isinstance(n.ctx, ast.Load)}
    unused = [p for p in params if p not in used]
    rets = [n for n in A.walk_no_nested(fi.node) if isinstance(n, ast.Return) and n.value is not None]
    factory = [c for r in rets for c in A.calls(r) if A.callee_name(repo, fi.module, c).split(".")[-1] in ("zeros", "dtensor_zeros", "empty", "full")]
    if not factory:  # returned through a local
        factory = [c for c in A.calls(fi.node) if A.callee_name(repo, fi.module, c).split(".")[-1] in ("zeros", "dtensor_zeros")]
    ok = len(factory) == 1
    detail = f"{len(factory)} zeros factory call(s)"
    if ok:
        c = factory[0]
        size_ok = bool(c.args) and A.expanded(fi.node, c.args[0]) == "size" or (A.keyword(c, "size") is not None and A.expanded(fi.node, A.keyword(c, "size")) == "size")
        dt = A.keyword(c, "dtype")
        dtype_ok = dt is not None and A.expanded(fi.node, dt) == "dtype"
        ok = size_ok and dtype_ok and not unused
        detail = f"`{_norm(c)[:90]}`: size forwarded {size_ok}, dtype forwarded {dtype_ok}; unused parameters {unused}"
    rep.ob(rule, f"allocation-forwards-request:{ci.name}", ok, fi.loc(factory[0]) if factory else fi.loc(), detail, sample=True)


def mesh_dimension_roles(ctx, rep, rule: str, cls_q: str, mesh_attr: str) -> None:
    """One mesh dimension is the replicate dimension: its size is the replicated group size, its group supplies the ranks the
    state is distributed over; the other dimension is the shard dimension whose local rank keys the blocks."""
    repo = ctx.repo
    ci = repo.cls(cls_q)
    uses: dict[str, set] = {}
    n = 0
    for fi in ci.methods.values():
        if fi.cls is None or fi.cls.qual != ci.qual:
            continue
        for c in A.calls(fi.node, nested=True):
            f = c.func
            if isinstance(f, ast.Attribute) and f.attr in ("size", "get_group", "get_local_rank") and _norm(f.value) == f"self.{mesh_attr}":
                arg = c.args[0] if c.args else (c.keywords[0].value if c.keywords else None)
                key = arg.value if isinstance(arg, ast.Constant) else (_norm(arg) if arg is not None else None)
                uses.setdefault(f.attr, set()).add(key)
                n += 1
    rep.floor(rule, f"{ci.name} mesh-dimension uses", n, 3)
    repl = uses.get("size", set()) | uses.get("get_group", set())
    shard = uses.get("get_local_rank", set())
    ok = repl == {0} and shard == {1}
    rep.ob(rule, f"mesh-dimension-roles:{ci.name}", ok, ci.module.relpath, f"`self.{mesh_attr}`: size()/get_group() on dimension(s) {sorted(map(str, repl))} (documented: replicate = 0), get_local_rank() on {sorted(map(str, shard))} (documented: shard = 1)", sample=True)


def run(ctx, rep) -> None:
    rep.rule("C06.1", "collective uniformity: every collective / group-creating call is control- and data-independent of rank-variant values on every call path from __init__/step")
    rep.rule("C06.2", "update_params protocol: fill local send buffers -> all-gather -> apply all gathered masked blocks; parameters written after the gather only from the gather buffer")
    rep.rule("C06.3", "index spaces and re-masking of the DDP distributor's lists")
    rep.rule("C06.4", "the DDP / HSDP / HybridShard copies of the distribution code agree")
    rep.attempt("collective_uniformity", collective_uniformity, ctx, rep, "C06.1", {"DDPDistributor"})
    rep.attempt("buffer_protocol", buffer_protocol, ctx, rep, "C06.2", DDP)
    from .common import utility_semantics

    rep.rule("C06.6", "the pure utilities this property is built on compute what they document (concrete interpretation on small cases)")
    rep.attempt("utility_semantics", utility_semantics, ctx, rep, "C06.6", ("get_dtype_size", "compress_list", "generate_pairwise_indices"))
    from .common import cached_functions_are_functions_of_their_key, late_binding_closures

    rep.attempt("cached_functions", cached_functions_are_functions_of_their_key, ctx, rep, "C06.6")
    rep.attempt("late_binding_closures", late_binding_closures, ctx, rep, "C06.6")
    rep.rule("C06.5", "communication dtype table: each CommunicationDType member selects the torch dtype of its name (DEFAULT: float32); the state allocator forwards the requested size and dtype")
    rep.attempt("comm_dtype_table", comm_dtype_table, ctx, rep, "C06.5", DDP)
    rep.attempt("allocation_forwards_request", allocation_forwards_request, ctx, rep, "C06.5", DDP)
    from .c14 import assignment_determinism, buffer_views, ownership

    rep.attempt("ownership", ownership, ctx, rep, "C06.3", [DDP])
    rep.attempt("assignment_determinism", assignment_determinism, ctx, rep, "C06.3", [DDP])
    rep.attempt("buffer_views", buffer_views, ctx, rep, "C06.3", [DDP])
    rep.attempt("typing_sites", typing_sites, ctx, rep, "C06.3", {"distributed_shampoo.utils.shampoo_ddp_distributor"}, {"distributed_shampoo.utils.shampoo_ddp_distributor": 8})
    rep.attempt("_dist_remask", _dist_remask, ctx, rep, "C06.3", DDP)
    from .c04 import _change_guards

    rep.attempt("_change_guards", _change_guards, ctx, rep, "C06.3")
    from .c04 import global_selector_is_ownership_independent, selector_construction

    rep.attempt("selector_construction", selector_construction, ctx, rep, "C06.3")
    from .common import working_lists_hold_local_tensors

    rep.attempt("working_lists_hold_local_tensors", working_lists_hold_local_tensors, ctx, rep, "C06.3")
    rep.attempt("global_selector_is_ownership_independent", global_selector_is_ownership_independent, ctx, rep, "C06.3")
    from .c03 import _Proxy
    from .c17 import _dispatch_tables

    rep.attempt("distributor_dispatch", _dispatch_tables, ctx, _Proxy(rep, "C17.4", "C06.3"), only=("_instantiate_distributor",))
    from .c14 import state_mesh_layout

    rep.attempt("state_mesh_layout", state_mesh_layout, ctx, rep, "C06.3")
    from .c04 import stateful_cursors_advance

    rep.attempt("stateful_cursors_advance", stateful_cursors_advance, ctx, rep, "C06.3")
    rep.attempt("sibling_pairs", sibling_pairs, ctx, rep, "C06.4", [p for p in dist_pairs() if DDP in p[:2]])
    from .c14 import buffer_layout_semantics, split_semantics

    rep.attempt("split_semantics", split_semantics, ctx, rep, "C06.4", [DDP])
    rep.attempt("buffer_layout_semantics", buffer_layout_semantics, ctx, rep, "C06.4", [DDP])
    rep.assume("numerical equality with the serial optimizer and the rounding bound for reduced-precision communication are NOT decided")


def _dist_remask(ctx, rep, rule: str, cls_q: str, floor: int = 4) -> None:
    """mask completeness + change guard, restricted to one distributor class (reuses C04.2 by filtering its obligations)."""
    from ..report import Report

    tmp = Report(rep.prop)
    mask_completeness(ctx, tmp, rule)
    name = cls_q.split(":")[1]
    n = 0
    for ob in tmp.obligations:
        if f":{name}." in ob.key:
            rep.obligations.append(ob)
            n += 1
            if not ob.ok:
                rep.samples.append({"rule": ob.rule, "key": ob.key, "where": ob.where, "verdict": "VIOLATED", "detail": ob.detail})
    rep.floor(rule, f"re-mask obligations of {name}", n, floor)
