"""Rule building blocks shared by several properties."""

from __future__ import annotations

import ast
from collections import defaultdict

from .. import astutil as A
from ..loader import AnalysisError
from ..pointsto import GRAD, PARAM

DS_MOD = "distributed_shampoo.distributed_shampoo"
DS = f"{DS_MOD}:DistributedShampoo"
PL_MOD = "distributed_shampoo.utils.shampoo_preconditioner_list"
DIST_MOD = "distributed_shampoo.utils.shampoo_distributor"
CKPT_MOD = "distributed_shampoo.utils.shampoo_checkpoint_utils"

ENTRY_POINTS = [f"{DS}.__init__", f"{DS}.step", f"{DS}.distributed_state_dict", f"{DS}.load_distributed_state_dict"]

# state kind -> designated writer (the function that implements that state's recurrence), with the reason
STATE_WRITERS = {
    "filtered_grad": (f"{DS}._compute_filtered_grad_list", "EMA of the gradient (beta1)"),
    "momentum": (f"{DS}._update_momentum", "momentum buffer recurrence"),
    "adagrad": (f"{PL_MOD}:AdagradPreconditionerList.update_preconditioners", "grafting second-moment accumulator"),
    "factor_matrices": (f"{PL_MOD}:BaseShampooPreconditionerList._update_factor_matrices", "Kronecker factor accumulation"),
    "inv_factor_matrices": (f"{PL_MOD}:ShampooPreconditionerList._amortized_computation", "inverse-root refresh"),
    "factor_matrices_eigenvectors": (f"{PL_MOD}:EigenvalueCorrectedShampooPreconditionerList._amortized_computation", "eigenbasis refresh"),
    "corrected_eigenvalues": (f"{PL_MOD}:EigenvalueCorrectedShampooPreconditionerList._update_eigenvalue_corrections", "second moment in the eigenbasis"),
    "is_factor_matrices_diagonal": (f"{PL_MOD}:BaseShampooPreconditionerList._check_factor_matrix_for_diagonality_nan_and_inf", "diagonality flag"),
    "step": (f"{DS}.step", "per-group step counter"),
}
LOAD_ENTRY = f"{DS}.load_distributed_state_dict"


def short(qual: str) -> str:
    return qual.split(":", 1)[1] if ":" in qual else qual


def callgraph_dominated(pts, func: str, by: str, roots: list[str]) -> bool:
    """True iff `func` is `by`, or is reachable from the entry points only through `by`."""
    if func == by:
        return True
    g = pts.call_graph()
    seen: set[str] = set()
    stack = [r for r in roots if r != by]
    while stack:
        q = stack.pop()
        if q in seen or q == by:
            continue
        seen.add(q)
        stack.extend(g.get(q, ()))
    if func in seen:
        return False
    return func in pts.reachable_funcs([by])


def classify(pts, kinds, t) -> set[str]:
    if t in kinds:
        return set(kinds[t])
    if t == PARAM:
        return {"PARAM"}
    if t == GRAD:
        return {"GRAD"}
    return set()


def who_may_write(ctx, rep, rule: str, only_kinds: set[str] | None = None, include_params: bool = True) -> None:
    """Every in-place write whose destination may alias a state tensor of kind k lies in (or is call-graph dominated by)
    the designated writer of k, or on the checkpoint-load path; parameters are written only by Distributor.update_params."""
    repo = ctx.repo
    pts = ctx.engine("pts")
    kinds = pts.state_kinds()
    # anchors must exist; a writer that moved (module level <-> class, base class, other module) is still that writer
    writers_now = {k: (repo.func(w).qual, why) for k, (w, why) in STATE_WRITERS.items()}
    per_writer: dict[str, int] = defaultdict(int)
    dist_base = repo.cls(f"{DIST_MOD}:DistributorInterface")
    update_params = {m.qual for c in repo.subclasses(dist_base) for n, m in c.methods.items() if n == "update_params" and not m.is_abstract}
    n_sites = 0
    for w in pts.writes:
        ks: set[str] = set()
        for t in w.dst:
            ks |= classify(pts, kinds, t)
        ks.discard("GRAD")
        if not include_params:
            ks.discard("PARAM")
        if only_kinds is not None:
            ks &= only_kinds | ({"PARAM"} if include_params else set())
        if not ks:
            continue
        n_sites += 1
        on_load = callgraph_dominated(pts, w.func, LOAD_ENTRY, ENTRY_POINTS)
        for k in sorted(ks):
            if k == "PARAM":
                ok = any(callgraph_dominated(pts, w.func, u, ENTRY_POINTS) for u in update_params)
                why = "parameters may only be written by a Distributor.update_params"
                if ok:
                    per_writer["PARAM:" + w.func] += 1
            elif k in writers_now:
                des = writers_now[k][0]
                ok = on_load or callgraph_dominated(pts, w.func, des, ENTRY_POINTS)
                why = f"state '{k}' ({writers_now[k][1]}) may only be written by {short(des)} or on the checkpoint-load path"
                if ok and not on_load:
                    per_writer[k] += 1
            else:
                ok = on_load
                why = f"state of unknown kind '{k}' written outside the load path"
            rep.ob(
                rule,
                f"write:{short(w.func)}:{w.op.replace('torch.', '')}->{k}",
                ok,
                w.where,
                f"in-place `{w.op}` in {short(w.func)} may write storage of kind {k} ({ast.unparse(w.node)[:90]}); {why}",
                sample=(n_sites % 9 == 0),
            )
    for k, (wq, _) in writers_now.items():
        if only_kinds is None or k in only_kinds:
            rep.floor(rule, f"{short(wq)} writes {k}", per_writer.get(k, 0), 1)
    if include_params:
        from ..pointsto import PARAM as _PARAM

        for u in sorted(update_params):
            # strict polarity: what update_params writes in place is parameter storage and nothing else — a destination that may
            # also be a fresh tensor means a possibly-copying conversion (`.float()`, `.to()`, `.contiguous()`, `.reshape()`) sits
            # between the parameter and the write, and for some dtype / layout the update lands in the copy
            for w in pts.writes:
                if w.func == u and _PARAM in w.dst:
                    extra = sorted(str(t[1][0]) if isinstance(t[1], tuple) else str(t[1]) for t in set(w.dst) - {_PARAM})
                    rep.ob(rule, f"writes-parameters-through-views-only:{short(u)}:{w.op.replace('torch.', '')}", not extra, w.where, f"in-place `{w.op}` in {short(u)} writes parameter storage" + (f", but its destination may also be a separate tensor created at {extra[:2]}: for some parameters the update is applied to a copy" if extra else " only"), sample=False)
            n_w = per_writer.get("PARAM:" + u, 0)
            rep.ob(rule, f"writes-parameters-in-place:{short(u)}", n_w >= 1, repo.func(u).loc(), f"{short(u)} performs {n_w} in-place write(s) whose destination aliases parameter storage; it must update the parameters in place through their block views (an out-of-place result is discarded)", sample=n_w == 0)
    rep.notes.setdefault("points_to", {"frames": len(pts.frames), "heap_cells": len(pts.heap), "write_sites": len(pts.writes), "iterations": pts.iterations, "k": pts.k, "unknown_ops": sorted(pts.unknown_ops)})
    rep.assume("torch operation table (sv/tables.py): in-place / view / maybe-copy / fresh classification of Tensor methods and torch functions")


def gradients_are_inputs(ctx, rep, rule: str) -> None:
    """The preconditioner lists and the matrix routines treat the gradient lists they are handed as read-only inputs: no
    in-place write inside those modules may land in storage that may be a gradient (or the filtered gradient the driver
    passes in its place).  `x = g.detach(); x.div_(...)` — a view where a copy was meant — rewrites the caller's gradient."""
    repo = ctx.repo
    pts = ctx.engine("pts")
    kinds = pts.state_kinds()
    mods = (PL_MOD, "matrix_functions")
    n = 0
    for w in pts.writes:
        mod = w.func.split(":")[0]
        if mod not in mods:
            continue
        n += 1
        ks: set[str] = set()
        for t in w.dst:
            ks |= classify(pts, kinds, t)
        bad = sorted(ks & {"GRAD", "filtered_grad", "momentum"})
        rep.ob(rule, f"gradients-are-read-only-inputs:{short(w.func)}:{w.op.replace('torch.', '')}", not bad, w.where, f"in-place `{w.op}` in {short(w.func)} ({ast.unparse(w.node)[:80]})" + (f" may write storage of kind {bad}: the preconditioner works on a view of its input where a copy is required, so the caller's gradient / filtered gradient is overwritten" if bad else " does not reach the gradient lists"), sample=(n % 7 == 0))
    rep.floor(rule, "in-place writes in the preconditioner-list and matrix modules", n, 8)


def _writes_into_tensor_params(node: ast.AST, dotted_of) -> tuple[bool, list[tuple[ast.AST, str, str, list[str]]]]:
    """(has Tensor parameters, [(site, operation, destination text, parameters the destination may alias)]) for one function.
    Local may-alias analysis: a name may alias a parameter if some binding of it is the parameter, an alias, a view of an alias
    (view methods / view attributes / subscripts / torch view functions), the result of an in-place method on an alias, or a
    possibly-copying conversion of one (`.to()`, `.contiguous()`, `.reshape()` return the receiver itself for some inputs)."""
    from .. import tables as T

    a = node.args
    tparams = {x.arg for x in a.posonlyargs + a.args + a.kwonlyargs if x.annotation is not None and "Tensor" in ast.unparse(x.annotation)}
    if not tparams:
        return False, []
    alias: dict[str, set[str]] = {p_: {p_} for p_ in tparams}

    def src(e) -> set[str]:
        if isinstance(e, ast.Name):
            return set(alias.get(e.id, ()))
        if isinstance(e, ast.Attribute):
            return src(e.value) if e.attr in T.VIEW_ATTRS else set()
        if isinstance(e, ast.Subscript):
            return src(e.value)
        if isinstance(e, ast.IfExp):
            return src(e.body) | src(e.orelse)
        if isinstance(e, ast.NamedExpr):
            return src(e.value)
        if isinstance(e, (ast.Tuple, ast.List)):
            return set().union(*(src(x) for x in e.elts)) if e.elts else set()
        if isinstance(e, ast.Call):
            f = e.func
            if isinstance(f, ast.Attribute):
                d = dotted_of(f)
                if d is not None and d.startswith("torch."):
                    if d in T.VIEW_FUNCS or d in T.MAYBE_COPY_FUNCS or d.endswith("_"):
                        return src(e.args[0]) if e.args else set()
                    return set()
                if f.attr in T.VIEW_METHODS or f.attr in T.MAYBE_COPY_METHODS or (f.attr.endswith("_") and not f.attr.startswith("__")):
                    return src(f.value)
            return set()
        return set()

    changed = True
    while changed:
        changed = False
        for st in A.walk_no_nested(node):
            pairs = []
            if isinstance(st, ast.Assign):
                pairs = [(t, st.value) for t in st.targets]
            elif isinstance(st, ast.AnnAssign) and st.value is not None:
                pairs = [(st.target, st.value)]
            elif isinstance(st, ast.NamedExpr):
                pairs = [(st.target, st.value)]
            elif isinstance(st, (ast.For, ast.comprehension)):
                pairs = [(st.target, st.iter)]
            for tg, v in pairs:
                if isinstance(tg, (ast.Attribute, ast.Subscript)):
                    continue
                names = [x.id for x in ast.walk(tg) if isinstance(x, ast.Name)]
                s_ = src(v)
                for nm in names:
                    if not s_ <= alias.get(nm, set()):
                        alias.setdefault(nm, set()).update(s_)
                        changed = True
    sites = []
    for n in A.walk_no_nested(node):
        dst, op = None, None
        if isinstance(n, ast.Call) and isinstance(n.func, ast.Attribute):
            f = n.func
            d = dotted_of(f)
            if d is not None and d.startswith("torch."):
                if d.endswith("_") and n.args:
                    dst, op = n.args[0], d
            elif f.attr.endswith("_") and not f.attr.startswith("__") and f.attr not in T.VIEW_METHODS:
                dst, op = f.value, f.attr
            out = A.keyword(n, "out")
            if out is not None:
                sites.append((n, "out=", ast.unparse(out), sorted(src(out))))
        elif isinstance(n, ast.AugAssign):
            dst, op = n.target, type(n.op).__name__ + "="
            if isinstance(dst, ast.Name) and not alias.get(dst.id):
                dst = None
        elif isinstance(n, ast.Assign) and any(isinstance(t, ast.Subscript) for t in n.targets):
            dst, op = next(t for t in n.targets if isinstance(t, ast.Subscript)).value, "[...]="
        if dst is not None:
            sites.append((n, op, ast.unparse(dst), sorted(src(dst))))
    return True, sites


def tensor_arguments_are_inputs(ctx, rep, rule: str, module: str = "matrix_functions", only: tuple[str, ...] | None = None) -> None:
    """The matrix routines are functions of their tensor arguments: no in-place operation (`x.add_()`, `x += …`, `out=x`,
    `x[...] = …`) inside a function of the module may land in storage that may belong to one of that function's Tensor
    parameters.  `A_ridge = A.add_(eps * I)` where `A.add(…)` was meant shifts the caller's matrix on every call."""
    repo = ctx.repo
    m = repo.modules.get(module)
    if m is None:
        raise AnalysisError(f"{rule}: module {module} not found")
    n_funcs = n_sites = 0
    for fi in sorted((f for f in repo.funcs.values() if f.module is m and f.parent is None), key=lambda f: f.qual):
        if only is not None and fi.name not in only:
            continue
        has, sites = _writes_into_tensor_params(fi.node, lambda f, fi=fi: repo.dotted_of(fi.module, f))
        if not has:
            continue
        n_funcs += 1
        for n, op, dtxt, hit in sites:
            n_sites += 1
            rep.ob(rule, f"tensor-arguments-are-inputs:{fi.name}:{op.replace('torch.', '')}", not hit, fi.loc(n), f"in-place `{op}` on `{dtxt[:60]}` in {fi.name}" + (f" may write storage of the caller's argument `{hit[0]}` (the routine must work on a copy: the caller keeps using that tensor — the optimizer's stored factor / eigenbasis, or the same matrix in a later call)" if hit else " lands in a tensor created inside the routine"), sample=(n_sites % 4 == 0))
    rep.floor(rule, f"functions of {module} with Tensor parameters", n_funcs, 3 if only else 8)
    # the number of in-place sites may legitimately drop to zero (every in-place twin rewritten out of place); what must not
    # happen is that the rule stops seeing them: positive control on a synthetic function, analysed by the same code path
    ctl = ast.parse("def f(A: Tensor, n: int):\n    B = A.to(dtype=A.dtype)\n    C = B.T\n    C.add_(1)\n    D = A.mul(2)\n    D.add_(1)\n").body[0]
    _, csites = _writes_into_tensor_params(ctl, lambda f: None)
    ok_ctl = {d_: h for _, _, d_, h in csites} == {"C": ["A"], "D": []}
    rep.ob(rule, "tensor-arguments-are-inputs:positive-control", ok_ctl, "", "synthetic control: `B = A.to(dtype=A.dtype); C = B.T; C.add_(1)` is a write into argument A, `D = A.mul(2); D.add_(1)` is not", sample=False)


def _is_mutable_container_expr(e: ast.AST) -> bool:
    if isinstance(e, (ast.List, ast.Dict, ast.Set, ast.ListComp, ast.DictComp, ast.SetComp)):
        return True
    return isinstance(e, ast.Call) and isinstance(e.func, ast.Name) and e.func.id in ("list", "dict", "set", "defaultdict", "OrderedDict", "deque", "bytearray")


def no_shared_mutable_defaults(ctx, rep, rule: str) -> None:
    """A default is evaluated once: a mutable container (list / dict / set) used as a function default, as a plain class
    attribute default, or returned by a dataclass `default_factory` that hands out one module-level object instead of building a
    new one, is shared by every call / instance that does not pass its own — a later in-place change through one of them
    (`cfg.ignored_dims.append(0)`) silently changes all the others, including the library's own default configs."""
    repo = ctx.repo
    n = 0
    # scope: the modules that define what the constructor validates and stores — the config dataclasses, the optimizer itself and
    # the abstract-dataclass base; a deliberately shared class-level registry elsewhere is none of this rule's business
    scope = ("distributed_shampoo.shampoo_types", "matrix_functions_types", "commons", "distributed_shampoo.distributed_shampoo")
    for m in repo.modules.values():
        if m.name not in scope:
            continue
        for c in m.classes.values():
            for st in c.node.body:
                if not (isinstance(st, ast.AnnAssign) and st.value is not None and isinstance(st.target, ast.Name)):
                    continue
                v = st.value
                fac = A.keyword(v, "default_factory") if isinstance(v, ast.Call) and (repo.dotted_of(m, v.func) or "").endswith("field") else None
                if fac is not None:
                    n += 1
                    shared = None
                    if isinstance(fac, ast.Lambda) and isinstance(fac.body, (ast.Name, ast.Attribute)):
                        d = repo.dotted_of(m, fac.body)
                        hit = repo.module_assign(repo.resolve_dotted(m, d)) if d else None
                        if hit is not None and _is_mutable_container_expr(hit[1]):
                            shared = f"`{ast.unparse(fac.body)}` = {ast.unparse(hit[1])[:40]} (one module-level container)"
                    elif isinstance(fac, (ast.Name, ast.Attribute)):
                        fi = repo.func_by_dotted(repo.resolve_dotted(m, repo.dotted_of(m, fac) or ""))
                        if fi is not None:
                            rets = [r.value for r in A.walk_no_nested(fi.node) if isinstance(r, ast.Return) and r.value is not None]
                            for r in rets:
                                if isinstance(r, (ast.Name, ast.Attribute)):
                                    hit = repo.module_assign(repo.resolve_dotted(fi.module, repo.dotted_of(fi.module, r) or ""))
                                    if hit is not None and _is_mutable_container_expr(hit[1]):
                                        shared = f"{fi.name}() returns the module-level container `{ast.unparse(r)}`"
                    rep.ob(rule, f"fresh-default:{c.name}.{st.target.id}", shared is None, f"{m.relpath}:{st.lineno}", f"default_factory of {c.name}.{st.target.id}" + (f" hands every instance the same object: {shared}" if shared else " builds a new object per instance (or an immutable / a config instance)"), sample=True)
                elif _is_mutable_container_expr(v) and c.is_dataclass is False and not st.target.id.isupper():
                    n += 1
                    rep.ob(rule, f"fresh-default:{c.name}.{st.target.id}", False, f"{m.relpath}:{st.lineno}", f"class attribute {c.name}.{st.target.id} = {ast.unparse(v)[:40]} is one container shared by all instances")
    for fi in repo.funcs.values():
        if fi.module.name not in scope:
            continue
        a = fi.node.args
        for d in list(a.defaults) + [k for k in a.kw_defaults if k is not None]:
            n += 1
            if _is_mutable_container_expr(d):
                rep.ob(rule, f"fresh-default:{short(fi.qual)}", False, fi.loc(d), f"mutable default argument `{ast.unparse(d)[:40]}` of {short(fi.qual)} is evaluated once and shared by every call")
    rep.ob(rule, "fresh-default:function-defaults", True, "", f"{n} dataclass default factories, class attribute defaults and function default arguments examined", sample=True)
    rep.floor(rule, "defaults examined", n, 15)


def working_lists_hold_local_tensors(ctx, rep, rule: str) -> None:
    """The per-block working lists the step computes on (momentum, filtered gradient, Adagrad second moment) hold
    `block_info.get_tensor(<state entry>)` — the LOCAL tensor of the state entry: the identity for plain tensors, the local shard
    for the DTensor state of the distributed allocators.  Appending the state entry itself mixes DTensors with plain tensors in
    the foreach kernels for exactly those distributors."""
    repo = ctx.repo
    sites = [(f"{DS}._instantiate_momentum", "momentum"), (f"{DS}._instantiate_filtered_grads", "filtered_grad"), (f"{PL_MOD}:AdagradPreconditionerList.__init__", "adagrad")]
    n = 0
    for q, what in sites:
        fi = repo.func(q)
        apps = [c for c in A.calls(fi.node, nested=True) if isinstance(c.func, ast.Attribute) and c.func.attr == "append" and len(c.args) == 1]
        elts = [c.args[0] for c in apps]
        for e in elts:
            ex = ast.parse(A.expanded(repo.owner(e).node if repo.owner(e) is not None else fi.node, e), mode="eval").body
            if "state[" not in ast.unparse(ex) and "state[" not in ast.unparse(e):
                continue  # not an element taken from the optimizer state (a size, a byte count, …)
            n += 1
            ok = isinstance(ex, ast.Call) and isinstance(ex.func, ast.Attribute) and ex.func.attr == "get_tensor" and len(ex.args) + len(ex.keywords) == 1
            rep.ob(rule, f"working-list-holds-local-tensor:{short(q)}", ok, fi.loc(e), f"the {what} working list receives `{ast.unparse(ex)[:80]}`; documented: block_info.get_tensor(<the state entry>)", sample=True)
    rep.floor(rule, "elements appended to the per-block working lists", n, 3)


def loop_var_leak(ctx, rep, rule: str, funcs: list[str]) -> None:
    """No use of a for-loop target variable after its loop (it would silently refer to the last iteration only)."""
    repo = ctx.repo
    for q in funcs:
        fi = repo.func(q)
        n_loops = 0
        for loop in [n for n in A.walk_no_nested(fi.node) if isinstance(n, ast.For)]:
            n_loops += 1
            targets = {n.id for n in ast.walk(loop.target) if isinstance(n, ast.Name)}
            inside = {id(n) for n in ast.walk(loop)}
            end = getattr(loop, "end_lineno", loop.lineno)
            rebound: set[str] = set()
            leaks = []
            for n in A.walk_no_nested(fi.node):
                if id(n) in inside or getattr(n, "lineno", 0) <= end:
                    continue
                if isinstance(n, ast.Name) and n.id in targets:
                    if isinstance(n.ctx, ast.Store):
                        rebound.add(n.id)
                    elif n.id not in rebound:
                        leaks.append(n)
            # names re-bound by a later loop over the same names are fine: only flag loads before any rebinding, by line order
            real = []
            for n in leaks:
                later_bind = [
                    b for b in A.walk_no_nested(fi.node)
                    if isinstance(b, ast.Name) and b.id == n.id and isinstance(b.ctx, ast.Store) and id(b) not in inside and end < getattr(b, "lineno", 0) <= n.lineno
                ]  # fmt: skip
                if not later_bind:
                    real.append(n)
            rep.ob(
                rule,
                f"loopvar:{short(q)}:{'/'.join(sorted(targets))}",
                not real,
                fi.loc(loop),
                ("loop variable(s) " + ", ".join(sorted({n.id for n in real})) + f" used after the loop at line(s) {sorted({n.lineno for n in real})}: only the last group/block would be affected") if real else "loop variables are not used after the loop",
                nontrivial=True,
            )
        rep.floor(rule, f"{short(q)} loops", n_loops, 1)


def per_group_fresh(ctx, rep, rule: str, funcs: list[str], floor: int | None = None) -> None:
    """What a per-group / per-block loop stores into optimizer state must be created inside that iteration: a mutable object
    (tensor, list, preconditioner) created once before the loop and stored by every iteration is shared — an in-place
    update for one group would change every group's copy (e.g. one step counter advanced once per group per step)."""
    repo = ctx.repo
    n = 0
    for q in funcs:
        fi = repo.func(q)
        m = fi.module
        for loop in [x for x in A.walk_no_nested(fi.node) if isinstance(x, ast.For)]:
            inside = {id(x) for x in ast.walk(loop)}
            for st in ast.walk(loop):
                if not (isinstance(st, ast.Assign) and len(st.targets) == 1 and isinstance(st.targets[0], ast.Subscript)):
                    continue
                v = st.value
                shared = []
                for nm in [x for x in ast.walk(v) if isinstance(x, ast.Name) and isinstance(x.ctx, ast.Load)]:
                    # only names that stand for the stored object itself (not callees, not indices of a call)
                    par = A.parents(st)
                    p = par.get(id(nm))
                    if isinstance(p, ast.Call) and p.func is nm:
                        continue
                    in_call_args = False
                    q2 = nm
                    while id(q2) in par and par[id(q2)] is not st:
                        q2 = par[id(q2)]
                        if isinstance(q2, ast.Call):
                            in_call_args = True
                    if in_call_args:
                        continue  # argument of a call evaluated per iteration: the call's result is per iteration
                    defs = [d for d in A.walk_no_nested(fi.node) if isinstance(d, (ast.Assign, ast.AnnAssign)) and any(isinstance(t, ast.Name) and t.id == nm.id for t in (d.targets if isinstance(d, ast.Assign) else [d.target]))]
                    outside = [d for d in defs if id(d) not in inside and d.value is not None and not isinstance(d.value, ast.Constant)]
                    if outside and not any(id(d) in inside for d in defs):
                        from ..canon import _is_pure

                        if not _is_pure(outside[0].value) or isinstance(outside[0].value, (ast.Tuple,)):
                            shared.append((nm.id, outside[0]))
                n += 1
                rep.ob(rule, f"per-iteration-fresh:{short(q)}:{ast.unparse(st.targets[0])[:50]}", not shared, fi.loc(st), f"`{ast.unparse(st)[:90]}` inside the loop stores an object created in this iteration" + (f"; `{shared[0][0]}` is created once before the loop (line {shared[0][1].lineno}) and stored by every iteration: all groups share one mutable object" if shared else ""), sample=(n % 4 == 0))
    rep.floor(rule, "subscript stores inside per-group loops", n, floor if floor is not None else min(5, len(funcs)))


def hyperparameters_from_group(ctx, rep, rule: str) -> None:
    """After construction every hyperparameter is read from the parameter group it applies to (`group[KEY]`): the
    constructor-level `self.defaults` are what a group starts from, not what it uses — a group that overrides a value
    (its own preconditioner config, tolerance, betas ...) must get its own."""
    repo = ctx.repo
    ds = repo.cls(DS)
    reads = []
    n = 0
    for fi in ds.methods.values():
        n += 1
        if fi.name == "__init__":
            continue
        for x in ast.walk(fi.node):
            if isinstance(x, ast.Attribute) and x.attr == "defaults" and isinstance(x.value, ast.Name) and x.value.id == "self" and isinstance(x.ctx, ast.Load):
                reads.append((fi, x))
    rep.floor(rule, "DistributedShampoo methods scanned for self.defaults", n, 20)
    rep.ob(rule, "hyperparameters-read-from-the-group", not reads, reads[0][0].loc(reads[0][1]) if reads else ds.module.relpath, "no method of DistributedShampoo other than __init__ reads `self.defaults`" + (f"; {short(reads[0][0].qual)} does: a parameter group overriding that value is given the constructor-level one" if reads else ""), sample=True)


def utility_semantics(ctx, rep, rule: str, which: tuple[str, ...] = ("merge_small_dims", "compress_list", "generate_pairwise_indices", "get_dtype_size")) -> None:
    """The small pure utilities everything else is built on, interpreted on concrete cases (they are pure functions of
    ints / tuples, so the interpretation is exact): merge_small_dims, compress_list, generate_pairwise_indices, get_dtype_size."""
    import itertools
    import math
    from types import SimpleNamespace

    from ..guards import Interp, Raised, Returned, Unsupported

    repo = ctx.repo
    UT = "distributed_shampoo.utils.shampoo_utils"

    def call(fi, env, resolve=None, hook=None):
        body = [s for s in fi.node.body if not (isinstance(s, ast.Expr) and isinstance(s.value, ast.Constant))]
        try:
            Interp(dict(env), resolve_name=resolve, call_hook=hook).run(body, lambda e: ast.unparse(e))
        except Returned as r:
            v = r.value
            return tuple(v) if isinstance(v, (list, tuple)) else v
        except Raised as r:
            return f"raise {r.exc_name}"
        except Unsupported as u:
            raise AnalysisError(f"{rule}: {fi.name} outside the integer sub-language: {u}") from u
        return None

    if "merge_small_dims" in which:
        fi = repo.func(f"{UT}:merge_small_dims")
        p = fi.params

        def oracle(shape, th):
            sq = [d for d in shape if d != 1] or [1]
            out = [sq[0]]
            for d in sq[1:]:
                if out[-1] * d <= th:
                    out[-1] *= d
                else:
                    out.append(d)
            return tuple(out)

        bad, n = [], 0
        for k in range(0, 5):
            for shape in itertools.product([1, 2, 3, 5], repeat=k):
                for th in (1, 2, 4, 6, 10, 30):
                    if not shape:
                        continue
                    n += 1
                    got = call(fi, {p[0]: shape, p[1]: th})
                    if got != oracle(shape, th):
                        bad.append((shape, th, got, oracle(shape, th)))
        rep.ob(rule, "utility:merge_small_dims", not bad, fi.loc(), f"{n} (shape, threshold) cases: size-1 dims dropped (all-ones -> (1,)); left to right, the next dim is fused into the last merged dim iff the product stays <= threshold" + (f"; first disagreement: shape={bad[0][0]}, threshold={bad[0][1]}: code {bad[0][2]}, documented {bad[0][3]}" if bad else ""), sample=True)
    if "compress_list" in which:
        fi = repo.func(f"{UT}:compress_list")
        p = fi.params
        bad, n = [], 0
        for k in range(0, 4):
            for sel in itertools.product([True, False], repeat=k):
                items = tuple(f"x{i}" for i in range(k))
                n += 1
                got = call(fi, {p[0]: items, p[1]: sel})
                want = tuple(x for x, s_ in zip(items, sel) if s_)
                if got != want:
                    bad.append((items, sel, got, want))
        for a, b in ((2, 1), (1, 2), (0, 1), (3, 2)):
            n += 1
            got = call(fi, {p[0]: tuple(range(a)), p[1]: (True,) * b})
            if not (isinstance(got, str) and got.startswith("raise")):
                bad.append((a, b, got, "raise (length mismatch)"))
        rep.ob(rule, "utility:compress_list", not bad, fi.loc(), f"{n} cases: the selected items in order; a selector of another length is rejected (never truncated)" + (f"; first disagreement: {bad[0]}" if bad else ""), sample=True)
    if "generate_pairwise_indices" in which:
        fi = repo.func(f"{UT}:generate_pairwise_indices")
        p = fi.params
        bad, n = [], 0
        for k in range(0, 4):
            for xs in itertools.product([0, 1, 2, 3], repeat=k):
                n += 1
                got = call(fi, {p[0]: xs})
                acc = [0]
                for x in xs:
                    acc.append(acc[-1] + x)
                want = tuple(zip(acc, acc[1:]))
                if got is None or tuple(got) != want:
                    bad.append((xs, got, want))
        rep.ob(rule, "utility:generate_pairwise_indices", not bad, fi.loc(), f"{n} cases: consecutive (start, end) pairs of the running sums starting at 0 — one pair per entry" + (f"; first disagreement: {bad[0]}" if bad else ""), sample=True)
    if "get_dtype_size" in which:
        fi = repo.func(f"{UT}:get_dtype_size")
        p = fi.params
        BOOL = SimpleNamespace(is_floating_point=False, name="bool")
        torch_ns = SimpleNamespace(bool=BOOL, finfo=lambda d: SimpleNamespace(bits=d.bits), iinfo=lambda d: SimpleNamespace(bits=d.bits))

        def hook(interp, c):
            from ..guards import MISSING

            f = c.func
            if isinstance(f, ast.Attribute) and isinstance(f.value, ast.Name) and f.value.id == "torch" and f.attr in ("finfo", "iinfo"):
                return SimpleNamespace(bits=interp.ev(c.args[0]).bits)
            if isinstance(f, ast.IfExp):  # (torch.finfo if dtype.is_floating_point else torch.iinfo)(dtype)
                return SimpleNamespace(bits=interp.ev(c.args[0]).bits)
            return MISSING

        bad, n = [], 0
        cases = [(BOOL, 1)] + [(SimpleNamespace(is_floating_point=fl, bits=b), math.ceil(b / 8)) for fl in (True, False) for b in (8, 16, 32, 64, 4, 12)]
        for d, want in cases:
            n += 1
            got = call(fi, {p[0]: d}, resolve=lambda nm: torch_ns if nm == "torch" else (_ for _ in ()).throw(Unsupported(nm)), hook=hook)
            if got != want:
                bad.append((getattr(d, "bits", "bool"), got, want))
        rep.ob(rule, "utility:get_dtype_size", not bad, fi.loc(), f"{n} dtypes: bool -> 1 byte, otherwise ceil(bits / 8) bytes (float and integer types)" + (f"; first disagreement: bits={bad[0][0]}: code {bad[0][1]}, documented {bad[0][2]}" if bad else ""), sample=True)


def cached_functions_are_functions_of_their_key(ctx, rep, rule: str) -> None:
    """A memoised function (functools.cache / lru_cache) must be a function of its arguments: every parameter is used in the
    result, and nothing else (an attribute of self, a mutable global, another argument smuggled through a closure) feeds it —
    otherwise two calls with the same key but different circumstances share one result."""
    repo = ctx.repo
    n = 0
    for fi in repo.funcs.values():
        decos = {d.split(".")[-1] for d in fi.decorators}
        if not decos & {"cache", "lru_cache", "cached_property"}:
            continue
        n += 1
        params = [p for p in fi.params]
        used = {x.id for x in ast.walk(fi.node) if isinstance(x, ast.Name) and isinstance(x.ctx, ast.Load)}
        unused = [p for p in params if p not in used and p not in ("self", "cls")]
        m = fi.module
        free = {x for x in used if x not in params and x not in {y.id for y in ast.walk(fi.node) if isinstance(y, ast.Name) and isinstance(y.ctx, ast.Store)}}
        # free names must be imports, classes, functions or constants of the module (or builtins)
        import builtins

        foreign = sorted(x for x in free if not (x in m.imports or x in m.classes or x in m.functions or x in m.constants or hasattr(builtins, x)))
        method = fi.cls is not None and not fi.is_static
        rep.ob(rule, f"cache-key:{short(fi.qual)}", not unused and not foreign and not method, fi.loc(), f"memoised `{fi.name}({', '.join(params)})`: every parameter feeds the result (unused: {unused}); no other input (foreign names: {foreign}; bound method: {method})", sample=True)
    rep.floor(rule, "memoised functions", n, 1)


def memoised_results_are_read_only(ctx, rep, rule: str) -> None:
    """The object a memoised function returns is shared by every later call with the same key: no call site may write into
    it (in-place tensor method / operator, element store, `out=`), directly or through the local it is bound to."""
    repo = ctx.repo
    cached = {fi.name: fi for fi in repo.funcs.values() if {d.split(".")[-1] for d in fi.decorators} & {"cache", "lru_cache", "cached_property"}}
    rep.floor(rule, "memoised functions", len(cached), 1)
    n_sites = 0
    for fi in repo.funcs.values():
        calls = [c for c in A.calls(fi.node) if (isinstance(c.func, ast.Name) and c.func.id in cached) or (isinstance(c.func, ast.Attribute) and c.func.attr in cached and not c.func.attr.endswith("_"))]
        if not calls:
            continue
        ids = {id(c) for c in calls}
        bound = {t.id for n in ast.walk(fi.node) if isinstance(n, (ast.Assign, ast.AnnAssign)) and n.value is not None and id(n.value) in ids for t in (n.targets if isinstance(n, ast.Assign) else [n.target]) if isinstance(t, ast.Name)}

        def is_shared(e: ast.AST) -> bool:
            return id(e) in ids or (isinstance(e, ast.Name) and e.id in bound)

        bad = []
        for n in ast.walk(fi.node):
            if isinstance(n, ast.Call) and isinstance(n.func, ast.Attribute) and n.func.attr.endswith("_") and not n.func.attr.endswith("__") and is_shared(n.func.value):
                bad.append(n)
            elif isinstance(n, ast.Call) and any(k.arg == "out" and is_shared(k.value) for k in n.keywords):
                bad.append(n)
            elif isinstance(n, ast.AugAssign) and (is_shared(n.target) or (isinstance(n.target, ast.Subscript) and is_shared(n.target.value))):
                bad.append(n)
            elif isinstance(n, ast.Assign) and any(isinstance(t, ast.Subscript) and is_shared(t.value) for t in n.targets):
                bad.append(n)
        n_sites += len(calls)
        rep.ob(rule, f"memoised-result-read-only:{short(fi.qual)}", not bad, fi.loc(bad[0]) if bad else fi.loc(calls[0]), f"`{fi.name}` uses the result of memoised {sorted({(c.func.id if isinstance(c.func, ast.Name) else c.func.attr) for c in calls})}" + (f" and writes into it at line {bad[0].lineno} (`{ast.unparse(bad[0])[:90]}`): the next call with the same key receives the modified object" if bad else " without writing into it"), sample=True)
    rep.floor(rule, "call sites of memoised functions", n_sites, 1)


def late_binding_closures(ctx, rep, rule: str, modules: tuple[str, ...] = ("distributed_shampoo",)) -> None:
    """A lambda / nested function created inside a loop or comprehension and kept for later (stored in an object, a list, a
    dict, returned) must not read the loop variable as a free variable: Python binds it late, so every kept closure would see
    the value of the last iteration (e.g. every block allocating its state on the last block's owner)."""
    repo = ctx.repo
    n = 0
    consumers = {"sorted", "min", "max", "filter", "map", "reduce", "sum", "any", "all", "tuple", "list", "next"}
    for fi in repo.funcs.values():
        if not fi.module.name.startswith(modules) or fi.parent is not None:
            continue
        par = A.parents(fi.node)
        for lam in [x for x in ast.walk(fi.node) if isinstance(x, (ast.Lambda, ast.FunctionDef, ast.AsyncFunctionDef)) and x is not fi.node]:
            own = set()
            a = lam.args
            own |= {y.arg for y in a.posonlyargs + a.args + a.kwonlyargs} | ({a.vararg.arg} if a.vararg else set()) | ({a.kwarg.arg} if a.kwarg else set())
            body_nodes = list(ast.walk(lam.body)) if isinstance(lam, ast.Lambda) else [y for st in lam.body for y in ast.walk(st)]
            own |= {y.id for y in body_nodes if isinstance(y, ast.Name) and isinstance(y.ctx, ast.Store)}
            free = {y.id for y in body_nodes if isinstance(y, ast.Name) and isinstance(y.ctx, ast.Load)} - own
            # enclosing loops / comprehensions and their variables
            loopvars: set[str] = set()
            x = lam
            immediate = False
            first = True
            while id(x) in par:
                p = par[id(x)]
                if first and isinstance(p, ast.Call) and ((isinstance(p.func, ast.Name) and p.func.id in consumers) or p.func is x):
                    immediate = True  # consumed by the call it is an argument of
                if first and isinstance(p, ast.keyword):
                    pp = par.get(id(p))
                    if isinstance(pp, ast.Call) and isinstance(pp.func, ast.Name) and pp.func.id in consumers:
                        immediate = True
                first = False
                if isinstance(p, (ast.For, ast.AsyncFor)) and any(x is s_ or any(x is y for y in ast.walk(s_)) for s_ in p.body):
                    loopvars |= {y.id for y in ast.walk(p.target) if isinstance(y, ast.Name)}
                if isinstance(p, (ast.ListComp, ast.SetComp, ast.DictComp, ast.GeneratorExp)):
                    loopvars |= {y.id for g in p.generators for y in ast.walk(g.target) if isinstance(y, ast.Name)}
                x = p
            if not loopvars:
                continue
            n += 1
            captured = sorted(free & loopvars)
            # a default argument `x=x` binds early
            rep.ob(rule, f"late-binding:{short(fi.qual)}:{getattr(lam, 'name', 'lambda')}@{'/'.join(sorted(loopvars))[:40]}", immediate or not captured, fi.loc(lam), f"closure created per iteration over ({', '.join(sorted(loopvars))})" + (f" reads the loop variable(s) {captured} late: kept closures all see the last iteration's value (bind them with functools.partial or a default argument)" if captured and not immediate else ": binds nothing of the loop late"), sample=(n % 3 == 0))
    rep.notes["closures created inside loops examined"] = n
