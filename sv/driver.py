"""E10 — driver: `python -m sv check <Cxx> [--tier quick|thorough] [--repo /repo]`.

Exit codes: 0 = every obligation discharged (known findings printed as KNOWN-FINDING);
1 = at least one unlisted violation (one `VIOLATION property=<id> replay=<path>` line each);
2 = the analysis itself could not be carried out (`ANALYSIS-ERROR ...`).
"""

from __future__ import annotations

import argparse
import importlib
import json
import os
import sys
import time
import traceback

from .loader import AnalysisError, Repo
from .report import Report

VERIF = os.path.dirname(os.path.dirname(os.path.abspath(__file__)))
EVIDENCE_DIR = os.environ.get("SV_EVIDENCE_DIR") or os.path.join(VERIF, "evidence")
REPLAY_DIR = os.path.join(EVIDENCE_DIR, "replays")
KNOWN = os.path.join(VERIF, "known_findings.json")

CLAIMED = ["C01", "C02", "C03", "C04", "C05", "C06", "C07", "C08", "C09", "C10", "C11", "C12", "C13", "C14", "C15", "C16", "C17"]


class Context:
    """Lazily built shared engines for one run."""

    def __init__(self, repo_root: str, tier: str) -> None:
        self.repo = Repo(repo_root)
        self.tier = tier
        self._cache: dict[str, object] = {}

    def engine(self, name: str):
        if name not in self._cache:
            if name == "pts":
                from .pointsto import PointsTo

                self._cache[name] = PointsTo(self.repo, k=2 if self.tier == "thorough" else 1).solve()
            elif name == "spaces":
                from .spaces import Spaces

                self._cache[name] = Spaces(self.repo)
            else:
                raise KeyError(name)
        return self._cache[name]


def load_known() -> list[dict]:
    if not os.path.exists(KNOWN):
        return []
    with open(KNOWN, encoding="utf-8") as fh:
        data = json.load(fh)
    return [e for e in data.get("findings", []) if e.get("status", "known") == "known"]


def run_property(prop: str, repo_root: str, tier: str, only_key: str | None = None) -> int:
    t0 = time.time()
    seed = int(os.environ.get("VERIF_SEED", "0") or 0)
    os.makedirs(REPLAY_DIR, exist_ok=True)
    evidence_path = os.path.join(EVIDENCE_DIR, f"{prop}.json")
    try:
        if prop not in CLAIMED:
            raise AnalysisError(f"property {prop} is not claimed by this framework (see MANIFEST.not_applicable)")
        ctx = Context(repo_root, tier)
        mod = importlib.import_module(f"sv.rules.{prop.lower()}")
        rep = Report(prop)
        mod.run(ctx, rep)
        selftest = None
        if tier == "thorough" and only_key is None:
            from .selftest import run_selftest

            selftest = run_selftest(prop, repo_root)
    except AnalysisError as e:
        print(f"ANALYSIS-ERROR property={prop} {e}")
        return 2
    except Exception as e:  # never let a traceback look like a violation
        traceback.print_exc()
        print(f"ANALYSIS-ERROR property={prop} internal error: {type(e).__name__}: {e}")
        return 2

    ff = rep.floor_failures()
    for e in rep.errors:
        ff.append(("-", e, 0, 1))
    has_unlisted = any((not ob.ok) and (ob.rule, ob.key) not in {(k["rule"], k["key"]) for k in load_known() if k["property"] == prop} for ob in rep.obligations)
    if ff and not has_unlisted:
        for rule, anchor, matched, minimum in ff:
            if rule == "-":
                print(f"ANALYSIS-ERROR property={prop} {anchor}")
            else:
                print(f"ANALYSIS-ERROR property={prop} rule {rule}: anchor {anchor} contributed {matched} instance(s), floor is {minimum} (rule would pass vacuously)")
        return 2
    for rule, anchor, matched, minimum in ff:
        print(f"NOTE rule {rule}: {anchor}" + ("" if rule == "-" else f" contributed {matched} instance(s), floor is {minimum}"))

    known = [k for k in load_known() if k["property"] == prop]
    known_keys = {(k["rule"], k["key"]): k for k in known}
    violations, known_hits = [], []
    for ob in rep.obligations:
        if ob.ok:
            continue
        if only_key is not None and ob.key != only_key:
            continue
        if (ob.rule, ob.key) in known_keys:
            known_hits.append(ob)
        else:
            violations.append(ob)

    print(f"== {prop} [{tier}] rules: " + "; ".join(f"{r}" for r in rep.rules))
    per_rule: dict[str, list[int]] = {}
    for ob in rep.obligations:
        a = per_rule.setdefault(ob.rule, [0, 0])
        a[0] += 1
        a[1] += ob.ok
    for r in sorted(per_rule):
        print(f"   {r}: {per_rule[r][1]}/{per_rule[r][0]} obligations discharged — {rep.rules.get(r, '')}")
    seen_known = set()
    for ob in known_hits:
        if (ob.rule, ob.key) in seen_known:
            continue
        seen_known.add((ob.rule, ob.key))
        print(f"KNOWN-FINDING: property={prop} {known_keys[(ob.rule, ob.key)]['what']} [{ob.rule} {ob.key} at {ob.where}]")

    replay_paths = []
    uniq: dict[tuple[str, str], list] = {}
    for ob in violations:
        uniq.setdefault((ob.rule, ob.key), []).append(ob)
    violations = [v[0] for v in uniq.values()]
    for ob in violations:
        n_same = len(uniq[(ob.rule, ob.key)])
        if n_same > 1:
            ob.detail += f"  (+{n_same - 1} more instance(s) with the same finding key)"
    for i, ob in enumerate(violations):
        path = os.path.join(REPLAY_DIR, f"{prop}-{i}.json")
        with open(path, "w", encoding="utf-8") as fh:
            json.dump({"property": prop, "rule": ob.rule, "key": ob.key, "where": ob.where, "detail": ob.detail, "tier": tier}, fh, indent=1)
        replay_paths.append(path)
        print(f"[{ob.rule}] {ob.where}: {ob.key}\n      {ob.detail}")
        print(f"VIOLATION property={prop} replay={path}")

    n_ob = len(rep.obligations)
    distinct = len({(o.rule, o.key) for o in rep.obligations if o.nontrivial})
    st = ctx.repo.stats()
    coverage = {
        "explanation": " | ".join(f"{r}: {t}" for r, t in rep.rules.items()),
        "obligations": n_ob,
        "discharged": sum(o.ok for o in rep.obligations),
        "known_findings": len(seen_known),
        "evaluations": n_ob,
        "distinct_nontrivial": distinct,
        "rule": "one obligation per rule instance (write site, call site, list combination, dispatch arm, guard region, path query ...) enumerated from the current tree; non-trivial = the instance has a non-empty fact set; distinct = distinct (rule, construct) keys",
        "samples": rep.samples[:40] if rep.samples else [{"note": "no instance sampled"}],
        "units": st,
        "per_rule": {r: {"instances": v[0], "discharged": v[1]} for r, v in per_rule.items()},
        "floors": [{"rule": r, "anchor": a, "matched": m, "floor": f} for r, a, m, f in rep.floors],
        "notes": rep.notes,
        "tree_digest": ctx.repo.digest()[:16],
        "exhaustive": True,
    }
    if selftest is not None:
        coverage["selftest"] = selftest
    ev = {
        "property_id": prop,
        "tier": tier,
        "seed": seed,
        "level": "other",
        "coverage": coverage,
        "assumptions": rep.assumptions,
        "wall_s": round(time.time() - t0, 3),
        "violations": len(violations),
    }
    if only_key is None:  # a replay re-derives one finding; it does not replace the property's evidence
        tmp = evidence_path + ".tmp"
        with open(tmp, "w", encoding="utf-8") as fh:
            json.dump(ev, fh, indent=1, default=str)
        os.replace(tmp, evidence_path)
    print(f"== {prop}: {n_ob} obligations, {coverage['discharged']} discharged, {len(seen_known)} known finding(s), {len(violations)} violation(s); {st['modules']} modules / {st['functions']} functions analysed; {ev['wall_s']} s")
    if selftest is not None and selftest.get("anomalies"):
        for a in selftest["anomalies"]:
            print(f"SELFTEST-ANOMALY {a}")
        if selftest.get("calibrated") and not violations:
            print(f"ANALYSIS-ERROR property={prop} self-test anomalies on the calibrated tree")
            return 2
    return 1 if violations else 0


def main(argv: list[str] | None = None) -> int:
    ap = argparse.ArgumentParser(prog="sv")
    sub = ap.add_subparsers(dest="cmd", required=True)
    c = sub.add_parser("check")
    c.add_argument("prop")
    c.add_argument("--tier", default=os.environ.get("VERIF_TIER", "quick"), choices=["quick", "thorough"])
    c.add_argument("--repo", default="/repo")
    r = sub.add_parser("replay")
    r.add_argument("path")
    r.add_argument("--repo", default="/repo")
    s = sub.add_parser("setup")
    a = sub.add_parser("all")
    a.add_argument("--tier", default="quick")
    a.add_argument("--repo", default="/repo")
    cal = sub.add_parser("calibrate")
    cal.add_argument("--repo", default="/repo")
    st = sub.add_parser("selftest")
    st.add_argument("prop", nargs="?")
    st.add_argument("--repo", default="/repo")
    args = ap.parse_args(argv)
    if args.cmd == "check":
        return run_property(args.prop.upper(), args.repo, args.tier)
    if args.cmd == "replay":
        with open(args.path, encoding="utf-8") as fh:
            rp = json.load(fh)
        return run_property(rp["property"], args.repo, rp.get("tier", "quick"), only_key=rp["key"])
    if args.cmd == "setup":
        import compileall

        ok = compileall.compile_dir(os.path.dirname(__file__), quiet=1)
        os.makedirs(REPLAY_DIR, exist_ok=True)
        print("sv setup ok" if ok else "sv setup failed")
        return 0 if ok else 2
    if args.cmd == "all":
        worst = 0
        for p in CLAIMED:
            worst = max(worst, run_property(p, args.repo, args.tier))
        return worst
    if args.cmd == "calibrate":
        from .selftest import CALIB

        d = Repo(args.repo).digest()
        with open(CALIB, "w") as fh:
            json.dump({"tree_digest": d, "note": "digest of the 22 analysed modules for which the self-test variants are calibrated"}, fh, indent=1)
        print("calibrated for tree", d[:16])
        return 0
    if args.cmd == "selftest":
        from .selftest import run_selftest

        props = [args.prop.upper()] if args.prop else CLAIMED
        bad = 0
        for p in props:
            res = run_selftest(p, args.repo)
            print(json.dumps({p: {k: v for k, v in res.items() if k != "details"}}, indent=1))
            for a in res.get("anomalies", []):
                print("SELFTEST-ANOMALY", a)
                bad = 1
        return bad
    return 2


if __name__ == "__main__":
    sys.exit(main())
