"""Both-ways self-test of the checkers (thorough tier and `python -m sv selftest`).

Variants are patches against the analysed tree:
  * breaking  — /verif/seeded/<id>/patch.diff (mutations written by independent agents and confirmed to break the
                property while passing the pinned suite) and /verif/selftest/breaking/*.diff (reverts of the repaired
                defects, own variants); each lists in its meta the properties whose check must report it;
  * equivalent — /verif/selftest/equiv/*.diff: behaviour-preserving refactors on which every check must stay silent.
Each variant is applied to a scratch copy of the analysed files (mktemp, outside /repo and /verif, removed afterwards)
and the property's quick check is run on the copy in a subprocess with its evidence redirected to the scratch dir.
A variant whose patch no longer applies (because /repo was edited) is *skipped*, never failed.  Anomalies
(breaking variant not reported = MISS, equivalent variant reported = FALSE-ALARM) are checker defects: they are
printed as SELFTEST-ANOMALY and turn into exit 2 only on the calibrated tree (digest recorded in sv/calibration.json).
"""

from __future__ import annotations

import glob
import json
import os
import shutil
import subprocess
import sys
import tempfile
from concurrent.futures import ThreadPoolExecutor

from .loader import Repo

VERIF = os.path.dirname(os.path.dirname(os.path.abspath(__file__)))
CALIB = os.path.join(VERIF, "sv", "calibration.json")


def variants_for(prop: str) -> list[dict]:
    out = []
    for meta_path in sorted(glob.glob(os.path.join(VERIF, "seeded", "*", "meta.json")) + glob.glob(os.path.join(VERIF, "selftest", "breaking", "*.json"))):
        with open(meta_path) as fh:
            meta = json.load(fh)
        patch = meta_path[:-5] + ".diff" if meta_path.endswith(".json") and not meta_path.endswith("meta.json") else os.path.join(os.path.dirname(meta_path), "patch.diff")
        if prop in meta.get("expected_detection", []):
            out.append({"name": os.path.relpath(patch, VERIF), "patch": patch, "kind": "breaking", "why": meta.get("summary", "")})
    for patch in sorted(glob.glob(os.path.join(VERIF, "selftest", "equiv", "*.diff"))):
        out.append({"name": os.path.relpath(patch, VERIF), "patch": patch, "kind": "equivalent", "why": ""})
    from .mech import TRANSFORMS

    for t in TRANSFORMS:  # whole-repository mechanical refactorings, generated from the current tree
        out.append({"name": f"mech:{t}", "mech": t, "kind": "equivalent", "why": "mechanical behaviour-preserving rewrite of every module"})
    return out


_MODULE_FILES: dict[str, list[tuple[str, str]]] = {}


def _copy_tree(repo_root: str, dst: str) -> None:
    if repo_root not in _MODULE_FILES:  # discovering the unit set once (threads share it; no canonicalisation needed here)
        _MODULE_FILES[repo_root] = [(m.relpath, m.path) for m in Repo(repo_root, canonical=False).modules.values()]
    shutil.copy(os.path.join(repo_root, "pyproject.toml"), os.path.join(dst, "pyproject.toml"))
    for relpath, path in _MODULE_FILES[repo_root]:
        p = os.path.join(dst, relpath)
        os.makedirs(os.path.dirname(p), exist_ok=True)
        shutil.copy(path, p)


def _run_variant(prop: str, repo_root: str, v: dict) -> dict:
    tmp = tempfile.mkdtemp(prefix="sv-selftest-")
    try:
        _copy_tree(repo_root, tmp)
        if v.get("mech"):
            from .mech import rewrite_tree

            try:
                rewrite_tree(v["mech"], repo_root, tmp)
            except Exception as e:  # the transform itself could not be applied to this tree: nothing to test
                return {**v, "status": "skipped", "detail": f"mechanical transform not applicable: {type(e).__name__}: {e}"}
        else:
            ap = subprocess.run(["git", "apply", "--unsafe-paths", f"--directory={tmp}", v["patch"]], cwd=tmp, capture_output=True, text=True)
            if ap.returncode != 0:
                # try from inside the directory (relative paths)
                ap = subprocess.run(["git", "apply", v["patch"]], cwd=tmp, capture_output=True, text=True)
            if ap.returncode != 0:
                return {**v, "status": "skipped", "detail": "patch does not apply to the current tree"}
        env = dict(os.environ, SV_EVIDENCE_DIR=os.path.join(tmp, "_evidence"))
        r = subprocess.run([sys.executable, "-m", "sv", "check", prop, "--tier", "quick", "--repo", tmp], cwd=VERIF, capture_output=True, text=True, env=env, timeout=600)
        keys = [l.split("] ", 1)[1].strip() if "] " in l else l for l in r.stdout.splitlines() if l.startswith("[C")]
        want = 1 if v["kind"] == "breaking" else 0
        status = "ok" if r.returncode == want else ("MISS" if v["kind"] == "breaking" else "FALSE-ALARM")
        if r.returncode == 2:
            status = "ANALYSIS-ERROR"
        return {**v, "status": status, "exit": r.returncode, "reported": keys[:4], "detail": (r.stdout[-300:] if status != "ok" else "")}
    finally:
        shutil.rmtree(tmp, ignore_errors=True)


def run_selftest(prop: str, repo_root: str) -> dict:
    vs = variants_for(prop)
    with ThreadPoolExecutor(max_workers=min(12, max(1, len(vs)))) as ex:
        results = list(ex.map(lambda v: _run_variant(prop, repo_root, v), vs))
    calibrated = False
    try:
        with open(CALIB) as fh:
            calibrated = json.load(fh).get("tree_digest") == Repo(repo_root).digest()
    except (OSError, ValueError):
        pass
    anomalies = [f"{r['status']} property={prop} variant={r['name']} ({r.get('why', '')[:80]})" for r in results if r["status"] in ("MISS", "FALSE-ALARM", "ANALYSIS-ERROR")]
    return {
        "variants": len(results),
        "breaking_reported": sum(1 for r in results if r["kind"] == "breaking" and r["status"] == "ok"),
        "breaking_total": sum(1 for r in results if r["kind"] == "breaking" and r["status"] != "skipped"),
        "equivalent_silent": sum(1 for r in results if r["kind"] == "equivalent" and r["status"] == "ok"),
        "equivalent_total": sum(1 for r in results if r["kind"] == "equivalent" and r["status"] != "skipped"),
        "skipped": sum(1 for r in results if r["status"] == "skipped"),
        "calibrated": calibrated,
        "anomalies": anomalies,
        "details": [{k: r[k] for k in ("name", "kind", "status", "reported") if k in r} for r in results],
    }
