"""E6 — guard interpreter.

A tiny, closed interpreter for the *validation sub-language* the repository uses (comparison chains, BoolOp,
`not`, arithmetic, subscripts, attribute reads, `isinstance(x, Sequence)`, `all/any(<genexpr>)`, `len`, `set`;
statements: if/elif/else, raise, assignment to a local or to `self.<field>`, bare expression statements).
It is applied to region representatives: every predicate in that language is a Boolean combination of
order comparisons against the constants that occur in the code, so its value is uniform on each region of
the partition those constants induce (NaN is its own region) — evaluating one representative per region is
the exact abstract semantics.  Anything outside the sub-language raises Unsupported (=> ANALYSIS-ERROR).

No repository code is executed: the interpreter walks the AST itself.
"""

from __future__ import annotations

import ast
import math
from collections.abc import Sequence
from types import SimpleNamespace
from typing import Any, Callable


_TYPE_BUILTINS = {"list": list, "tuple": tuple, "int": int, "float": float, "bool": bool, "str": str, "dict": dict, "set": set, "frozenset": frozenset}


def _it_pairwise(xs):
    xs = list(xs)
    return tuple(zip(xs, xs[1:]))


def _it_accumulate(xs, func=None, initial=None):
    import itertools

    return tuple(itertools.accumulate(xs, func, initial=initial)) if func is not None or initial is not None else tuple(itertools.accumulate(xs))


_PURE_BUILTINS = {"compress": lambda d, s_: tuple(x for x, k in zip(d, s_) if k), "pairwise": _it_pairwise, "accumulate": _it_accumulate, "chain": lambda *a: tuple(x for it_ in a for x in it_), "filter": lambda f, xs: tuple(x for x in xs if (f(x) if f is not None else x)), "map": lambda f, *xs: tuple(map(f, *xs)), "reduce": __import__("functools").reduce, "prod": __import__("math").prod, "ceil": __import__("math").ceil, "floor": __import__("math").floor, "dict": dict, "enumerate": lambda *a, **k: tuple(enumerate(*a, **k)), "range": lambda *a: tuple(range(*a)), "zip": lambda *a, **k: tuple(zip(*a, **k)), "sum": sum, "reversed": lambda x: tuple(reversed(x)), "str": str, "frozenset": frozenset, "islice": lambda *a: tuple(__import__("itertools").islice(*a)), "from_iterable": lambda xs: tuple(y for x in xs for y in x), "zip_longest": lambda *a, **k: tuple(__import__("itertools").zip_longest(*a, **k)), "starmap": lambda f, xs: tuple(f(*x) for x in xs), "product": lambda *a, **k: tuple(__import__("itertools").product(*a, **k)), "repeat": lambda x, n: (x,) * n, "divmod": divmod, "round": round, "hasattr": hasattr, "callable": callable, "getattr": getattr, "issubclass": issubclass, "iter": iter, "next": next}
_PURE_METHODS = {"get", "items", "values", "keys", "index", "count", "copy", "append", "extend", "insert", "pop", "setdefault", "join", "sort", "reverse", "split", "startswith", "endswith", "strip", "format", "update", "add", "union", "issubset", "remove", "discard"}  # on concrete containers of the case (local to the simulation)


class Unsupported(Exception):
    pass


class _Continue(Exception):
    pass


class _Break(Exception):
    pass


class Returned(Exception):
    def __init__(self, value: Any) -> None:
        super().__init__("return")
        self.value = value


class Raised(Exception):
    def __init__(self, exc_name: str, node: ast.AST) -> None:
        super().__init__(exc_name)
        self.exc_name = exc_name
        self.node = node


_CMP = {
    ast.Lt: lambda a, b: a < b,
    ast.LtE: lambda a, b: a <= b,
    ast.Gt: lambda a, b: a > b,
    ast.GtE: lambda a, b: a >= b,
    ast.Eq: lambda a, b: a == b,
    ast.NotEq: lambda a, b: a != b,
    ast.Is: lambda a, b: a is b,
    ast.IsNot: lambda a, b: a is not b,
    ast.In: lambda a, b: a in b,
    ast.NotIn: lambda a, b: a not in b,
}
_BIN = {
    ast.Add: lambda a, b: a + b,
    ast.Sub: lambda a, b: a - b,
    ast.Mult: lambda a, b: a * b,
    ast.Mod: lambda a, b: a % b,
    ast.FloorDiv: lambda a, b: a // b,
    ast.Div: lambda a, b: a / b,
    ast.Pow: lambda a, b: a**b,
    ast.BitAnd: lambda a, b: a & b,
    ast.BitOr: lambda a, b: a | b,
    ast.BitXor: lambda a, b: a ^ b,
    ast.LShift: lambda a, b: a << b,
    ast.RShift: lambda a, b: a >> b,
}


class Interp:
    def __init__(self, env: dict[str, Any], resolve_name: Callable[[str], Any] | None = None, call_hook: Callable[["Interp", ast.Call], Any] | None = None) -> None:
        self.env = dict(env)
        self.resolve_name = resolve_name
        self.call_hook = call_hook
        self.trace: list[str] = []

    # ---------------------------------------------------------------- expressions
    def ev(self, e: ast.AST) -> Any:
        if isinstance(e, ast.Constant):
            return e.value
        if isinstance(e, ast.Name):
            if e.id in self.env:
                return self.env[e.id]
            if e.id == "Sequence":
                return Sequence
            if e.id in _TYPE_BUILTINS:  # classes usable as the second argument of isinstance
                return _TYPE_BUILTINS[e.id]
            if e.id in ("True", "False", "None"):
                return {"True": True, "False": False, "None": None}[e.id]
            if self.resolve_name is not None:
                return self.resolve_name(e.id)
            raise Unsupported(f"free name {e.id!r}")
        if isinstance(e, ast.Attribute):
            base = self.ev(e.value)
            if isinstance(base, (SimpleNamespace,)) or hasattr(base, e.attr):
                try:
                    return getattr(base, e.attr)
                except AttributeError as ex:
                    raise Unsupported(f"attribute {e.attr!r} on {base!r}") from ex
            raise Unsupported(f"attribute {e.attr!r}")
        if isinstance(e, ast.Subscript):
            base = self.ev(e.value)
            idx = self.ev(e.slice)
            try:
                return base[idx]
            except (KeyError, IndexError) as ex:  # concrete container, concrete key: Python itself raises here
                raise Raised(type(ex).__name__, e) from ex
            except Exception as ex:
                raise Unsupported(f"subscript {ast.unparse(e)}") from ex
        if isinstance(e, ast.UnaryOp):
            v = self.ev(e.operand)
            if isinstance(e.op, ast.Not):
                return not v
            if isinstance(e.op, ast.USub):
                return -v
            if isinstance(e.op, ast.UAdd):
                return +v
            raise Unsupported("unary op")
        if isinstance(e, ast.BoolOp):
            if isinstance(e.op, ast.And):
                v: Any = True
                for x in e.values:
                    v = self.ev(x)
                    if not v:
                        return v
                return v
            v = False
            for x in e.values:
                v = self.ev(x)
                if v:
                    return v
            return v
        if isinstance(e, ast.Compare):
            left = self.ev(e.left)
            for op, c in zip(e.ops, e.comparators):
                right = self.ev(c)
                fn = _CMP.get(type(op))
                if fn is None:
                    raise Unsupported("comparison op")
                try:
                    if not fn(left, right):
                        return False
                except TypeError as ex:
                    # both operands are concrete values of the case: Python itself raises TypeError here
                    raise Raised("TypeError", e) from ex
                left = right
            return True
        if isinstance(e, ast.BinOp):
            fn = _BIN.get(type(e.op))
            if fn is None:
                raise Unsupported("binary op")
            try:
                return fn(self.ev(e.left), self.ev(e.right))
            except ZeroDivisionError:
                return math.nan
        if isinstance(e, ast.IfExp):
            return self.ev(e.body) if self.ev(e.test) else self.ev(e.orelse)
        if isinstance(e, (ast.Tuple, ast.List)):
            vals = []
            for x in e.elts:
                if isinstance(x, ast.Starred):  # (a, *rest): the elements of `rest` spliced in
                    vals.extend(list(self.ev(x.value)))
                else:
                    vals.append(self.ev(x))
            return tuple(vals) if isinstance(e, ast.Tuple) else vals
        if isinstance(e, ast.Call):
            return self.call(e)
        if isinstance(e, ast.JoinedStr):
            return "<fstring>"
        if isinstance(e, ast.Dict):
            return {self.ev(k): self.ev(v) for k, v in zip(e.keys, e.values)}
        if isinstance(e, (ast.GeneratorExp, ast.ListComp, ast.SetComp, ast.DictComp)):
            return self.comprehension(e)
        if isinstance(e, ast.Lambda):
            return self.closure(e)
        if isinstance(e, ast.NamedExpr):
            v = self.ev(e.value)
            self.assign(e.target, v)
            return v
        if isinstance(e, ast.Slice):
            return slice(self.ev(e.lower) if e.lower is not None else None, self.ev(e.upper) if e.upper is not None else None, self.ev(e.step) if e.step is not None else None)
        if isinstance(e, ast.Starred):
            raise Unsupported("starred expression")
        raise Unsupported(f"expression {type(e).__name__}")

    def comprehension(self, e: ast.AST) -> Any:
        """Eager evaluation over concrete iterables (a generator expression yields a tuple: the callers here are tuple(),
        all(), dict(), ... which consume it at once)."""
        out: list = []
        saved = dict(self.env)

        def rec(i: int) -> None:
            if i == len(e.generators):
                if isinstance(e, ast.DictComp):
                    out.append((self.ev(e.key), self.ev(e.value)))
                else:
                    out.append(self.ev(e.elt))
                return
            g = e.generators[i]
            for x in self.ev(g.iter):
                self.assign(g.target, x)
                if all(self.ev(c) for c in g.ifs):
                    rec(i + 1)

        try:
            rec(0)
        finally:
            self.env.clear()
            self.env.update(saved)
        if isinstance(e, ast.DictComp):
            return dict(out)
        if isinstance(e, ast.SetComp):
            return set(out)
        return out if isinstance(e, ast.ListComp) else tuple(out)

    def closure(self, lam: ast.Lambda):
        params = [a.arg for a in lam.args.args]
        outer = self

        def fn(*args):
            sub = Interp({**outer.env, **dict(zip(params, args))}, resolve_name=outer.resolve_name, call_hook=outer.call_hook)
            return sub.ev(lam.body)

        return fn

    def function(self, fd: ast.FunctionDef):
        """A nested `def`: a closure over the defining environment as it is at call time (so it can call itself and later
        siblings), with positional / keyword / default binding."""
        a = fd.args
        names = [x.arg for x in a.posonlyargs + a.args]
        outer = self
        defaults = list(zip(names[len(names) - len(a.defaults):], a.defaults)) + [(x.arg, d) for x, d in zip(a.kwonlyargs, a.kw_defaults) if d is not None]
        body = [s for s in fd.body if not (isinstance(s, ast.Expr) and isinstance(s.value, ast.Constant))]

        def fn(*args, **kwargs):
            env = {**outer.env, **dict(zip(names, args)), **kwargs}
            for n_, d in defaults:
                if n_ not in dict(zip(names, args)) and n_ not in kwargs:
                    env[n_] = outer.ev(d)
            sub = Interp(env, resolve_name=outer.resolve_name, call_hook=outer.call_hook)
            try:
                sub.run(body, outer._exc_resolver)
            except Returned as r:
                return r.value
            return None

        return fn

    def call(self, e: ast.Call) -> Any:
        f = e.func
        if isinstance(f, ast.Call):  # `type(xs)(…)`: rebuilding a container of the same builtin type
            fv = self.ev(f)
            if fv in (tuple, list, set, frozenset, dict):
                return fv(*[self.ev(a) for a in e.args])
            raise Unsupported(f"call of a computed callable {ast.unparse(f)[:40]}")
        if isinstance(f, ast.Name) and f.id in ("all", "any") and len(e.args) == 1 and isinstance(e.args[0], ast.GeneratorExp):
            g = e.args[0]
            if len(g.generators) != 1 or not isinstance(g.generators[0].target, ast.Name):
                raise Unsupported("generator shape")
            gen = g.generators[0]
            seq = self.ev(gen.iter)
            res = []
            saved = self.env.get(gen.target.id, _MISSING)
            for x in seq:
                self.env[gen.target.id] = x
                if all(self.ev(c) for c in gen.ifs):
                    res.append(bool(self.ev(g.elt)))
            if saved is _MISSING:
                self.env.pop(gen.target.id, None)
            else:
                self.env[gen.target.id] = saved
            return all(res) if f.id == "all" else any(res)
        if isinstance(f, ast.Name) and f.id in ("all", "any") and len(e.args) == 1:
            v = [bool(x) for x in self.ev(e.args[0])]
            return all(v) if f.id == "all" else any(v)
        if isinstance(f, ast.Name) and f.id == "isinstance" and len(e.args) == 2:
            t = self.ev(e.args[1])
            return isinstance(self.ev(e.args[0]), t)
        if isinstance(f, ast.Name) and f.id in ("len", "set", "abs", "min", "max", "float", "int", "bool", "tuple", "list", "sorted"):
            fn = {"len": len, "set": set, "abs": abs, "min": min, "max": max, "float": float, "int": int, "bool": bool, "tuple": tuple, "list": list, "sorted": sorted}[f.id]
            return fn(*[self.ev(a) for a in e.args], **{k.arg: self.ev(k.value) for k in e.keywords if k.arg})
        if self.call_hook is not None:
            r = self.call_hook(self, e)
            if r is not _MISSING:
                return r
        if isinstance(f, ast.Name) and f.id == "type" and len(e.args) == 1 and not e.keywords and "type" not in self.env:
            return type(self.ev(e.args[0]))
        if isinstance(f, ast.Name) and f.id in _PURE_BUILTINS and f.id not in self.env:
            return _PURE_BUILTINS[f.id](*[self.ev(a) for a in e.args], **{k.arg: self.ev(k.value) for k in e.keywords})
        if isinstance(f, ast.Name) and callable(self.env.get(f.id)):  # a callable handed in by the case (e.g. a default rule)
            return self.env[f.id](*[self.ev(a) for a in e.args], **{k.arg: self.ev(k.value) for k in e.keywords})
        if isinstance(f, ast.Attribute) and isinstance(f.value, ast.Name) and f.value.id in ("math", "itertools", "functools", "operator", "heapq", "json") and f.value.id not in self.env:
            import functools as _ft
            import itertools as _itools
            import math as _math
            import operator as _op

            import heapq as _hq

            import json as _json

            modv = {"math": _math, "itertools": _itools, "functools": _ft, "operator": _op, "heapq": _hq, "json": _json}[f.value.id]
            fn = _PURE_BUILTINS.get(f.attr) or getattr(modv, f.attr, None)
            if fn is not None:
                return fn(*[self.ev(a) for a in e.args], **{k.arg: self.ev(k.value) for k in e.keywords})
        if isinstance(f, ast.Attribute) and f.attr in _PURE_METHODS:
            base = self.ev(f.value)
            if isinstance(base, (dict, list, tuple, set, frozenset, str)):
                try:
                    return getattr(base, f.attr)(*[self.ev(a) for a in e.args], **{k.arg: self.ev(k.value) for k in e.keywords})
                except (KeyError, IndexError, TypeError, ValueError) as ex:
                    raise Raised(type(ex).__name__, e) from ex
        raise Unsupported(f"call {ast.unparse(e.func)}")

    # ---------------------------------------------------------------- statements
    _exc_resolver = None

    def run(self, stmts: list[ast.stmt], exc_resolver: Callable[[ast.AST], str] | None = None) -> None:
        self._exc_resolver = exc_resolver
        for st in stmts:
            self.stmt(st, exc_resolver)

    def stmt(self, st: ast.stmt, exc_resolver) -> None:
        if isinstance(st, ast.If):
            if self.ev(st.test):
                self.run(st.body, exc_resolver)
            else:
                self.run(st.orelse, exc_resolver)
        elif isinstance(st, ast.Raise):
            name = "?"
            exc = st.exc
            if isinstance(exc, ast.Call):
                exc = exc.func
            if exc_resolver is not None and exc is not None:
                name = exc_resolver(exc)
            elif isinstance(exc, ast.Name):
                name = exc.id
            raise Raised(name, st)
        elif isinstance(st, ast.Assign) and len(st.targets) == 1:
            self.assign(st.targets[0], self.ev(st.value))
        elif isinstance(st, ast.AnnAssign) and st.value is not None:
            self.assign(st.target, self.ev(st.value))
        elif isinstance(st, ast.Expr):
            v = st.value
            if isinstance(v, (ast.Constant, ast.JoinedStr)):
                return  # docstring / dangling string expression
            if isinstance(v, ast.Call):
                d = ast.unparse(v.func)
                if d.startswith(("logger.", "logging.", "warnings.")):
                    return
                if self.call_hook is not None:
                    r = self.call_hook(self, v)
                    if r is not _MISSING:
                        return
                if isinstance(v.func, ast.Attribute) and v.func.attr in _PURE_METHODS:
                    self.call(v)  # e.g. `xs.append(y)` on a concrete list of the case
                    return
                if isinstance(v.func, ast.Name) and callable(self.env.get(v.func.id)):
                    self.call(v)  # a closure of the interpreted function / a callable handed in by the case
                    return
                if isinstance(v.func, ast.Attribute) and isinstance(v.func.value, ast.Name) and v.func.value.id == "heapq" and "heapq" not in self.env:
                    self.call(v)  # heap operations on a concrete list of the case
                    return
            raise Unsupported(f"expression statement {ast.unparse(st)[:60]}")
        elif isinstance(st, ast.AugAssign):
            fn = _BIN.get(type(st.op))
            if fn is None:
                raise Unsupported("augmented assignment op")
            self.assign(st.target, fn(self.ev(st.target), self.ev(st.value)))
        elif isinstance(st, ast.FunctionDef) and not st.decorator_list:
            self.env[st.name] = self.function(st)
        elif isinstance(st, ast.Pass):
            return
        elif isinstance(st, ast.For) and not st.orelse:
            for x in list(self.ev(st.iter)):
                self.assign(st.target, x)
                try:
                    self.run(st.body, exc_resolver)
                except _Continue:
                    continue
                except _Break:
                    break
        elif isinstance(st, ast.While) and not st.orelse:
            n = 0
            while self.ev(st.test):
                n += 1
                if n > 10000:
                    raise Unsupported("loop bound")
                try:
                    self.run(st.body, exc_resolver)
                except _Continue:
                    continue
                except _Break:
                    break
        elif isinstance(st, ast.Continue):
            raise _Continue()
        elif isinstance(st, ast.Break):
            raise _Break()
        elif isinstance(st, ast.Return):
            raise Returned(self.ev(st.value) if st.value is not None else None)
        elif isinstance(st, ast.Assert):
            if not self.ev(st.test):
                raise Raised("AssertionError", st)
        else:
            raise Unsupported(f"statement {type(st).__name__}")

    def assign(self, tgt: ast.AST, val: Any) -> None:
        if isinstance(tgt, ast.Name):
            self.env[tgt.id] = val
        elif isinstance(tgt, ast.Attribute):
            base = self.ev(tgt.value)
            setattr(base, tgt.attr, val)
        elif isinstance(tgt, ast.Subscript):
            base = self.ev(tgt.value)
            try:
                base[self.ev(tgt.slice)] = val
            except Exception as ex:
                raise Unsupported(f"subscript store {ast.unparse(tgt)}") from ex
        elif isinstance(tgt, (ast.Tuple, ast.List)) and sum(isinstance(x, ast.Starred) for x in tgt.elts) == 1:
            vals = list(val) if isinstance(val, (tuple, list)) else None
            k = next(i for i, x in enumerate(tgt.elts) if isinstance(x, ast.Starred))
            after = len(tgt.elts) - k - 1
            if vals is None or len(vals) < len(tgt.elts) - 1:
                raise Raised("ValueError", tgt)
            for t, v in zip(tgt.elts[:k], vals[:k]):
                self.assign(t, v)
            self.assign(tgt.elts[k].value, vals[k: len(vals) - after])
            for t, v in zip(tgt.elts[k + 1:], vals[len(vals) - after:]):
                self.assign(t, v)
        elif isinstance(tgt, (ast.Tuple, ast.List)) and not any(isinstance(x, ast.Starred) for x in tgt.elts):
            vals = list(val) if isinstance(val, (tuple, list)) else None
            if vals is None or len(vals) != len(tgt.elts):
                raise Unsupported(f"destructuring {ast.unparse(tgt)}")
            for t, v in zip(tgt.elts, vals):
                self.assign(t, v)
        else:
            raise Unsupported("assignment target")


_MISSING = object()
MISSING = _MISSING


def region_reps(consts: list[float], integer: bool = False, with_nan: bool = True) -> list[float]:
    """One representative per region of the partition induced by `consts` (plus the boundary points themselves)."""
    cs = sorted(set(consts))
    reps: list[float] = []
    if not cs:
        cs = [0]
    if integer:
        s = set()
        for c in cs:
            s.update({int(c) - 1, int(c), int(c) + 1})
        s.update({min(s) - 3, max(s) + 5})
        return sorted(s)
    reps.append(cs[0] - 1.0)
    for i, c in enumerate(cs):
        reps.append(float(c))
        if i + 1 < len(cs):
            reps.append((c + cs[i + 1]) / 2.0)
    reps.append(cs[-1] + 1.0)
    # just-outside values: the floating-point neighbours of every boundary (a guard that first narrows the value to a lower
    # precision decides these differently from the documented comparison)
    for c in cs:
        reps += [math.nextafter(float(c), -math.inf), math.nextafter(float(c), math.inf)]
    reps += [math.inf, -math.inf]
    if with_nan:
        reps.append(math.nan)
    return reps


def shadow_hierarchy(repo, base) -> dict[str, type]:
    """Empty Python classes mirroring the subclass hierarchy below `base` (a ClassInfo), keyed by qualified name: the
    interpreter's `isinstance`, `type(x) is C`, `issubclass` and `match` class patterns then decide on instances of them exactly
    as Python decides on the repository's own classes — the hierarchy is read from the source, nothing is imported."""
    out: dict[str, type] = {}

    def build(c):
        if c.qual in out:
            return out[c.qual]
        bases = tuple(build(b) for b in c.bases if b is not None and repo.is_subclass(b, base)) if c is not base else ()
        out[c.qual] = type(c.name, bases or (object,), {})
        return out[c.qual]

    for c in repo.subclasses(base):
        build(c)
    return out


def scalar_tensor_ops(interp, call: ast.Call, dotted: str | None):
    """Call-hook helper for rules that interpret tensor code on SCALARS (a 1x1 reading of the matrix code): the element-wise
    torch functions and their method twins are arithmetic on numbers — `torch.add(a, b, alpha=c)` == `a.add(b, alpha=c)` ==
    `a + c*b`, likewise sub / mul / div / neg / abs / pow / sqrt / square / clone / detach / to.  Returns _MISSING otherwise."""
    f = call.func
    kw = {k.arg: k.value for k in call.keywords if k.arg}
    name, operands = None, None
    if dotted and dotted.startswith("torch.") and dotted.split(".")[-1] in ("add", "sub", "subtract", "mul", "multiply", "div", "divide", "true_divide", "neg", "negative", "abs", "pow", "sqrt", "square", "clone", "detach"):
        name, operands = dotted.split(".")[-1], list(call.args)
    elif isinstance(f, ast.Attribute) and f.attr.rstrip("_") in ("add", "sub", "subtract", "mul", "multiply", "div", "divide", "true_divide", "neg", "negative", "abs", "pow", "sqrt", "square", "clone", "detach", "to", "item", "float", "double"):
        try:
            recv = interp.ev(f.value)
        except Unsupported:
            return _MISSING
        if not isinstance(recv, (int, float)) or isinstance(recv, bool):
            return _MISSING
        name, operands = f.attr.rstrip("_"), [f.value] + list(call.args)
    if name is None:
        return _MISSING
    vals = [interp.ev(a) for a in operands]
    if not all(isinstance(v, (int, float)) and not isinstance(v, bool) for v in vals):
        return _MISSING
    x = vals[0]
    alpha = interp.ev(kw["alpha"]) if "alpha" in kw else 1
    res = {
        "add": lambda: x + alpha * vals[1], "sub": lambda: x - alpha * vals[1], "subtract": lambda: x - alpha * vals[1],
        "mul": lambda: x * vals[1], "multiply": lambda: x * vals[1], "div": lambda: x / vals[1], "divide": lambda: x / vals[1], "true_divide": lambda: x / vals[1],
        "neg": lambda: -x, "negative": lambda: -x, "abs": lambda: abs(x), "pow": lambda: x ** vals[1], "sqrt": lambda: x ** 0.5, "square": lambda: x * x,
        "clone": lambda: x, "detach": lambda: x, "to": lambda: x, "item": lambda: x, "float": lambda: float(x), "double": lambda: float(x),
    }[name]()
    if isinstance(f, ast.Attribute) and f.attr.endswith("_") and isinstance(f.value, ast.Name) and not (dotted and dotted.startswith("torch.")):
        interp.env[f.value.id] = res  # the in-place twin updates the receiver
    return res


def repo_pure_calls(repo, module, depth: int = 3, inner=None):
    """Call hook that follows calls of module-level repository functions (resolved through the caller's imports) by
    interpreting their bodies — for utilities made of the same closed sub-language as their callers.  `inner` is consulted
    first (a rule's own hook)."""

    def hook(it, c: ast.Call):
        if inner is not None:
            r = inner(it, c)
            if r is not _MISSING:
                return r
        f = c.func
        d = repo.dotted_of(module, f) if isinstance(f, (ast.Name, ast.Attribute)) else None
        fi = repo.func_by_dotted(repo.resolve_dotted(module, d)) if d else None
        if fi is None or fi.cls is not None or depth <= 0:
            return _MISSING
        a = fi.node.args
        names = [x.arg for x in a.posonlyargs + a.args]
        env = {}
        for p_, v in zip(names, c.args):
            env[p_] = it.ev(v)
        for k in c.keywords:
            if k.arg:
                env[k.arg] = it.ev(k.value)
        sub = Interp({}, resolve_name=it.resolve_name)
        for n_, dv in list(zip(names[len(names) - len(a.defaults):], a.defaults)) + [(x.arg, dv) for x, dv in zip(a.kwonlyargs, a.kw_defaults) if dv is not None]:
            if n_ not in env:
                env[n_] = sub.ev(dv)
        body = [s_ for s_ in fi.node.body if not (isinstance(s_, ast.Expr) and isinstance(s_.value, ast.Constant))]
        callee = Interp(env, resolve_name=it.resolve_name, call_hook=repo_pure_calls(repo, fi.module, depth - 1, inner))
        try:
            callee.run(body, lambda e: ast.unparse(e))
        except Returned as r:
            return r.value
        return None

    return hook


def round_to_dtype(x: float, dtype_name: str) -> float:
    """The value a Python float has after `torch.tensor(x, dtype=…)` (IEEE round-to-nearest-even; bfloat16 = float32 with the
    low 16 mantissa bits rounded away)."""
    import struct

    if isinstance(x, bool) or not isinstance(x, (int, float)):
        raise Unsupported("tensor of a non-number")
    x = float(x)
    if dtype_name in ("float64", "double") or x != x or x in (math.inf, -math.inf):
        return x
    if dtype_name in ("float32", "float"):
        try:
            return struct.unpack("f", struct.pack("f", x))[0]
        except OverflowError:
            return math.copysign(math.inf, x)
    if dtype_name in ("float16", "half"):
        try:
            return struct.unpack("e", struct.pack("e", x))[0]
        except OverflowError:
            return math.copysign(math.inf, x)
    if dtype_name == "bfloat16":
        try:
            bits = struct.unpack("I", struct.pack("f", x))[0]
        except OverflowError:
            return math.copysign(math.inf, x)
        lower = bits & 0xFFFF
        bits >>= 16
        if lower > 0x8000 or (lower == 0x8000 and (bits & 1)):
            bits += 1
        return struct.unpack("f", struct.pack("I", (bits << 16) & 0xFFFFFFFF))[0]
    raise Unsupported(f"dtype {dtype_name}")


def stdlib_resolver(repo, module, extra=None):
    """Name resolver for interpreting repository utilities: module constants, names imported from the pure standard-library
    modules (operator / functools / itertools / math / json / heapq / copy.deepcopy), and whatever `extra(name)` supplies first."""
    import copy as _copy
    import functools as _ft
    import heapq as _hq
    import itertools as _it
    import json as _json
    import operator as _op

    mods = {"operator": _op, "functools": _ft, "itertools": _it, "math": math, "json": _json, "heapq": _hq}

    def res(name: str):
        if extra is not None:
            v = extra(name)
            if v is not _MISSING:
                return v
        if name in mods and module.imports.get(name, name) == name:
            return mods[name]
        d = repo.resolve_dotted(module, name)
        ok, v = repo.const_by_dotted(d)
        if ok:
            return v
        head, _, attr = d.rpartition(".")
        if head in mods and hasattr(mods[head], attr):
            fn = getattr(mods[head], attr)
            return _PURE_BUILTINS.get(attr, fn) if head == "itertools" else fn
        if d == "copy.deepcopy":
            return _copy.deepcopy
        # a module-level name bound to an expression (e.g. a hoisted tuple of types): its value is that expression's
        ma = repo.module_assign(d)
        if ma is not None:
            return Interp({}, resolve_name=stdlib_resolver(repo, ma[0], extra)).ev(ma[1])
        raise Unsupported(f"free name {name!r}")

    return res
